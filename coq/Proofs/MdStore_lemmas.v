(* Proofs/MdStore_lemmas.v — declarative specifications of the metadata store
   lookups and the proofs that the model (Model/MdStore.v) meets them.
   Everything is by induction over arbitrary lists; nothing is sampled. *)
From PV Require Import Lib.Base Model.MdStore.
Open Scope N_scope.

(* ------------------------------------------------------------------ *)
(* generic facts                                                      *)
(* ------------------------------------------------------------------ *)
Lemma str_eqb_sym a b : str_eqb a b = str_eqb b a.
Proof.
  destruct (str_eqb_spec a b) as [->|Hn]; [now rewrite str_eqb_refl|].
  destruct (str_eqb_spec b a) as [->|_]; [contradiction|reflexivity].
Qed.

Lemma aget_app_some {A} k (l l' : list (str * A)) v :
  aget k l = Some v -> aget k (l ++ l') = Some v.
Proof.
  induction l as [|[k' v'] l IH]; cbn [aget app]; [discriminate|].
  destruct (str_eqb k k'); auto.
Qed.

Lemma aget_app_none {A} k (l l' : list (str * A)) :
  aget k l = None -> aget k (l ++ l') = aget k l'.
Proof.
  induction l as [|[k' v'] l IH]; cbn [aget app]; [reflexivity|].
  destruct (str_eqb k k'); [discriminate|auto].
Qed.

Lemma aget_In {A} k (l : list (str * A)) v : aget k l = Some v -> In (k, v) l.
Proof.
  induction l as [|[k' v'] l IH]; cbn [aget]; [discriminate|].
  destruct (str_eqb_spec k k') as [->|Hn].
  - intros H; injection H as ->. now left.
  - intros H; right; auto.
Qed.

Lemma aset_In {A} k (v : A) l k' v' :
  In (k', v') (aset k v l) -> (k' = k /\ v' = v) \/ In (k', v') l.
Proof.
  induction l as [|[k0 v0] l IH]; cbn [aset].
  - intros [H|[]]; injection H as <- <-; auto.
  - destruct (str_eqb k k0).
    + intros [H|H]; [injection H as <- <-; auto|right; now right].
    + intros [H|H]; [right; now left|]. destruct (IH H) as [?|?]; [auto|right; now right].
Qed.

Lemma aset_fresh {A} k (v : A) l :
  ~ In k (map fst l) -> aset k v l = l ++ [(k, v)].
Proof.
  induction l as [|[k0 v0] l IH]; cbn [aset map fst app]; [reflexivity|].
  intros Hn. destruct (str_eqb_spec k k0) as [->|_].
  - exfalso; apply Hn; now left.
  - f_equal. apply IH. intros H; apply Hn; now right.
Qed.

Lemma filter_all {A} (f : A -> bool) l : (forall x, In x l -> f x = true) -> filter f l = l.
Proof.
  induction l as [|x l IH]; cbn [filter]; [reflexivity|]. intros H.
  rewrite (H x (or_introl eq_refl)). f_equal. apply IH. intros y Hy; apply H; now right.
Qed.

Lemma filter_none {A} (f : A -> bool) l : existsb f l = false -> filter f l = [].
Proof.
  induction l as [|x l IH]; cbn [existsb filter]; [reflexivity|].
  intros H. apply orb_false_iff in H as [-> H]. auto.
Qed.

Lemma Unknown_ne_Unsupported : UnknownSystemEntity <> UnsupportedBinding.
Proof. intros H. vm_compute in H. discriminate. Qed.

(* ------------------------------------------------------------------ *)
(* 1. one document: which entity a source holds under an entity id    *)
(* ------------------------------------------------------------------ *)
(* an occurrence of an EntityDescriptor that can be stored under [eid] *)
Definition acceptable (now : Z) (check : bool) (eid : str) (e : entity) : bool :=
  str_eqb eid (e_id e) && (negb check || valid now (e_valid_until e)) && storable e.

(* SPECIFICATION: the first acceptable occurrence, in its stored form *)
Definition doc_entity (now : Z) (check : bool) (b : docbody) (eid : str) : option entity :=
  match b with
  | Many vu IvOk es =>
      if negb check || valid now vu then option_map stored_form (find (acceptable now check eid) es) else None
  | Single e => if acceptable now check eid e then Some (stored_form e) else None
  | _ => None
  end.

Lemma fold_ents_get now check es : forall m m',
  fold_ents now check m es = Ok m' ->
  forall eid, aget eid m' = match aget eid m with
                            | Some x => Some x
                            | None => option_map stored_form (find (acceptable now check eid) es)
                            end.
Proof.
  induction es as [|e es IH]; intros m m' H eid; cbn [fold_ents] in H.
  - injection H as <-. cbn [find option_map]. now destruct (aget eid m).
  - cbn [find]. unfold do_entity in H. unfold acceptable at 1.
    destruct (check && negb (valid now (e_valid_until e))) eqn:Eold.
    + (* too old *)
      assert (negb check || valid now (e_valid_until e) = false) as ->
          by (destruct check, (valid now (e_valid_until e)); cbn in *; congruence).
      rewrite andb_false_r. cbn [andb]. exact (IH _ _ H eid).
    + assert (negb check || valid now (e_valid_until e) = true) as Hv
          by (destruct check, (valid now (e_valid_until e)); cbn in *; congruence).
      rewrite Hv, andb_true_r.
      destruct (aget (e_id e) m) as [x|] eqn:Edup.
      * (* duplicate of something stored *)
        rewrite (IH _ _ H eid).
        destruct (str_eqb_spec eid (e_id e)) as [->|_]; cbn [andb]; [now rewrite Edup|reflexivity].
      * destruct (existsb lacks_protocols (e_roles e)); [discriminate|].
        destruct (storable e) eqn:Est.
        -- rewrite (IH _ _ H eid).
           destruct (aget eid m) as [x|] eqn:Em.
           ++ now rewrite (aget_app_some _ _ _ _ Em).
           ++ rewrite (aget_app_none _ _ _ Em). cbn [aget].
              destruct (str_eqb eid (e_id e)); reflexivity.
        -- rewrite andb_false_r. exact (IH _ _ H eid).
Qed.

Lemma parse_get now check b m :
  parse now check b = Ok m -> forall eid, aget eid m = doc_entity now check b eid.
Proof.
  intros H eid. destruct b as [vu iv es|e|]; cbn [parse doc_entity] in *.
  - destruct iv; [|injection H as <-; reflexivity|discriminate].
    destruct (check && negb (valid now vu)) eqn:E; [discriminate|].
    assert (negb check || valid now vu = true) as ->
        by (destruct check, (valid now vu); cbn in *; congruence).
    now rewrite (fold_ents_get _ _ _ _ _ H eid).
  - assert (fold_ents now check [] [e] = Ok m) as H'
        by (cbn [fold_ents]; now rewrite H).
    rewrite (fold_ents_get _ _ _ _ _ H' eid). cbn [aget find option_map].
    now destruct (acceptable now check eid e).
  - injection H as <-. reflexivity.
Qed.

(* what the specification says about validity *)
Lemma doc_entity_sound now check b eid e :
  doc_entity now check b eid = Some e ->
  exists e0, e = stored_form e0 /\ e_id e0 = eid /\ storable e0 = true /\
    (check = true -> valid now (e_valid_until e0) = true) /\
    match b with
    | Many vu iv es => iv = IvOk /\ In e0 es /\ (check = true -> valid now vu = true)
    | Single e1 => e0 = e1
    | NotMetadata => False
    end.
Proof.
  unfold doc_entity. destruct b as [vu iv es|e1|]; [| |discriminate].
  - destruct iv; try discriminate.
    destruct (negb check || valid now vu) eqn:Ed; [|discriminate].
    destruct (find (acceptable now check eid) es) as [e0|] eqn:Ef; [|discriminate].
    cbn [option_map]. intros H; injection H as <-.
    destruct (find_some _ _ Ef) as [Hin Hacc]. unfold acceptable in Hacc.
    apply andb_true_iff in Hacc as [Hacc Hst]. apply andb_true_iff in Hacc as [Hid Hv].
    apply str_eqb_eq in Hid. exists e0. repeat split; auto.
    + intros ->. exact Hv.
    + intros ->. exact Ed.
  - destruct (acceptable now check eid e1) eqn:Hacc; [|discriminate].
    intros H; injection H as <-. unfold acceptable in Hacc.
    apply andb_true_iff in Hacc as [Hacc Hst]. apply andb_true_iff in Hacc as [Hid Hv].
    apply str_eqb_eq in Hid. exists e1. repeat split; auto. intros ->. exact Hv.
Qed.

(* ------------------------------------------------------------------ *)
(* 2. one source                                                      *)
(* ------------------------------------------------------------------ *)
Definition eff_check (s : source) : bool :=
  match s_kind s with Remote => s_check s | _ => true end.

(* a source that MetadataStore.load can register: with a certificate and a
   signed root it is remote and its verification call answered True *)
Definition admissible (s : source) : Prop :=
  (s_kind s = Remote -> s_http_ok s = true) /\
  (s_kind s <> Inline -> s_cert s = true -> d_signed (s_doc s) = true ->
     s_kind s = Remote /\ s_verdict s = Ok true).

Lemma parse_and_check_ok now check s m :
  parse_and_check now check s = Ok m ->
  parse now check (d_body (s_doc s)) = Ok m /\
  (s_cert s = true -> d_signed (s_doc s) = true -> s_kind s = Remote /\ s_verdict s = Ok true).
Proof.
  unfold parse_and_check. destruct (parse now check (d_body (s_doc s))) as [m0|x]; [|discriminate].
  destruct (s_cert s).
  - destruct (d_signed (s_doc s)); cbn [negb].
    + destruct (s_kind s); try discriminate. destruct (s_verdict s) as [[|]|x]; try discriminate.
      intros H; injection H as <-. split; [reflexivity|]. intros _ _. split; reflexivity.
    + intros H; injection H as <-. split; [reflexivity|]. intros _ Hd; discriminate.
  - intros H; injection H as <-. split; [reflexivity|]. intros Hc; discriminate.
Qed.

Lemma load_source_ok now s m :
  load_source now s = Ok m ->
  parse now (eff_check s) (d_body (s_doc s)) = Ok m /\ admissible s.
Proof.
  unfold load_source, eff_check, admissible. destruct (s_kind s) eqn:Ek.
  - intros H. split; [exact H|]. split; [discriminate|]. intros Hn; contradiction.
  - intros H. apply parse_and_check_ok in H as [Hp Hs]. rewrite Ek in Hs. split; [exact Hp|].
    split; [discriminate|]. intros _ Hc Hd. destruct (Hs Hc Hd) as [Hx _]. discriminate.
  - destruct (s_http_ok s); [|discriminate]. intros H. apply parse_and_check_ok in H as [Hp Hs].
    split; [exact Hp|]. split; [reflexivity|]. intros _ Hc Hd. destruct (Hs Hc Hd) as [_ Hb].
    split; [reflexivity|exact Hb].
Qed.

(* the converse: an admissible source whose document parses IS registered *)
Lemma load_source_complete now s m :
  admissible s -> parse now (eff_check s) (d_body (s_doc s)) = Ok m -> load_source now s = Ok m.
Proof.
  unfold load_source, eff_check, admissible, parse_and_check. intros [Hh Hv] Hp.
  destruct (s_kind s) eqn:Ek.
  - exact Hp.
  - rewrite Hp. destruct (s_cert s) eqn:Ec; [|reflexivity].
    destruct (d_signed (s_doc s)) eqn:Ed; [|reflexivity].
    destruct (Hv ltac:(discriminate) eq_refl eq_refl) as [Hx _]. discriminate.
  - rewrite (Hh eq_refl), Hp. destruct (s_cert s) eqn:Ec; [|reflexivity].
    destruct (d_signed (s_doc s)) eqn:Ed; [|reflexivity]. cbn [negb].
    destruct (Hv ltac:(discriminate) eq_refl eq_refl) as [_ ->]. reflexivity.
Qed.

(* a failed verification - reported by raising or by returning False - keeps the source out *)
Lemma failed_verification_fatal now s :
  s_kind s <> Inline -> s_cert s = true -> d_signed (s_doc s) = true -> s_verdict s <> Ok true ->
  exists x, load_source now s = Err x.
Proof.
  intros Hk Hc Hd Hv. destruct (load_source now s) as [m|x] eqn:El; [|now exists x].
  apply load_source_ok in El as [_ [_ Ha]]. destruct (Ha Hk Hc Hd) as [_ Hb]. contradiction.
Qed.

Lemma load_source_get now s m :
  load_source now s = Ok m ->
  forall eid, aget eid m = doc_entity now (eff_check s) (d_body (s_doc s)) eid.
Proof. intros H. apply load_source_ok in H as [Hp _]. exact (parse_get _ _ _ _ Hp). Qed.

(* ------------------------------------------------------------------ *)
(* 3. the sequence of loads                                           *)
(* ------------------------------------------------------------------ *)
Lemma load_all_In now srcs : forall st k m,
  In (k, m) (load_all now st srcs) ->
  In (k, m) st \/ exists s, In s srcs /\ s_key s = k /\ load_source now s = Ok m.
Proof.
  induction srcs as [|s srcs IH]; intros st k m H; cbn [load_all] in H; [now left|].
  apply IH in H as [H|(s' & Hin & Hk & Hl)].
  - unfold store_load in H. destruct (load_source now s) as [m0|x] eqn:El; cbn [fst] in H.
    + apply aset_In in H as [[-> ->]|H]; [|now left].
      right. exists s. split; [now left|]. split; [reflexivity|exact El].
    + now left.
  - right. exists s'. split; [now right|]. split; assumption.
Qed.

(* the successfully loaded sources, in configuration order *)
Definition loaded (now : Z) (srcs : list source) : store :=
  flat_map (fun s => match load_source now s with Ok m => [(s_key s, m)] | Err _ => [] end) srcs.

Lemma load_all_distinct now srcs : forall st,
  NoDup (map s_key srcs) ->
  (forall k, In k (map fst st) -> ~ In k (map s_key srcs)) ->
  load_all now st srcs = st ++ loaded now srcs.
Proof.
  induction srcs as [|s srcs IH]; intros st Hnd Hdis; cbn [load_all loaded flat_map].
  - now rewrite app_nil_r.
  - cbn [map] in Hnd. inversion Hnd as [|? ? Hnotin Hnd']; subst.
    unfold store_load. destruct (load_source now s) as [m|x] eqn:El; cbn [fst].
    + rewrite aset_fresh.
      * rewrite IH; [now rewrite <- app_assoc| exact Hnd' |].
        intros k Hk. rewrite map_app, in_app_iff in Hk. destruct Hk as [Hk|[<-|[]]].
        -- intros Hin. apply (Hdis k Hk). cbn [map]. now right.
        -- exact Hnotin.
      * intros Hk. apply (Hdis _ Hk). cbn [map]. now left.
    + cbn [app]. apply IH; [exact Hnd'|]. intros k Hk Hin. apply (Hdis k Hk). cbn [map]. now right.
Qed.

(* ------------------------------------------------------------------ *)
(* 4. service                                                         *)
(* ------------------------------------------------------------------ *)
Definition has_role (m : mdmap) (eid typ : str) : bool :=
  match aget eid m with Some e => negb (is_nil (roles_of e typ)) | None => false end.

(* SPECIFICATION of one source's answer, as a membership statement *)
Definition declares (m : mdmap) (eid typ svc binding : str) (s : service) : Prop :=
  exists e r, aget eid m = Some e /\ In r (e_roles e) /\ r_type r = typ /\
              In s (r_services r) /\ sv_type s = svc /\ sv_binding s = binding.

Lemma md_service_none m eid typ svc b :
  md_service m eid typ svc b = None <-> has_role m eid typ = false.
Proof.
  unfold md_service, has_role. destruct (aget eid m) as [e|]; [|tauto].
  destruct (roles_of e typ); cbn [is_nil negb]; split; congruence.
Qed.

Lemma md_service_In m eid typ svc b l :
  md_service m eid typ svc b = Some l ->
  forall s, In s l <-> declares m eid typ svc b s.
Proof.
  unfold md_service, declares. destruct (aget eid m) as [e|]; [|discriminate].
  destruct (roles_of e typ) as [|r0 rs] eqn:Er; [discriminate|]. rewrite <- Er. clear Er r0 rs.
  intros H; injection H as <-. intros s. rewrite filter_In, in_flat_map. split.
  - intros [(r & Hr & Hs) Hb]. unfold roles_of in Hr. apply filter_In in Hr as [Hr Ht].
    apply filter_In in Hs as [Hs Hv]. apply str_eqb_eq in Ht, Hv, Hb.
    exists e, r. repeat split; assumption.
  - intros (e' & r & He & Hr & Ht & Hs & Hv & Hb). injection He as <-. split.
    + exists r. split.
      * unfold roles_of. apply filter_In. split; [exact Hr|now apply str_eqb_eq].
      * apply filter_In. split; [exact Hs|now apply str_eqb_eq].
    + now apply str_eqb_eq.
Qed.

(* a source that does not end the loop *)
Definition quiet (eid typ svc b : str) (km : str * mdmap) : Prop :=
  md_service (snd km) eid typ svc b = None \/ md_service (snd km) eid typ svc b = Some [].

Lemma service_loop_char st eid typ svc b : forall known,
  match service_loop st eid typ svc b known with
  | Ok l => exists pre k m post, st = pre ++ (k, m) :: post /\ md_service m eid typ svc b = Some l /\
                                 l <> [] /\ Forall (quiet eid typ svc b) pre
  | Err x => Forall (quiet eid typ svc b) st /\
             ((x = UnsupportedBinding /\
               (known = true \/ exists km, In km st /\ md_service (snd km) eid typ svc b = Some [])) \/
              (x = UnknownSystemEntity /\ known = false /\
               forall km, In km st -> md_service (snd km) eid typ svc b = None))
  end.
Proof.
  induction st as [|[k m] st IH]; intros known; cbn [service_loop].
  - destruct known; (split; [constructor|]); [left|right]; auto. repeat split; auto. intros km [].
  - destruct (md_service m eid typ svc b) as [[|x l]|] eqn:Em.
    + specialize (IH true). destruct (service_loop st eid typ svc b true) as [l|x].
      * destruct IH as (pre & k' & m' & post & -> & Hm & Hne & Hq).
        exists ((k, m) :: pre), k', m', post. repeat split; auto. constructor; [right; exact Em|exact Hq].
      * destruct IH as [Hq [[-> _]|[_ [Hk _]]]]; [|discriminate]. split.
        -- constructor; [right; exact Em|exact Hq].
        -- left. split; [reflexivity|]. right. exists (k, m). split; [now left|exact Em].
    + exists [], k, m, st. repeat split; auto. discriminate.
    + specialize (IH known). destruct (service_loop st eid typ svc b known) as [l|x].
      * destruct IH as (pre & k' & m' & post & -> & Hm & Hne & Hq).
        exists ((k, m) :: pre), k', m', post. repeat split; auto. constructor; [left; exact Em|exact Hq].
      * destruct IH as [Hq H]. split; [constructor; [left; exact Em|exact Hq]|].
        destruct H as [[-> H]|[-> [Hk H]]]; [left|right].
        -- split; [reflexivity|]. destruct H as [H|(km & Hin & Hkm)]; [now left|].
           right. exists km. split; [now right|exact Hkm].
        -- repeat split; auto. intros km [<-|Hin]; [exact Em|auto].
Qed.

(* completeness: the first non-quiet source answers *)
Lemma service_loop_first pre k m post eid typ svc b x l : forall known,
  Forall (quiet eid typ svc b) pre -> md_service m eid typ svc b = Some (x :: l) ->
  service_loop (pre ++ (k, m) :: post) eid typ svc b known = Ok (x :: l).
Proof.
  induction pre as [|[k0 m0] pre IH]; intros known Hq Hm; cbn [app service_loop].
  - now rewrite Hm.
  - inversion Hq as [|? ? [H0|H0] Hq']; subst; cbn [snd] in H0; rewrite H0; auto.
Qed.

(* ------------------------------------------------------------------ *)
(* 5. __getitem__ and certs                                           *)
(* ------------------------------------------------------------------ *)
Lemma store_get_char st eid :
  match store_get st eid with
  | Some e => exists pre k m post, st = pre ++ (k, m) :: post /\ aget eid m = Some e /\
                                   Forall (fun km => aget eid (snd km) = None) pre
  | None => forall km, In km st -> aget eid (snd km) = None
  end.
Proof.
  induction st as [|[k m] st IH]; cbn [store_get]; [intros km []|].
  destruct (aget eid m) as [e|] eqn:Em.
  - exists [], k, m, st. repeat split; auto.
  - destruct (store_get st eid) as [e|].
    + destruct IH as (pre & k' & m' & post & -> & Hm & Hq).
      exists ((k, m) :: pre), k', m', post. repeat split; auto.
    + intros km [<-|Hin]; [exact Em|auto].
Qed.

Lemma add_new_fold_In cs : forall res c,
  In c (fold_left add_new cs res) <-> In c res \/ In c cs.
Proof.
  induction cs as [|c0 cs IH]; intros res c; cbn [fold_left]; [cbn [In]; tauto|].
  rewrite IH. unfold add_new. destruct (mem_str c0 res) eqn:Em.
  - apply mem_str_In in Em. cbn [In]. split; [tauto|]. intros [H|[<-|H]]; auto.
  - rewrite in_app_iff. cbn [In]. tauto.
Qed.

Lemma add_new_fold_NoDup cs : forall res, NoDup res -> NoDup (fold_left add_new cs res).
Proof.
  induction cs as [|c0 cs IH]; intros res Hnd; cbn [fold_left]; [exact Hnd|].
  apply IH. unfold add_new. destruct (mem_str c0 res) eqn:Em; [exact Hnd|].
  assert (~ In c0 res) as Hn by (intros H; apply mem_str_In in H; congruence).
  clear Em. induction res as [|a res IHr]; cbn [app].
  - constructor; [intros []|constructor].
  - inversion Hnd as [|? ? Ha Hnd']; subst. constructor.
    + rewrite in_app_iff. cbn [In]. intros [H|[H|[]]]; [contradiction|]. apply Hn. now left.
    + apply IHr; [exact Hnd'|]. intros H; apply Hn; now right.
Qed.

(* a certificate is served by a key descriptor list for a use *)
Definition key_declares (use : str) (ks : list keydesc) (c : str) : Prop :=
  exists k c0, In k ks /\ use_ok use k = true /\ In c0 (kd_certs k) /\ c = repack_cert c0.

Lemma extract_loop_char use ks : forall res,
  (forall c, In c (extract_loop use ks res) <-> In c res \/ key_declares use ks c) /\
  (NoDup res -> NoDup (extract_loop use ks res)).
Proof.
  induction ks as [|k ks IH]; intros res; cbn [extract_loop].
  - split; [|auto]. intros c. split; [auto|]. intros [H|(k & c0 & [] & _)]; exact H.
  - destruct (use_ok use k) eqn:Eu.
    + specialize (IH (fold_left add_new (map repack_cert (kd_certs k)) res)). destruct IH as [HIn Hnd]. split.
      * intros c. rewrite HIn, add_new_fold_In, in_map_iff. split.
        -- intros [[H|(c0 & <- & Hc0)]|(k' & c0 & Hk & Hu & Hc & ->)]; auto.
           ++ right. exists k, c0. repeat split; auto. now left.
           ++ right. exists k', c0. repeat split; auto. now right.
        -- intros [H|(k' & c0 & [<-|Hk] & Hu & Hc & ->)]; auto.
           ++ left. right. now exists c0.
           ++ right. exists k', c0. repeat split; auto.
      * intros H. apply Hnd. now apply add_new_fold_NoDup.
    + specialize (IH res). destruct IH as [HIn Hnd]. split; [|exact Hnd]. intros c. rewrite HIn. split.
      * intros [H|(k' & c0 & Hk & Hu & Hc & ->)]; auto. right. exists k', c0. repeat split; auto. now right.
      * intros [H|(k' & c0 & [<-|Hk] & Hu & Hc & ->)]; auto; [congruence|].
        right. exists k', c0. repeat split; auto.
Qed.

(* SPECIFICATION: certificate c is declared for [use] by a role in [rs] *)
Definition role_declares (use : str) (rs : list role) (c : str) : Prop :=
  exists r k c0, In r rs /\ In k (r_keys r) /\ use_ok use k = true /\ In c0 (kd_certs k) /\ c = repack_cert c0.

Lemma extract_certs_ok use rs :
  NoDup (extract_certs use rs) /\ forall c, In c (extract_certs use rs) <-> role_declares use rs c.
Proof.
  unfold extract_certs. destruct (extract_loop_char use (flat_map r_keys rs) []) as [HIn Hnd].
  split; [apply Hnd; constructor|].
  intros c. rewrite HIn. unfold key_declares, role_declares. split.
  - intros [[]|(k & c0 & Hk & Hu & Hc & ->)]. apply in_flat_map in Hk as (r & Hr & Hk).
    exists r, k, c0. repeat split; auto.
  - intros (r & k & c0 & Hr & Hk & Hu & Hc & ->). right. exists k, c0. repeat split; auto.
    apply in_flat_map. now exists r.
Qed.

Lemma certs_any_ok use e ds :
  forall c, In c (certs_any use e ds) <-> exists d, In d ds /\ role_declares use (roles_of e (descr_key d)) c.
Proof.
  induction ds as [|d ds IH]; intros c; cbn [certs_any].
  - split; [intros []|intros (d & [] & _)].
  - destruct (roles_of e (descr_key d)) as [|r0 rs] eqn:Er.
    + rewrite (IH c). split.
      * intros (d' & Hd & Hc). exists d'. split; [now right|exact Hc].
      * intros (d' & [<-|Hd] & Hc); [|now exists d'].
        rewrite Er in Hc. destruct Hc as (r & _ & _ & [] & _).
    + rewrite <- Er. rewrite in_app_iff, (IH c). destruct (extract_certs_ok use (roles_of e (descr_key d))) as [_ H1].
      rewrite H1. split.
      * intros [Hc|(d' & Hd & Hc)]; [exists d; split; [now left|exact Hc]|exists d'; split; [now right|exact Hc]].
      * intros (d' & [<-|Hd] & Hc); [now left|right; now exists d'].
Qed.

(* ---- the code before proposed_fix/C03-1: a use-matching key descriptor without X509Data raised KeyError ---- *)
Lemma extract_loop_before_fix_char use ks : forall res,
  match extract_loop_before_fix use ks res with
  | Ok l => l = extract_loop use ks res
  | Err x => x = KeyError /\ exists k, In k ks /\ use_ok use k = true /\ kd_certs k = []
  end.
Proof.
  induction ks as [|k ks IH]; intros res; cbn [extract_loop_before_fix extract_loop]; [reflexivity|].
  destruct (use_ok use k) eqn:Eu.
  - destruct (kd_certs k) as [|c1 cs] eqn:Ec; cbn [is_nil].
    + split; [reflexivity|]. exists k. repeat split; auto. now left.
    + rewrite <- Ec. specialize (IH (fold_left add_new (map repack_cert (kd_certs k)) res)).
      destruct (extract_loop_before_fix use ks _) as [l|x]; [exact IH|].
      destruct IH as [-> (k' & Hk & Hu & Hc)]. split; [reflexivity|]. exists k'. repeat split; auto. now right.
  - specialize (IH res). destruct (extract_loop_before_fix use ks res) as [l|x]; [exact IH|].
    destruct IH as [-> (k' & Hk & Hu & Hc)]. split; [reflexivity|]. exists k'. repeat split; auto. now right.
Qed.

Lemma extract_loop_before_fix_complete use ks : forall res,
  (forall k, In k ks -> use_ok use k = true -> kd_certs k <> []) ->
  extract_loop_before_fix use ks res = Ok (extract_loop use ks res).
Proof.
  intros res H. pose proof (extract_loop_before_fix_char use ks res) as C.
  destruct (extract_loop_before_fix use ks res) as [l|x]; [now subst|].
  destruct C as [_ (k & Hk & Hu & Hc)]. exfalso. exact (H k Hk Hu Hc).
Qed.

Lemma extract_certs_before_fix_char use rs :
  match extract_certs_before_fix use rs with
  | Ok l => l = extract_certs use rs
  | Err x => x = KeyError /\ exists r k, In r rs /\ In k (r_keys r) /\ use_ok use k = true /\ kd_certs k = []
  end.
Proof.
  unfold extract_certs_before_fix, extract_certs. pose proof (extract_loop_before_fix_char use (flat_map r_keys rs) []) as C.
  destruct (extract_loop_before_fix use (flat_map r_keys rs) []) as [l|x]; [exact C|].
  destruct C as [-> (k & Hk & Hu & Hc)]. split; [reflexivity|].
  apply in_flat_map in Hk as (r & Hr & Hk). exists r, k. repeat split; auto.
Qed.

Lemma roles_of_In e typ r : In r (roles_of e typ) <-> In r (e_roles e) /\ r_type r = typ.
Proof. unfold roles_of. rewrite filter_In, str_eqb_eq. tauto. Qed.

Lemma Ok_inj {A} (a b : A) : @Ok A a = Ok b -> a = b.
Proof. intros H. now injection H. Qed.

(* every served certificate comes from a key descriptor of THAT entity whose
   use is the requested one or absent *)
Lemma store_certs_sound st eid d use l c :
  store_certs st eid d use = Ok l -> In c l ->
  exists e r k c0, store_get st eid = Some e /\ In r (e_roles e) /\ In k (r_keys r) /\
    (kd_use k = None \/ kd_use k = Some use) /\ In c0 (kd_certs k) /\ c = repack_cert c0 /\
    (d <> s2l "any" -> r_type r = descr_key d).
Proof.
  unfold store_certs. destruct (store_get st eid) as [e|]; [|discriminate].
  assert (forall rs, (forall r, In r rs -> In r (e_roles e)) -> role_declares use rs c ->
          forall (P : role -> Prop), (forall r, In r rs -> P r) ->
          exists r k c0, In r (e_roles e) /\ In k (r_keys r) /\ (kd_use k = None \/ kd_use k = Some use) /\
                         In c0 (kd_certs k) /\ c = repack_cert c0 /\ P r) as Hgen.
  { intros rs Hsub (r & k & c0 & Hr & Hk & Hu & Hc & ->) P HP. exists r, k, c0. repeat split; auto.
    unfold use_ok in Hu. destruct (kd_use k) as [u|]; [|now left]. right. apply str_eqb_eq in Hu. now subst. }
  destruct (str_eqb_spec d (s2l "any")) as [->|Hn].
  - intros H Hc. apply Ok_inj in H. subst l. apply certs_any_ok in Hc as (d' & _ & Hc).
    destruct (Hgen _ (fun r Hr => proj1 (proj1 (roles_of_In _ _ _) Hr)) Hc (fun _ => True) (fun _ _ => I))
      as (r & k & c0 & H1 & H2 & H3 & H4 & H5 & _).
    exists e, r, k, c0. repeat split; auto. intros Hx; contradiction.
  - destruct (roles_of e (descr_key d)) as [|r0 rs] eqn:Er; [discriminate|]. rewrite <- Er.
    intros H Hc. apply Ok_inj in H. subst l. apply (proj2 (extract_certs_ok _ _)) in Hc.
    destruct (Hgen _ (fun r Hr => proj1 (proj1 (roles_of_In _ _ _) Hr)) Hc (fun r => r_type r = descr_key d)
                   (fun r Hr => proj2 (proj1 (roles_of_In _ _ _) Hr)))
      as (r & k & c0 & H1 & H2 & H3 & H4 & H5 & H6).
    exists e, r, k, c0. repeat split; auto.
Qed.

(* exactness for a named descriptor: soundness, completeness, no duplicates *)
Lemma store_certs_exact st eid d use l :
  d <> s2l "any" -> store_certs st eid d use = Ok l ->
  exists e, store_get st eid = Some e /\ NoDup l /\
    forall c, In c l <-> role_declares use (roles_of e (descr_key d)) c.
Proof.
  unfold store_certs. intros Hn. destruct (store_get st eid) as [e|]; [|discriminate].
  destruct (str_eqb_spec d (s2l "any")) as [->|_]; [contradiction|].
  destruct (roles_of e (descr_key d)) as [|r0 rs] eqn:Er; [discriminate|]. rewrite <- Er.
  intros H. apply Ok_inj in H. subst l. destruct (extract_certs_ok use (roles_of e (descr_key d))) as [Hnd H].
  exists e. repeat split; auto; apply H.
Qed.

Lemma store_certs_any_exact st eid use l :
  store_certs st eid (s2l "any") use = Ok l ->
  exists e, store_get st eid = Some e /\
    forall c, In c l <-> exists d, In d ANY_ROLES /\ role_declares use (roles_of e (descr_key d)) c.
Proof.
  unfold store_certs. destruct (store_get st eid) as [e|]; [|discriminate].
  rewrite str_eqb_refl. intros H. apply Ok_inj in H. subst l. exists e. split; [reflexivity|]. exact (certs_any_ok _ _ _).
Qed.

(* when does certs raise: unknown entity, or a named descriptor type the entity does not have - nothing else
   (a key descriptor without X509Data is skipped) *)
Lemma store_certs_err st eid d use x :
  store_certs st eid d use = Err x ->
  x = KeyError /\
  (store_get st eid = None \/
   exists e, store_get st eid = Some e /\ d <> s2l "any" /\ roles_of e (descr_key d) = []).
Proof.
  unfold store_certs. destruct (store_get st eid) as [e|]; [|intros H; injection H as <-; auto].
  destruct (str_eqb_spec d (s2l "any")) as [->|Hn]; [discriminate|].
  destruct (roles_of e (descr_key d)) as [|r0 rs] eqn:Er; [|discriminate].
  intros H; injection H as <-. split; [reflexivity|]. right. exists e. auto.
Qed.

(* ... and it answers in every other case *)
Lemma store_certs_answers st eid d use e :
  store_get st eid = Some e -> (d = s2l "any" \/ roles_of e (descr_key d) <> []) ->
  exists l, store_certs st eid d use = Ok l.
Proof.
  intros He H. unfold store_certs. rewrite He. destruct (str_eqb_spec d (s2l "any")) as [->|Hn]; [eexists; reflexivity|].
  destruct H as [H|H]; [contradiction|]. destruct (roles_of e (descr_key d)) as [|r0 rs]; [contradiction|]. eexists; reflexivity.
Qed.

(* the code before proposed_fix/C03-1: whenever it answered it gave today's answer; it raised KeyError in one more case *)
Lemma certs_any_before_fix_char use e : forall ds,
  match certs_any_before_fix use e ds with
  | Ok l => l = certs_any use e ds
  | Err x => x = KeyError /\ exists d r k, In d ds /\ In r (roles_of e (descr_key d)) /\ In k (r_keys r) /\
                                          use_ok use k = true /\ kd_certs k = []
  end.
Proof.
  induction ds as [|d ds IH]; cbn [certs_any_before_fix certs_any]; [reflexivity|].
  destruct (roles_of e (descr_key d)) as [|r0 rs] eqn:Er.
  - destruct (certs_any_before_fix use e ds) as [l|x]; [exact IH|].
    destruct IH as (-> & d' & r & k & Hd & Hr). split; [reflexivity|]. exists d', r, k. split; [now right|exact Hr].
  - rewrite <- Er. pose proof (extract_certs_before_fix_char use (roles_of e (descr_key d))) as C.
    destruct (extract_certs_before_fix use (roles_of e (descr_key d))) as [l1|y].
    + subst l1. destruct (certs_any_before_fix use e ds) as [l2|y]; [now subst|].
      destruct IH as (-> & d' & r & k & Hd & Hr). split; [reflexivity|]. exists d', r, k. split; [now right|exact Hr].
    + destruct C as (-> & r & k & Hr & Hk & Hu & Hc). split; [reflexivity|]. exists d, r, k. repeat split; auto. now left.
Qed.

Lemma store_certs_before_fix_char st eid d use :
  match store_certs_before_fix st eid d use with
  | Ok l => store_certs st eid d use = Ok l
  | Err x => x = KeyError /\
      (store_certs st eid d use = Err KeyError \/
       exists e r k, store_get st eid = Some e /\ In r (e_roles e) /\ In k (r_keys r) /\ use_ok use k = true /\ kd_certs k = [])
  end.
Proof.
  unfold store_certs_before_fix, store_certs. destruct (store_get st eid) as [e|]; [|split; [reflexivity|now left]].
  destruct (str_eqb d (s2l "any")).
  - pose proof (certs_any_before_fix_char use e ANY_ROLES) as C. destruct (certs_any_before_fix use e ANY_ROLES) as [l|x]; [now subst|].
    destruct C as (-> & d' & r & k & _ & Hr & Hk & Hu & Hc). split; [reflexivity|]. right.
    apply roles_of_In in Hr as [Hr _]. exists e, r, k. repeat split; auto.
  - destruct (roles_of e (descr_key d)) as [|r0 rs] eqn:Er; [split; [reflexivity|now left]|]. rewrite <- Er.
    pose proof (extract_certs_before_fix_char use (roles_of e (descr_key d))) as C.
    destruct (extract_certs_before_fix use (roles_of e (descr_key d))) as [l|x]; [now subst|].
    destruct C as (-> & r & k & Hr & Hk & Hu & Hc). split; [reflexivity|]. right.
    apply roles_of_In in Hr as [Hr _]. exists e, r, k. repeat split; auto.
Qed.

(* ------------------------------------------------------------------ *)
(* 6. entity attributes, categories, attribute requirements           *)
(* ------------------------------------------------------------------ *)
Definition hits (n : str) (attrs : list eattr) : bool := existsb (fun a => str_eqb n (ea_name a)) attrs.
Definition vals_of (n : str) (attrs : list eattr) : list str :=
  flat_map ea_values (filter (fun a => str_eqb n (ea_name a)) attrs).
Definition odefault (o : option (list str)) : list str := match o with Some l => l | None => [] end.

Lemma ea_add_get res name vals n :
  aget n (ea_add res name vals) =
  if str_eqb n name then Some (odefault (aget n res) ++ vals) else aget n res.
Proof.
  induction res as [|[k v] res IH]; cbn [ea_add aget odefault].
  - destruct (str_eqb n name); reflexivity.
  - destruct (str_eqb_spec k name) as [->|Hk]; cbn [aget].
    + destruct (str_eqb n name); reflexivity.
    + destruct (str_eqb_spec n k) as [->|Hnk].
      * destruct (str_eqb_spec k name) as [->|_]; [contradiction|reflexivity].
      * exact IH.
Qed.

Lemma ea_attrs_get attrs : forall res res',
  ea_attrs res attrs = Ok res' ->
  forall n, aget n res' = if hits n attrs then Some (odefault (aget n res) ++ vals_of n attrs) else aget n res.
Proof.
  induction attrs as [|a attrs IH]; intros res res' H n; cbn [ea_attrs] in H.
  - injection H as <-. reflexivity.
  - destruct (is_nil (ea_values a)); [discriminate|].
    rewrite (IH _ _ H n), ea_add_get. unfold hits, vals_of. cbn [existsb filter].
    destruct (str_eqb n (ea_name a)); cbn [orb flat_map odefault]; [|reflexivity].
    destruct (existsb (fun a0 => str_eqb n (ea_name a0)) attrs) eqn:Ex.
    + now rewrite <- app_assoc.
    + rewrite (filter_none _ _ Ex). cbn [flat_map]. now rewrite app_nil_r.
Qed.

Lemma hits_app n a b : hits n (a ++ b) = hits n a || hits n b.
Proof. unfold hits. apply existsb_app. Qed.
Lemma vals_of_app n a b : vals_of n (a ++ b) = vals_of n a ++ vals_of n b.
Proof. unfold vals_of. now rewrite filter_app, flat_map_app. Qed.

Lemma ea_elems_get elems : forall res res',
  ea_elems res elems = Ok res' ->
  forall n, aget n res' = if hits n (List.concat elems)
                          then Some (odefault (aget n res) ++ vals_of n (List.concat elems)) else aget n res.
Proof.
  induction elems as [|attrs elems IH]; intros res res' H n; cbn [ea_elems] in H.
  - injection H as <-. reflexivity.
  - destruct (is_nil attrs); [discriminate|].
    destruct (ea_attrs res attrs) as [r1|x] eqn:E1; [|discriminate].
    cbn [List.concat]. rewrite (IH _ _ H n), (ea_attrs_get _ _ _ E1 n), hits_app, vals_of_app.
    destruct (hits n attrs) eqn:H1, (hits n (List.concat elems)) eqn:H2; cbn [orb odefault]; try reflexivity.
    + now rewrite app_assoc.
    + unfold hits in H2. unfold vals_of at 3. rewrite (filter_none _ _ H2). cbn [flat_map]. now rewrite app_nil_r.
    + unfold hits in H1. unfold vals_of at 2. rewrite (filter_none _ _ H1). reflexivity.
Qed.

(* SPECIFICATION: the values of name n are the values of every Attribute of
   that name in the entity's EntityAttributes, in document order *)
Lemma entity_attributes_exact st eid res :
  store_entity_attributes st eid = Ok res ->
  forall n, aget n res =
    match store_get st eid with
    | None => None
    | Some e => if hits n (List.concat (e_eattrs e)) then Some (vals_of n (List.concat (e_eattrs e))) else None
    end.
Proof.
  unfold store_entity_attributes. destruct (store_get st eid) as [e|].
  - intros H n. now rewrite (ea_elems_get _ _ _ H n).
  - intros H n. injection H as <-. reflexivity.
Qed.

Lemma sps_selected_exact index sps : forall l,
  sps_selected index sps = Some l ->
  l = flat_map ac_req (filter (index_selected index) (flat_map r_acs sps)).
Proof.
  induction sps as [|sp sps IH]; intros l H; cbn [sps_selected] in H.
  - injection H as <-. reflexivity.
  - destruct (sp_selected index sp) as [a|] eqn:Ea; [|discriminate].
    destruct (sps_selected index sps) as [b|]; [|discriminate]. injection H as <-.
    cbn [flat_map]. rewrite filter_app, flat_map_app, <- (IH _ eq_refl). f_equal.
    unfold sp_selected in Ea. destruct (is_nil (r_acs sp)); [discriminate|].
    destruct (existsb _ _); [discriminate|]. now injection Ea as <-.
Qed.

Lemma attribute_requirement_exact st eid index req opt :
  store_attribute_requirement st eid index = Some (req, opt) ->
  exists e, store_get st eid = Some e /\
    let all := flat_map ac_req (filter (index_selected index)
                                       (flat_map r_acs (roles_of e (s2l "spsso_descriptor")))) in
    req = filter is_required all /\ opt = filter (fun a => negb (is_required a)) all.
Proof.
  unfold store_attribute_requirement. destruct (store_get st eid) as [e|]; [|discriminate].
  unfold md_attribute_requirement. destruct (roles_of e (s2l "spsso_descriptor")) as [|r0 rs] eqn:Er; [discriminate|].
  rewrite <- Er. destruct (sps_selected index _) as [l|] eqn:El; [|discriminate].
  intros H; injection H as <- <-. exists e. split; [reflexivity|].
  apply sps_selected_exact in El. cbv zeta. now rewrite <- El.
Qed.

(* ------------------------------------------------------------------ *)
(* 7. configuration round trip                                        *)
(* ------------------------------------------------------------------ *)
Lemma do_endpoints_type svc indexed eps : forall i s,
  In s (do_endpoints svc indexed i eps) -> sv_type s = svc.
Proof.
  induction eps as [|ep eps IH]; intros i s; cbn [do_endpoints]; [intros []|].
  destruct indexed; [destruct (ce_index ep)|]; intros [<-|H]; try reflexivity; eauto.
Qed.

(* every configured endpoint, in order, with its binding and location; an index
   given in the configuration is kept *)
Lemma do_endpoints_exact svc indexed eps : forall i,
  map (fun s => (sv_location s, sv_binding s)) (do_endpoints svc indexed i eps) =
  map (fun ep => (ce_location ep, ce_binding ep)) eps /\
  Forall2 (fun s ep => match ce_index ep with
                       | Some ix => sv_index s = Some ix
                       | None => if indexed then exists n, sv_index s = Some (N_to_str n) else sv_index s = None
                       end) (do_endpoints svc indexed i eps) eps.
Proof.
  induction eps as [|ep eps IH]; intros i; cbn [do_endpoints map]; [split; [reflexivity|constructor]|].
  destruct indexed.
  - destruct (ce_index ep) as [ix|] eqn:Ei; cbn [map sv_location sv_binding].
    + destruct (IH i) as [H1 H2]. split; [now rewrite H1|]. constructor; [now rewrite Ei|exact H2].
    + destruct (IH (i + 1)) as [H1 H2]. split; [now rewrite H1|]. constructor; [rewrite Ei; now exists i|exact H2].
  - cbn [map sv_location sv_binding]. destruct (IH i) as [H1 H2]. split; [now rewrite H1|].
    constructor; [|exact H2]. cbn [sv_index]. now destruct (ce_index ep).
Qed.

Lemma role_of_cfg_saml2 kds cr : role_saml2 (role_of_cfg kds cr) = true.
Proof. unfold role_saml2, role_of_cfg. cbn [r_protocols]. vm_compute. reflexivity. Qed.

Lemma filter_roles_cfg kds crs : filter_roles (map (role_of_cfg kds) crs) = map (role_of_cfg kds) crs.
Proof.
  apply filter_all. intros r Hr. unfold type_kept. apply existsb_exists. exists r. split; [exact Hr|].
  rewrite str_eqb_refl. apply in_map_iff in Hr as (cr & <- & _). apply role_of_cfg_saml2.
Qed.

Lemma cfg_no_lacking kds crs : existsb lacks_protocols (map (role_of_cfg kds) crs) = false.
Proof. induction crs as [|cr l IH]; cbn [map existsb]; [reflexivity|]. now rewrite IH. Qed.

(* the store obtained by loading the generated descriptor *)
Lemma roundtrip_store now cfg e :
  entity_of_cfg cfg = Ok e -> c_roles cfg <> [] ->
  load_all now [] [inline_source e] = [(s2l "1", [(c_entityid cfg, e)])].
Proof.
  unfold entity_of_cfg. destruct (do_key_descriptor _ _ _) as [kds|x]; [|discriminate].
  intros H Hne; injection H as <-.
  set (e := {| e_id := c_entityid cfg; e_valid_until := None; e_roles := map (role_of_cfg kds) (c_roles cfg);
               e_affil := false; e_eattrs := [] |}).
  assert (load_source now (inline_source e) = Ok [(c_entityid cfg, e)]) as Hl.
  { unfold load_source, inline_source. cbn [s_kind s_doc d_body parse]. unfold do_entity.
    cbn [e e_valid_until valid negb andb aget e_id e_roles].
    rewrite cfg_no_lacking.
    assert (stored_form e = e) as Hsf.
    { unfold stored_form. subst e. cbn [e_id e_valid_until e_roles e_affil e_eattrs]. now rewrite filter_roles_cfg. }
    assert (storable e = true) as ->.
    { unfold storable. subst e. cbn [e_roles e_affil]. rewrite filter_roles_cfg.
      destruct (c_roles cfg) as [|cr l]; [contradiction|]. reflexivity. }
    rewrite Hsf. reflexivity. }
  unfold load_all, store_load. rewrite Hl. reflexivity.
Qed.

(* ------------------------------------------------------------------ *)
(* 8. composite statements used by Props/C16.v                        *)
(* ------------------------------------------------------------------ *)
Lemma store_service_ok_iff st eid typ svc b l :
  store_service st eid typ svc b = Ok l <->
  l <> [] /\ exists pre k m post, st = pre ++ (k, m) :: post /\
     md_service m eid typ svc b = Some l /\ Forall (quiet eid typ svc b) pre.
Proof.
  unfold store_service. split.
  - intros H. pose proof (service_loop_char st eid typ svc b false) as C. rewrite H in C.
    destruct C as (pre & k & m & post & Hst & Hm & Hne & Hq). split; [exact Hne|]. now exists pre, k, m, post.
  - intros [Hne (pre & k & m & post & -> & Hm & Hq)]. destruct l as [|x l]; [contradiction|].
    now apply service_loop_first.
Qed.

Lemma store_service_unknown_iff st eid typ svc b :
  store_service st eid typ svc b = Err UnknownSystemEntity <->
  forall km, In km st -> has_role (snd km) eid typ = false.
Proof.
  unfold store_service. pose proof (service_loop_char st eid typ svc b false) as C. split.
  - intros H. rewrite H in C. destruct C as [_ [[Hx _]|[_ [_ Hall]]]].
    + now apply Unknown_ne_Unsupported in Hx.
    + intros km Hin. apply (md_service_none _ _ _ svc b). auto.
  - intros Hall. assert (forall km, In km st -> md_service (snd km) eid typ svc b = None) as Hn
        by (intros km Hin; apply md_service_none; auto).
    destruct (service_loop st eid typ svc b false) as [l|x].
    + destruct C as (pre & k & m & post & -> & Hm & _).
      assert (md_service m eid typ svc b = None) as Hx
          by (apply (Hn (k, m)); apply in_or_app; right; now left).
      congruence.
    + destruct C as [_ [[_ [Hk|(km & Hin & Hkm)]]|[-> _]]]; [discriminate| |reflexivity].
      rewrite (Hn km Hin) in Hkm. discriminate.
Qed.

Lemma store_service_unsupported_iff st eid typ svc b :
  store_service st eid typ svc b = Err UnsupportedBinding <->
  (forall km, In km st -> quiet eid typ svc b km) /\ exists km, In km st /\ has_role (snd km) eid typ = true.
Proof.
  unfold store_service. pose proof (service_loop_char st eid typ svc b false) as C. split.
  - intros H. rewrite H in C. destruct C as [Hq [[_ [Hk|(km & Hin & Hkm)]]|[Hx _]]].
    + discriminate.
    + split; [now apply Forall_forall|]. exists km. split; [exact Hin|].
      destruct (has_role (snd km) eid typ) eqn:Eh; [reflexivity|].
      apply (md_service_none _ _ _ svc b) in Eh. congruence.
    + symmetry in Hx. now apply Unknown_ne_Unsupported in Hx.
  - intros [Hq (km & Hin & Hr)]. destruct (service_loop st eid typ svc b false) as [l|x].
    + destruct C as (pre & k & m & post & -> & Hm & Hne & _).
      destruct (Hq (k, m)) as [H|H]; [apply in_or_app; right; now left| |]; cbn [snd] in H; rewrite H in Hm.
      * discriminate.
      * injection Hm as <-. contradiction.
    + destruct C as [_ [[-> _]|[_ [_ Hall]]]]; [reflexivity|].
      apply (md_service_none _ _ _ svc b) in Hall; [|exact Hin]. congruence.
Qed.

Lemma store_service_classes st eid typ svc b :
  (exists l, store_service st eid typ svc b = Ok l /\ l <> []) \/
  store_service st eid typ svc b = Err UnsupportedBinding \/
  store_service st eid typ svc b = Err UnknownSystemEntity.
Proof.
  unfold store_service. pose proof (service_loop_char st eid typ svc b false) as C.
  destruct (service_loop st eid typ svc b false) as [l|x].
  - left. exists l. destruct C as (_ & _ & _ & _ & _ & _ & Hne & _). auto.
  - right. destruct C as [_ [[-> _]|[-> _]]]; auto.
Qed.

Lemma stored_roles_sub e0 r : In r (e_roles (stored_form e0)) -> In r (e_roles e0).
Proof. unfold stored_form, filter_roles. cbn [e_roles]. intros H. now apply filter_In in H as [H _]. Qed.

(* every registered source is a successful, admissible load of a configured source *)
Lemma registered_source now srcs k m :
  In (k, m) (load_all now [] srcs) ->
  exists s, In s srcs /\ s_key s = k /\ load_source now s = Ok m /\ admissible s /\
            forall eid, aget eid m = doc_entity now (eff_check s) (d_body (s_doc s)) eid.
Proof.
  intros H. apply load_all_In in H as [[]|(s & Hin & Hk & Hl)]. exists s.
  destruct (load_source_ok _ _ _ Hl) as [_ Hadm].
  split; [exact Hin|]. split; [exact Hk|]. split; [exact Hl|]. split; [exact Hadm|].
  exact (load_source_get _ _ _ Hl).
Qed.

(* an entity held by a registered source is a declared, unexpired occurrence *)
Lemma served_entity_declared now srcs k m eid e :
  In (k, m) (load_all now [] srcs) -> aget eid m = Some e ->
  exists s e0, In s srcs /\ s_key s = k /\ admissible s /\ e = stored_form e0 /\ e_id e0 = eid /\
    (eff_check s = true -> valid now (e_valid_until e0) = true) /\
    match d_body (s_doc s) with
    | Many vu iv es => iv = IvOk /\ In e0 es /\ (eff_check s = true -> valid now vu = true)
    | Single e1 => e0 = e1
    | NotMetadata => False
    end.
Proof.
  intros Hin Hget. apply registered_source in Hin as (s & Hs & Hk & _ & Hadm & Hspec).
  rewrite Hspec in Hget. apply doc_entity_sound in Hget as (e0 & -> & Hid & _ & Hv & Hb).
  exists s, e0. split; [exact Hs|]. split; [exact Hk|]. split; [exact Hadm|]. split; [reflexivity|].
  split; [exact Hid|]. split; [exact Hv|]. exact Hb.
Qed.

Lemma store_get_In st eid e : store_get st eid = Some e -> exists k m, In (k, m) st /\ aget eid m = Some e.
Proof.
  intros H. pose proof (store_get_char st eid) as C. rewrite H in C.
  destruct C as (pre & k & m & post & -> & Hm & _). exists k, m. split; [|exact Hm].
  apply in_or_app. right. now left.
Qed.

(* service answers, traced back to the documents *)
Lemma service_from_documents now srcs eid typ svc b l sv :
  store_service (load_all now [] srcs) eid typ svc b = Ok l -> In sv l ->
  exists s e0 r, In s srcs /\ admissible s /\
    doc_entity now (eff_check s) (d_body (s_doc s)) eid = Some (stored_form e0) /\
    e_id e0 = eid /\ (eff_check s = true -> valid now (e_valid_until e0) = true) /\
    In r (e_roles e0) /\ r_type r = typ /\ In sv (r_services r) /\ sv_type sv = svc /\ sv_binding sv = b.
Proof.
  intros H Hsv. apply store_service_ok_iff in H as [_ (pre & k & m & post & Hst & Hm & _)].
  apply (md_service_In _ _ _ _ _ _ Hm) in Hsv as (e & r & He & Hr & Ht & Hs & Hv & Hb).
  assert (In (k, m) (load_all now [] srcs)) as Hin by (rewrite Hst; apply in_or_app; right; now left).
  destruct (registered_source _ _ _ _ Hin) as (s & Hs1 & _ & _ & Hadm & Hspec).
  pose proof He as He'. rewrite Hspec in He'.
  destruct (doc_entity_sound _ _ _ _ _ He') as (e0 & -> & Hid & _ & Hval & _).
  exists s, e0, r. split; [exact Hs1|]. split; [exact Hadm|]. split; [exact He'|]. split; [exact Hid|].
  split; [exact Hval|]. split; [now apply stored_roles_sub|]. repeat split; assumption.
Qed.

(* an expired EntitiesDescriptor never contributes *)
Lemma expired_document now s m vu iv es :
  load_source now s = Ok m -> eff_check s = true -> d_body (s_doc s) = Many vu iv es ->
  valid now vu = false -> m = [].
Proof.
  intros Hl Hc Hb Hv. apply load_source_ok in Hl as [Hp _]. rewrite Hc, Hb in Hp. cbn [parse] in Hp.
  destruct iv; [|now injection Hp|discriminate]. rewrite Hv in Hp. cbn in Hp. discriminate.
Qed.

Lemma valid_spec now t : valid now (Some t) = true <-> (now <= t)%Z.
Proof. cbn [valid]. apply Z.leb_le. Qed.

(* the configuration round trip for endpoints *)
Lemma roundtrip_service now cfg e typ svc b l :
  entity_of_cfg cfg = Ok e -> c_roles cfg <> [] ->
  store_service (load_all now [] [inline_source e]) (c_entityid cfg) typ svc b = Ok l ->
  forall s, In s l <->
    exists cr x, In cr (c_roles cfg) /\ cr_type cr = typ /\ In x (cr_endpoints cr) /\ fst (fst x) = svc /\
                 In s (do_endpoints svc (snd (fst x)) 1 (snd x)) /\ sv_binding s = b.
Proof.
  intros He Hne H. rewrite (roundtrip_store now cfg e He Hne) in H.
  apply store_service_ok_iff in H as [_ (pre & k & m & post & Hst & Hm & _)].
  assert (m = [(c_entityid cfg, e)]) as ->.
  { destruct pre as [|p pre]; cbn [app] in Hst.
    - now injection Hst as _ <-.
    - injection Hst as _ Hst. destruct pre; discriminate. }
  intros s. rewrite (md_service_In _ _ _ _ _ _ Hm s). unfold declares. cbn [aget]. rewrite str_eqb_refl.
  unfold entity_of_cfg in He. destruct (do_key_descriptor _ _ _) as [kds|x]; [|discriminate]. injection He as <-.
  cbn [e_roles]. split.
  - intros (e' & r & He' & Hr & Ht & Hs & Hv & Hb). injection He' as <-. cbn [e_roles] in Hr.
    apply in_map_iff in Hr as (cr & <- & Hcr).
    cbn [role_of_cfg r_type r_services] in *. apply in_flat_map in Hs as (x & Hx & Hs).
    pose proof (do_endpoints_type _ _ _ _ _ Hs) as Hty. rewrite Hv in Hty. subst svc.
    exists cr, x. repeat split; auto. now rewrite Hty.
  - intros (cr & x & Hcr & Ht & Hx & Hsvc & Hs & Hb). eexists. exists (role_of_cfg kds cr).
    split; [reflexivity|]. cbn [role_of_cfg r_type r_services]. repeat split; auto.
    + apply in_map_iff. now exists cr.
    + apply in_flat_map. exists x. split; [exact Hx|]. now rewrite Hsvc.
    + exact (do_endpoints_type _ _ _ _ _ Hs).
Qed.
