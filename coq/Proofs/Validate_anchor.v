(* Proofs/Validate_anchor.v - C13 strengthening:
   (b) NO GENERAL ESCAPE HATCH: extension attributes (xsi:nil ...) of an element whose class is not of the
       AttributeValue family never influence valid_instance / verify, at any depth;
   (a) the Gallina lexical validators test the WHOLE value (anchored at both ends). *)
From PV Require Import Lib.Base Model.Schema Model.Validate Proofs.Schema_lemmas.
Open Scope N_scope.

Section NoEscape.
  Variable prim : str -> str -> bool.
  Variable keys : list str.
  Variable S : schema.
  Variables (NIL : N).
  Variables (M_SUBJECT M_ATTRST M_STATEMENT M_AUTHNST M_AUTHZST M_ONETIME M_PROXY M_DECL M_DECLREF M_ADDRESS M_DNS : N).
  Notation override_pre := (override_pre prim NIL M_SUBJECT M_ATTRST M_STATEMENT M_AUTHNST M_AUTHZST M_ONETIME M_PROXY M_DECL M_DECLREF M_ADDRESS M_DNS).
  Notation verify_node := (verify_node prim keys S NIL M_SUBJECT M_ATTRST M_STATEMENT M_AUTHNST M_AUTHZST M_ONETIME M_PROXY M_DECL M_DECLREF M_ADDRESS M_DNS).
  Notation verify := (verify prim keys S NIL M_SUBJECT M_ATTRST M_STATEMENT M_AUTHNST M_AUTHZST M_ONETIME M_PROXY M_DECL M_DECLREF M_ADDRESS M_DNS).
  Notation valid_instance := (valid_instance prim keys S NIL M_SUBJECT M_ATTRST M_STATEMENT M_AUTHNST M_AUTHZST M_ONETIME M_PROXY M_DECL M_DECLREF M_ADDRESS M_DNS).

  (* the class runs AttributeValueBase.verify() *)
  Definition av_class (c : N) : bool :=
    match find_row S c with Some r => str_eqb (k_verify r) V_AVB | None => false end.

  (* any rewriting g of the extension attributes of every element outside the AttributeValue family:
     adding xsi:nil = true / 1, removing it, replacing the whole dictionary ... *)
  Variable g : N -> list (N * str) -> list (N * str).
  Fixpoint rewrite_xattrs (i : inst) : inst :=
    match i with
    | INone => INone
    | I c a t K xa xe =>
        I c a t (map (fun p => (fst p, rewrite_xattrs (snd p))) K) (if av_class c then xa else g c xa) xe
    end.

  Lemma override_pre_xattrs r a t vk xa xa' :
    str_eqb (k_verify r) V_AVB = false -> override_pre r a t vk xa = override_pre r a t vk xa'.
  Proof.
    intros H. unfold Validate.override_pre. rewrite H. destruct (str_eqb (k_verify r) []); reflexivity.
  Qed.

  Lemma verify_node_xattrs r a t vk xa xa' :
    str_eqb (k_verify r) V_AVB = false -> verify_node r a t vk xa = verify_node r a t vk xa'.
  Proof. intros H. unfold Validate.verify_node. rewrite (override_pre_xattrs r a t vk xa xa' H). reflexivity. Qed.

  Lemma kids_rewrite (K : list (N * inst)) :
    Forall (fun p => verify (rewrite_xattrs (snd p)) = verify (snd p)) K ->
    map (fun p => let '(m, k) := p in (m, verify k)) (map (fun p => (fst p, rewrite_xattrs (snd p))) K) =
    map (fun p => let '(m, k) := p in (m, verify k)) K.
  Proof.
    induction 1 as [|[m k] K Hk _ IH]; [reflexivity|].
    cbn [map fst snd] in *. rewrite Hk, IH. reflexivity.
  Qed.

  Theorem verify_rewrite_xattrs : forall i, verify (rewrite_xattrs i) = verify i.
  Proof.
    apply inst_ind'; [reflexivity|].
    intros c a t K xa xe IH. cbn [rewrite_xattrs Validate.verify].
    rewrite (kids_rewrite K IH). unfold av_class.
    destruct (find_row S c) as [r|] eqn:Hrow; [|reflexivity].
    destruct (str_eqb (k_verify r) V_AVB) eqn:Hav; [reflexivity|].
    apply verify_node_xattrs; exact Hav.
  Qed.

  (* valid_instance does not look at the extension attributes of the root at all - whatever its class *)
  Theorem valid_instance_rewrite_xattrs : forall i, valid_instance (rewrite_xattrs i) = valid_instance i.
  Proof.
    intros [|c a t K xa xe]; [reflexivity|].
    cbn [rewrite_xattrs Validate.valid_instance].
    rewrite (kids_rewrite K).
    - reflexivity.
    - apply Forall_forall. intros p _. apply verify_rewrite_xattrs.
  Qed.

  Theorem valid_instance_root_xattrs c a t K xa xa' xe :
    valid_instance (I c a t K xa xe) = valid_instance (I c a t K xa' xe).
  Proof. reflexivity. Qed.
End NoEscape.

(* ------------------------------------------------------------ (a) whole-value lexical tests *)
Definition BOOL_WORDS : list str := [s2l "true"; s2l "false"; s2l "0"; s2l "1"].

Lemma boolean_whole v : prim_boolean v = true -> In (lower_ascii v) BOOL_WORDS.
Proof.
  unfold prim_boolean, mem_str. intros H. apply existsb_exists in H as [w [Hin He]].
  apply str_eqb_eq in He. rewrite He. exact Hin.
Qed.

Lemma lower_ascii_app a b : lower_ascii (a ++ b) = lower_ascii a ++ lower_ascii b.
Proof. unfold lower_ascii. apply map_app. Qed.

Lemma lower_ascii_nil a : lower_ascii a = [] -> a = [].
Proof. destruct a; [reflexivity|discriminate]. Qed.

(* junk after or before an accepted boolean: refused *)
Theorem boolean_anchored v j : prim_boolean v = true -> j <> [] ->
  prim_boolean (v ++ j) = false /\ prim_boolean (j ++ v) = false.
Proof.
  intros Hv Hj. apply boolean_whole in Hv.
  assert (Hl : lower_ascii j <> []) by (intros E; apply Hj, lower_ascii_nil, E).
  split.
  - destruct (prim_boolean (v ++ j)) eqn:E; [|reflexivity]. exfalso.
    apply boolean_whole in E. rewrite lower_ascii_app in E.
    destruct (lower_ascii j) as [|x l]; [apply Hl; reflexivity|].
    cbv [BOOL_WORDS] in Hv, E. cbn [In] in Hv, E.
    destruct Hv as [Hv|[Hv|[Hv|[Hv|[]]]]]; rewrite <- Hv in E; vm_compute in E;
      destruct E as [E|[E|[E|[E|[]]]]]; try discriminate E;
      destruct l as [|? l]; try discriminate E; destruct l as [|? l]; try discriminate E;
      destruct l as [|? l]; try discriminate E; destruct l as [|? l]; discriminate E.
  - destruct (prim_boolean (j ++ v)) eqn:E; [|reflexivity]. exfalso.
    apply boolean_whole in E. rewrite lower_ascii_app in E.
    cbv [BOOL_WORDS] in Hv, E. cbn [In] in Hv, E.
    assert (R : forall w, lower_ascii j ++ lower_ascii v = w -> rev (lower_ascii v) ++ rev (lower_ascii j) = rev w)
      by (intros w <-; symmetry; apply rev_app_distr).
    destruct (rev (lower_ascii j)) as [|x l] eqn:Ej.
    { apply Hl. rewrite <- (rev_involutive (lower_ascii j)), Ej. reflexivity. }
    destruct Hv as [Hv|[Hv|[Hv|[Hv|[]]]]]; rewrite <- Hv in R; rewrite <- Hv in E;
      destruct E as [E|[E|[E|[E|[]]]]]; apply eq_sym, R in E; vm_compute in E; try discriminate E;
      destruct l as [|? l]; try discriminate E; destruct l as [|? l]; try discriminate E;
      destruct l as [|? l]; try discriminate E; destruct l as [|? l]; discriminate E.
Qed.

(* integers: once blanks around and one sign are taken away, nothing but digits and single underscores *)
Definition int_body_char (c : N) : bool := is_digit c || (c =? 95).

Lemma digits_us_chars s : forall acc pd z, digits_us s acc pd = Some z -> forallb int_body_char s = true.
Proof.
  induction s as [|c s IH]; intros acc pd z H; [reflexivity|].
  cbn [digits_us] in H. cbn [forallb]. unfold int_body_char at 1.
  destruct (is_digit c) eqn:Ed; cbn [orb].
  - cbn [andb]. exact (IH _ _ _ H).
  - destruct ((c =? 95) && pd) eqn:Eu; [|discriminate].
    apply andb_true_iff in Eu as [Eu _]. rewrite Eu. cbn [andb]. exact (IH _ _ _ H).
Qed.

Lemma digits_us_nonempty acc z : digits_us [] acc false = Some z -> False.
Proof. discriminate. Qed.

(* no character other than a digit or an underscore may follow (or precede) inside the body: junk is refused *)
Theorem digits_us_junk a c b acc pd : int_body_char c = false -> digits_us (a ++ c :: b) acc pd = None.
Proof.
  intros Hc. destruct (digits_us (a ++ c :: b) acc pd) as [z|] eqn:E; [|reflexivity].
  apply digits_us_chars in E. rewrite forallb_app in E. apply andb_true_iff in E as [_ E].
  cbn [forallb] in E. rewrite Hc in E. discriminate.
Qed.
(* the three shapes parse_int tells apart *)
Lemma parse_int_shape v z : parse_int v = Some z ->
  exists sg body, strip v = sg ++ body /\ (sg = [] \/ sg = [45] \/ sg = [43]) /\ forallb int_body_char body = true /\ body <> [].
Proof.
  unfold parse_int. destruct (strip v) as [|c d] eqn:Es.
  - discriminate.
  - intros H. destruct (N.eqb_spec c 45) as [->|N45]; [|destruct (N.eqb_spec c 43) as [->|N43]].
    + destruct (digits_us d 0%Z false) as [z'|] eqn:E; [|discriminate].
      exists [45], d. repeat split; [right; left; reflexivity|exact (digits_us_chars _ _ _ _ E)|].
      intros ->; discriminate.
    + exists [43], d. repeat split; [right; right; reflexivity|exact (digits_us_chars _ _ _ _ H)|].
      intros ->; discriminate.
    + assert (H' : digits_us (c :: d) 0%Z false = Some z).
      { destruct c as [|p]; [exact H|].
        do 6 (try destruct p as [p|p|]); try exact H; try (exfalso; apply N45; reflexivity); try (exfalso; apply N43; reflexivity). }
      exists [], (c :: d). repeat split; [left; reflexivity|exact (digits_us_chars _ _ _ _ H')|discriminate].
Qed.

Theorem prim_int_whole r v : prim_int r v = true ->
  exists sg body, strip v = sg ++ body /\ (sg = [] \/ sg = [45] \/ sg = [43]) /\ forallb int_body_char body = true /\ body <> [].
Proof.
  unfold prim_int. destruct (parse_int v) as [z|] eqn:E; [|discriminate]. intros _. exact (parse_int_shape v z E).
Qed.

(* name tokens: no white space (a line break included) anywhere in the value, first and last character included *)
Theorem nmtoken_whole v : prim_nmtoken v = true -> v <> [] /\ forallb (fun c => negb (xml_ws c)) v = true.
Proof.
  unfold prim_nmtoken. intros H. apply andb_true_iff in H as [H Hws]. apply andb_true_iff in H as [_ Hne].
  split; [intros ->; discriminate|exact Hws].
Qed.
