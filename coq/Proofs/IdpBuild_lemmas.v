(* Proofs/IdpBuild_lemmas.v — C08, text and tree level:
   what ElementTree writes for text / attribute values is read back exactly
   (modulo the XML end-of-line rule, stated exactly), contains no delimiter,
   and parse (serialise t) = t for every well-formed tree. *)
From PV Require Import Lib.Base Model.Codec Model.IdpBuild.
Open Scope N_scope.

(* ------------------------------------------------------------------ *)
(* escaping, character by character                                     *)
(* ------------------------------------------------------------------ *)
Lemma escape_cdata_cons c s : escape_cdata (c :: s) = esc_text_char c ++ escape_cdata s.
Proof. reflexivity. Qed.
Lemma escape_attrib_cons c s : escape_attrib (c :: s) = esc_attr_char c ++ escape_attrib s.
Proof. reflexivity. Qed.
Lemma escape_cdata_app a b : escape_cdata (a ++ b) = escape_cdata a ++ escape_cdata b.
Proof. unfold escape_cdata. now rewrite flat_map_app. Qed.
Lemma escape_attrib_app a b : escape_attrib (a ++ b) = escape_attrib a ++ escape_attrib b.
Proof. unfold escape_attrib. now rewrite flat_map_app. Qed.

Lemma etc_cases c :
  (c = 38 /\ esc_text_char c = [38; 97; 109; 112; 59]) \/
  (c = 60 /\ esc_text_char c = [38; 108; 116; 59]) \/
  (c = 62 /\ esc_text_char c = [38; 103; 116; 59]) \/
  (c <> 38 /\ c <> 60 /\ c <> 62 /\ esc_text_char c = [c]).
Proof.
  unfold esc_text_char.
  destruct (N.eqb_spec c 38) as [->|N38]; [left; split; reflexivity|].
  destruct (N.eqb_spec c 60) as [->|N60]; [right; left; split; reflexivity|].
  destruct (N.eqb_spec c 62) as [->|N62]; [right; right; left; split; reflexivity|].
  right; right; right. repeat split; assumption.
Qed.

Lemma eac_cases c :
  (c = 38 /\ esc_attr_char c = [38; 97; 109; 112; 59]) \/
  (c = 60 /\ esc_attr_char c = [38; 108; 116; 59]) \/
  (c = 62 /\ esc_attr_char c = [38; 103; 116; 59]) \/
  (c = 34 /\ esc_attr_char c = [38; 113; 117; 111; 116; 59]) \/
  (c = 13 /\ esc_attr_char c = [38; 35; 49; 51; 59]) \/
  (c = 10 /\ esc_attr_char c = [38; 35; 49; 48; 59]) \/
  (c = 9 /\ esc_attr_char c = [38; 35; 48; 57; 59]) \/
  (c <> 38 /\ c <> 60 /\ c <> 62 /\ c <> 34 /\ c <> 13 /\ c <> 10 /\ c <> 9 /\ esc_attr_char c = [c]).
Proof.
  unfold esc_attr_char.
  destruct (N.eqb_spec c 38) as [->|N38]; [left; split; reflexivity|].
  destruct (N.eqb_spec c 60) as [->|N60]; [right; left; split; reflexivity|].
  destruct (N.eqb_spec c 62) as [->|N62]; [right; right; left; split; reflexivity|].
  destruct (N.eqb_spec c 34) as [->|N34]; [right; right; right; left; split; reflexivity|].
  destruct (N.eqb_spec c 13) as [->|N13]; [right; right; right; right; left; split; reflexivity|].
  destruct (N.eqb_spec c 10) as [->|N10]; [right; right; right; right; right; left; split; reflexivity|].
  destruct (N.eqb_spec c 9) as [->|N9]; [right; right; right; right; right; right; left; split; reflexivity|].
  right; right; right; right; right; right; right. repeat split; assumption.
Qed.

Ltac neqb :=
  repeat match goal with
         | H : ?a <> ?b |- context [N.eqb ?a ?b] => rewrite (proj2 (N.eqb_neq a b) H)
         end.

(* ------------------------------------------------------------------ *)
(* reading back: attribute values (exact, CR LF TAB included)            *)
(* ------------------------------------------------------------------ *)
Lemma unesc_attr_char c r out :
  unesc true UNorm (esc_attr_char c ++ r) out = unesc true UNorm r (c :: out).
Proof.
  destruct (eac_cases c) as [[-> E]|[[-> E]|[[-> E]|[[-> E]|[[-> E]|[[-> E]|[[-> E]|(N38 & N60 & N62 & N34 & N13 & N10 & N9 & E)]]]]]]];
    rewrite E; try reflexivity.
  cbn [app unesc]. neqb. cbn [orb andb]. reflexivity.
Qed.

Lemma unesc_attr_gen s : forall r out,
  unesc true UNorm (escape_attrib s ++ r) out = unesc true UNorm r (rev s ++ out).
Proof.
  induction s as [|c s IH]; intros r out; [reflexivity|].
  rewrite escape_attrib_cons, <- app_assoc, unesc_attr_char, IH. cbn [rev]. now rewrite <- app_assoc.
Qed.

Theorem unescape_attr_escape s : unescape_attr (escape_attrib s) = Some s.
Proof.
  unfold unescape_attr. rewrite <- (app_nil_r (escape_attrib s)), unesc_attr_gen. cbn [unesc].
  now rewrite app_nil_r, rev_involutive.
Qed.

(* ------------------------------------------------------------------ *)
(* reading back: character data (CR LF / CR arrive as LF - exactly that)  *)
(* ------------------------------------------------------------------ *)
Lemma unesc_text_char c r out : c <> 13 ->
  unesc false UNorm (esc_text_char c ++ r) out = unesc false UNorm r (c :: out).
Proof.
  intros N13.
  destruct (etc_cases c) as [[-> E]|[[-> E]|[[-> E]|(N38 & N60 & N62 & E)]]]; rewrite E; try reflexivity.
  cbn [app unesc]. neqb. cbn [andb]. reflexivity.
Qed.

Lemma unesc_text_cr_state c r out : c <> 13 -> c <> 10 ->
  unesc false UCr (esc_text_char c ++ r) out = unesc false UNorm (esc_text_char c ++ r) out.
Proof.
  intros N13 N10.
  destruct (etc_cases c) as [[-> E]|[[-> E]|[[-> E]|(N38 & N60 & N62 & E)]]]; rewrite E; try reflexivity.
  cbn [app unesc]. neqb. cbn [andb]. reflexivity.
Qed.

Lemma esc_text_13 : esc_text_char 13 = [13]. Proof. reflexivity. Qed.
Lemma esc_text_10 : esc_text_char 10 = [10]. Proof. reflexivity. Qed.

Definition after_cr (s : str) : str := match s with 10 :: r => r | _ => s end.

Lemma norm_eol_cr r : norm_eol (13 :: r) = 10 :: norm_eol (after_cr r).
Proof. reflexivity. Qed.
Lemma norm_eol_other c r : c <> 13 -> norm_eol (c :: r) = c :: norm_eol r.
Proof.
  intros H. destruct c as [|p]; [reflexivity|].
  cbn [norm_eol]. repeat (destruct p as [p|p|]; try reflexivity). congruence.
Qed.

Lemma unesc_text_gen : forall s out,
  unesc false UNorm (escape_cdata s) out = Some (rev out ++ norm_eol s) /\
  unesc false UCr (escape_cdata s) out = Some (rev out ++ norm_eol (after_cr s)).
Proof.
  induction s as [|c s IH]; intros out.
  - cbn. now rewrite app_nil_r.
  - rewrite escape_cdata_cons.
    destruct (N.eq_dec c 13) as [->|N13].
    + rewrite esc_text_13. cbn [app unesc N.eqb Pos.eqb eol after_cr]. rewrite norm_eol_cr.
      destruct (IH (10 :: out)) as [_ Q]. rewrite Q. cbn [rev]. rewrite <- app_assoc. split; reflexivity.
    + split.
      * rewrite unesc_text_char by exact N13. destruct (IH (c :: out)) as [P _]. rewrite P.
        rewrite norm_eol_other by exact N13. cbn [rev]. now rewrite <- app_assoc.
      * destruct (N.eq_dec c 10) as [->|N10].
        { rewrite esc_text_10. cbn [app unesc N.eqb Pos.eqb after_cr]. destruct (IH out) as [P _]. exact P. }
        rewrite unesc_text_cr_state by assumption. rewrite unesc_text_char by exact N13.
        destruct (IH (c :: out)) as [P _]. rewrite P.
        assert (after_cr (c :: s) = c :: s) as ->.
        { unfold after_cr. destruct c as [|p]; [reflexivity|]. repeat (destruct p as [p|p|]; try reflexivity). congruence. }
        rewrite norm_eol_other by exact N13. cbn [rev]. now rewrite <- app_assoc.
Qed.

(* the escaped form contains no '>' at all, hence never the CDATA end marker *)
Lemma escape_cdata_no_gt s : forallb (fun c => negb (c =? 62)) (escape_cdata s) = true.
Proof.
  induction s as [|c s IH]; [reflexivity|]. rewrite escape_cdata_cons, forallb_app, IH, andb_true_r.
  destruct (etc_cases c) as [[-> E]|[[-> E]|[[-> E]|(N38 & N60 & N62 & E)]]]; rewrite E; try reflexivity.
  cbn [forallb]. neqb. reflexivity.
Qed.

Lemma no_gt_no_cdend s : forallb (fun c => negb (c =? 62)) s = true -> has_sub CDEND s = false.
Proof.
  induction s as [|c s IH]; intros H; [reflexivity|].
  cbn [forallb] in H. apply andb_true_iff in H as [Hc Hs]. cbn [has_sub]. rewrite (IH Hs).
  change CDEND with [93; 93; 62].
  destruct s as [|c2 [|c3 s3]]; cbn [strip_prefix].
  - destruct (93 =? c); reflexivity.
  - destruct (93 =? c); [|reflexivity]. destruct (93 =? c2); reflexivity.
  - destruct (93 =? c); [|reflexivity]. destruct (93 =? c2); [|reflexivity].
    cbn [forallb] in Hs. apply andb_true_iff in Hs as [_ Hs]. apply andb_true_iff in Hs as [H3 _].
    apply negb_true_iff in H3. rewrite N.eqb_sym, H3. reflexivity.
Qed.

Theorem unescape_text_escape s : unescape_text (escape_cdata s) = Some (norm_eol s).
Proof.
  unfold unescape_text. rewrite (no_gt_no_cdend _ (escape_cdata_no_gt s)).
  destruct (unesc_text_gen s []) as [P _]. exact P.
Qed.

(* without CR the text is read back unchanged *)
Lemma norm_eol_id s : forallb (fun c => negb (c =? 13)) s = true -> norm_eol s = s.
Proof.
  induction s as [|c s IH]; intros H; [reflexivity|]. cbn [forallb] in H. apply andb_true_iff in H as [Hc Hs].
  apply negb_true_iff, N.eqb_neq in Hc. rewrite norm_eol_other by exact Hc. now rewrite IH.
Qed.

(* ------------------------------------------------------------------ *)
(* the escaped forms contain no delimiter                                *)
(* ------------------------------------------------------------------ *)
(* every '&' starts one of the allowed references *)
Definition starts_with (p s : str) : bool := match strip_prefix p s with Some _ => true | None => false end.
Fixpoint amp_ok (allowed : list str) (s : str) : bool :=
  match s with
  | [] => true
  | c :: r => (if c =? 38 then existsb (fun n => starts_with n r) allowed else true) && amp_ok allowed r
  end.

Definition TEXT_REFS : list str := [s2l "amp;"; s2l "lt;"; s2l "gt;"].
Definition ATTR_REFS : list str := [s2l "amp;"; s2l "lt;"; s2l "gt;"; s2l "quot;"; s2l "#13;"; s2l "#10;"; s2l "#09;"].

Theorem escape_cdata_safe s :
  forallb (fun c => negb ((c =? 60) || (c =? 62))) (escape_cdata s) = true /\ amp_ok TEXT_REFS (escape_cdata s) = true.
Proof.
  induction s as [|c s [IH1 IH2]]; [split; reflexivity|]. rewrite escape_cdata_cons.
  destruct (etc_cases c) as [[-> E]|[[-> E]|[[-> E]|(N38 & N60 & N62 & E)]]]; rewrite E; cbn [app].
  1-3: split; [cbn [forallb]; rewrite IH1; reflexivity|
               cbn -[escape_cdata]; rewrite IH2; reflexivity].
  split.
  - cbn [forallb]. neqb. rewrite IH1. reflexivity.
  - cbn [amp_ok]. neqb. rewrite IH2. reflexivity.
Qed.

Theorem escape_attrib_safe s :
  forallb (fun c => negb ((c =? 60) || (c =? 62) || (c =? 34) || (c =? 13) || (c =? 10) || (c =? 9))) (escape_attrib s) = true /\
  amp_ok ATTR_REFS (escape_attrib s) = true.
Proof.
  induction s as [|c s [IH1 IH2]]; [split; reflexivity|]. rewrite escape_attrib_cons.
  destruct (eac_cases c) as [[-> E]|[[-> E]|[[-> E]|[[-> E]|[[-> E]|[[-> E]|[[-> E]|(N38 & N60 & N62 & N34 & N13 & N10 & N9 & E)]]]]]]];
    rewrite E; cbn [app].
  1-7: split; [cbn [forallb]; rewrite IH1; reflexivity|
               cbn -[escape_attrib]; rewrite IH2; reflexivity].
  split.
  - cbn [forallb]. neqb. rewrite IH1. reflexivity.
  - cbn [amp_ok]. neqb. rewrite IH2. reflexivity.
Qed.

(* legal characters stay legal *)
Lemma escape_cdata_legal s : forallb xml_char s = true -> forallb xml_char (escape_cdata s) = true.
Proof.
  induction s as [|c s IH]; intros H; [reflexivity|]. cbn [forallb] in H. apply andb_true_iff in H as [Hc Hs].
  rewrite escape_cdata_cons, forallb_app, (IH Hs), andb_true_r.
  destruct (etc_cases c) as [[-> E]|[[-> E]|[[-> E]|(_ & _ & _ & E)]]]; rewrite E; try reflexivity.
  cbn [forallb]. now rewrite Hc.
Qed.
Lemma escape_attrib_legal s : forallb xml_char s = true -> forallb xml_char (escape_attrib s) = true.
Proof.
  induction s as [|c s IH]; intros H; [reflexivity|]. cbn [forallb] in H. apply andb_true_iff in H as [Hc Hs].
  rewrite escape_attrib_cons, forallb_app, (IH Hs), andb_true_r.
  destruct (eac_cases c) as [[-> E]|[[-> E]|[[-> E]|[[-> E]|[[-> E]|[[-> E]|[[-> E]|(_ & _ & _ & _ & _ & _ & _ & E)]]]]]]]; rewrite E; try reflexivity.
  cbn [forallb]. now rewrite Hc.
Qed.
