From PV Require Import Lib.Base Model.Sigver Model.CertSelect Model.IssuerSel Proofs.Sigver_lemmas Proofs.CertSelect_lemmas.
Open Scope N_scope.

(* key [k] is a certificate of a signing (or use-less) key descriptor of the entity the store serves for id [i] *)
Definition trusted_for (m : mdstore) (i : str) (k : N) : Prop :=
  exists e r kd, find_entity m i = Some e /\ In r e /\ In kd r /\
    (kd_use kd = Some SIGNING \/ kd_use kd = None) /\ In k (kd_certs kd).

(* ---------------------------------------------------------------- issuer selection *)
Lemma select_issuer_own own arg i : issuer_text own = Some i -> select_issuer own arg = Some i.
Proof. unfold select_issuer. now intros ->. Qed.

Lemma select_issuer_fallback own arg : issuer_text own = None -> select_issuer own arg = issuer_text arg.
Proof. unfold select_issuer. now intros ->. Qed.

Lemma select_issuer_cases own arg i :
  select_issuer own arg = Some i ->
  issuer_text own = Some i \/ (issuer_text own = None /\ issuer_text arg = Some i).
Proof. unfold select_issuer. destruct (issuer_text own) as [j|]; [intros H; now left|intros H; now right]. Qed.

(* the argument is irrelevant as soon as the element names its issuer *)
Lemma elem_candidates_own c arg own embedded i :
  issuer_text own = Some i ->
  elem_candidates c arg own embedded = candidate_certs (v_mp c) (v_md c) (Some i) (v_only_md c) embedded.
Proof. intros H. unfold elem_candidates. now rewrite (select_issuer_own _ arg _ H). Qed.

Lemma check_elem_own c arg own embedded signer i :
  issuer_text own = Some i ->
  check_elem c arg own embedded signer = check_signature (v_mp c) (v_md c) (Some i) (v_only_md c) embedded signer.
Proof. intros H. unfold check_elem. now rewrite (select_issuer_own _ arg _ H). Qed.

(* default setting: success means the key is trusted for the SELECTED issuer *)
Lemma check_signature_trusted mp m issuer embedded signer :
  check_signature mp m issuer true embedded signer = Ok tt ->
  exists i, issuer = Some i /\ trusted_for m i signer.
Proof.
  intros H. rewrite check_signature_spec in H. unfold candidate_certs in H. rewrite andb_false_r in H.
  destruct mp; [|discriminate].
  destruct (md_certs m issuer SIGNING) as [l|] eqn:Mc; [|discriminate].
  destruct (md_certs_spec _ _ _ _ Mc) as (i & e & Hi & F & S).
  destruct l as [|c0 l']; [discriminate|].
  destruct (memN signer (c0 :: l')) eqn:M; [|discriminate]. apply memN_In, S in M as (r & kd & Hr & Hk & Hu & Hc).
  exists i. split; [exact Hi|]. exists e, r, kd. repeat split; auto.
  unfold use_matches in Hu. destruct (kd_use kd) as [u|]; [left|now right]. apply str_eqb_eq in Hu. now subst.
Qed.

Lemma check_elem_trusted c arg own embedded signer :
  v_only_md c = true ->
  check_elem c arg own embedded signer = Ok tt ->
  exists i, select_issuer own arg = Some i /\ trusted_for (v_md c) i signer.
Proof. intros Ho H. unfold check_elem in H. rewrite Ho in H. exact (check_signature_trusted _ _ _ _ _ H). Qed.

(* … and when the element has an Issuer of its own, for THAT issuer, whatever was passed *)
Lemma check_elem_own_trusted c arg own embedded signer i :
  v_only_md c = true -> issuer_text own = Some i ->
  check_elem c arg own embedded signer = Ok tt -> trusted_for (v_md c) i signer.
Proof.
  intros Ho Hi H. destruct (check_elem_trusted _ _ _ _ _ Ho H) as (j & Hj & T).
  rewrite (select_issuer_own _ arg _ Hi) in Hj. injection Hj as <-. exact T.
Qed.

(* ---------------------------------------------------------------- documents *)
Lemma check_all_ok {A} (f : A -> result unit) l :
  check_all f l = Ok tt <-> forall x, In x l -> f x = Ok tt.
Proof.
  induction l as [|a l IH]; cbn [check_all].
  - split; [intros _ x []|reflexivity].
  - destruct (f a) as [[]|e] eqn:Fa.
    + rewrite IH. split; [intros H x [<-|Hx]; [exact Fa|now apply H]|intros H x Hx; apply H; now right].
    + split; [discriminate|]. intros H. rewrite <- Fa. apply H. now left.
Qed.

Lemma check_all_err_first {A} (f : A -> result unit) l e :
  check_all f l = Err e -> exists x, In x l /\ f x = Err e.
Proof.
  induction l as [|a l IH]; cbn [check_all]; [discriminate|].
  destruct (f a) as [[]|e'] eqn:Fa.
  - intros H. destruct (IH H) as (x & Hx & Fx). exists x. split; [now right|exact Fx].
  - intros H. injection H as <-. exists a. split; [now left|exact Fa].
Qed.

Lemma result_unit_ok (r : result unit) : (exists u, r = Ok u) -> r = Ok tt.
Proof. intros ([] & H). exact H. Qed.

(* verify_doc = Ok  iff  the response signature step and every element's check pass *)
Lemma verify_doc_ok c d :
  verify_doc c d = Ok tt <->
  (match se_sig (d_resp d) with
   | None => dc_wrs c = false
   | Some _ => check_selem (dc_v c) None (d_resp d) = Ok tt
   end) /\
  (forall a, In a (d_plain d ++ d_enc d) -> check_selem (dc_v c) None (as_elem a) = Ok tt) /\
  (forall a x, In a (d_enc d ++ d_plain d) -> In x (as_advice a) ->
     check_selem (dc_v c) (se_issuer (as_elem a)) x = Ok tt).
Proof.
  unfold verify_doc.
  set (R := match se_sig (d_resp d) with
            | None => if dc_wrs c then Err SignatureError else Ok tt
            | Some _ => check_selem (dc_v c) None (d_resp d) end).
  assert (HR : R = Ok tt <-> match se_sig (d_resp d) with
                            | None => dc_wrs c = false
                            | Some _ => check_selem (dc_v c) None (d_resp d) = Ok tt end).
  { unfold R. destruct (se_sig (d_resp d)); [reflexivity|]. destruct (dc_wrs c); split; congruence. }
  destruct R as [[]|e].
  2:{ split; [discriminate|]. intros (H & _). apply HR in H. discriminate. }
  destruct (check_all (fun a => check_selem (dc_v c) None (as_elem a)) (d_plain d)) as [[]|e] eqn:P.
  2:{ split; [discriminate|]. intros (_ & H & _). apply check_all_err_first in P as (x & Hx & Fx).
      rewrite H in Fx; [discriminate|]. apply in_or_app. now left. }
  destruct (check_all (fun a => check_selem (dc_v c) None (as_elem a)) (d_enc d)) as [[]|e] eqn:E.
  2:{ split; [discriminate|]. intros (_ & H & _). apply check_all_err_first in E as (x & Hx & Fx).
      rewrite H in Fx; [discriminate|]. apply in_or_app. now right. }
  rewrite check_all_ok in P, E. rewrite check_all_ok. split.
  - intros H. split; [now apply HR|]. split.
    + intros a Ha. apply in_app_or in Ha as [Ha|Ha]; [now apply P|now apply E].
    + intros a x Ha Hx. specialize (H a Ha). cbv beta in H. rewrite check_all_ok in H. now apply H.
  - intros (_ & _ & H) a Ha. apply check_all_ok. intros x Hx. now apply H.
Qed.

(* a signed element that passed: its key is trusted for the issuer selected for it *)
Lemma check_selem_trusted c arg e embedded signer :
  v_only_md c = true -> se_sig e = Some (embedded, signer) -> check_selem c arg e = Ok tt ->
  exists i, select_issuer (se_issuer e) arg = Some i /\ trusted_for (v_md c) i signer.
Proof. intros Ho Hs H. unfold check_selem in H. rewrite Hs in H. exact (check_elem_trusted _ _ _ _ _ Ho H). Qed.

Lemma select_issuer_noarg own : select_issuer own None = issuer_text own.
Proof. unfold select_issuer. destruct (issuer_text own); reflexivity. Qed.

(* ---------------------------------------------------------------- the entry point *)
Lemma assertion_step_check req v a : assertion_step req v false a = Ok tt -> check_selem v None a = Ok tt.
Proof. unfold assertion_step, check_selem. destruct (se_sig a) as [[emb k]|]; [tauto|reflexivity]. Qed.

Lemma has_encrypted_false d :
  has_encrypted d = false -> d_enc d = [] /\ forall a, In a (d_plain d) -> as_advice a = [].
Proof.
  unfold has_encrypted. intros H. apply orb_false_elim in H as (H1 & H2). split.
  - destruct (d_enc d); [reflexivity|discriminate].
  - intros a Ha. destruct (as_advice a) eqn:Ad; [reflexivity|].
    assert (X : existsb (fun a0 => negb (nilb (as_advice a0))) (d_plain d) = true).
    { apply existsb_exists. exists a. split; [exact Ha|]. now rewrite Ad. }
    congruence.
Qed.

(* a run of parse_assertion that comes through has made every signature check of the document *)
Lemma verify_pass_checks req v d :
  verify_pass req v d = Ok tt ->
  (forall a, In a (d_plain d ++ d_enc d) -> check_selem v None (as_elem a) = Ok tt) /\
  (forall a x, In a (d_enc d ++ d_plain d) -> In x (as_advice a) -> check_selem v (se_issuer (as_elem a)) x = Ok tt).
Proof.
  unfold verify_pass.
  destruct (check_all (fun a => assertion_step req v false (as_elem a)) (d_plain d)) as [[]|e] eqn:P; [|discriminate].
  rewrite check_all_ok in P.
  destruct (has_encrypted d) eqn:HE.
  - destruct (check_all (fun a => check_selem v None (as_elem a)) (d_enc d)) as [[]|e] eqn:E; [|discriminate].
    destruct (check_all (fun a => check_all (check_selem v (se_issuer (as_elem a))) (as_advice a)) (d_enc d ++ d_plain d)) as [[]|e] eqn:A; [|discriminate].
    intros _. rewrite check_all_ok in E, A. split.
    + intros a Ha. apply in_app_or in Ha as [Ha|Ha]; [apply (assertion_step_check req); now apply P|now apply E].
    + intros a x Ha Hx. specialize (A a Ha). cbv beta in A. rewrite check_all_ok in A. now apply A.
  - intros _. apply has_encrypted_false in HE as (He & Ha0). rewrite He. split.
    + intros a Ha. rewrite app_nil_r in Ha. apply (assertion_step_check req). now apply P.
    + intros a x Ha Hx. cbn [app] in Ha. rewrite (Ha0 a Ha) in Hx. destruct Hx.
Qed.

Lemma load_response_ok c d :
  load_response c d = Ok tt ->
  match se_sig (d_resp d) with
  | None => dc_wrs (pc_d c) = false
  | Some _ => check_selem (dc_v (pc_d c)) None (d_resp d) = Ok tt
  end.
Proof.
  unfold load_response, load_pass. destruct (se_sig (d_resp d)) as [p|].
  - destruct (check_selem (dc_v (pc_d c)) None (d_resp d)) as [[]|e]; [reflexivity|]. destruct (dc_wrs (pc_d c)); discriminate.
  - destruct (dc_wrs (pc_d c)); [discriminate|reflexivity].
Qed.

(* soundness of the entry point w.r.t. the plain list of checks: the retries never let a document
   through whose signature checks do not all pass *)
Lemma parse_doc_sound c d : parse_doc c d = Ok tt -> verify_doc (pc_d c) d = Ok tt.
Proof.
  unfold parse_doc. destruct (load_response c d) as [[]|e] eqn:L; [|discriminate].
  apply load_response_ok in L. intros V. apply verify_doc_ok. split; [exact L|].
  unfold verify_response in V.
  destruct (verify_pass true (dc_v (pc_d c)) d) as [[]|e] eqn:P1.
  - exact (verify_pass_checks _ _ _ P1).
  - destruct (str_eqb e SignatureError && negb (pc_was c)); [|discriminate].
    exact (verify_pass_checks _ _ _ V).
Qed.

(* ---------------------------------------------------------------- histories *)
Lemma run_ops_results cs : forall ops st, snd (run_ops cs st ops) = map (check_op cs) ops.
Proof.
  induction ops as [|o rest IH]; intros st; [reflexivity|].
  cbn [run_ops step]. specialize (IH (st ++ op_files cs o)).
  destruct (run_ops cs (st ++ op_files cs o) rest) as [st2 rs]. cbn [snd] in *. cbn [map]. now rewrite IH.
Qed.

Lemma run_ops_app cs : forall ops1 ops2 st,
  snd (run_ops cs st (ops1 ++ ops2)) = snd (run_ops cs st ops1) ++ snd (run_ops cs (fst (run_ops cs st ops1)) ops2).
Proof. intros ops1 ops2 st. rewrite !run_ops_results. apply map_app. Qed.
