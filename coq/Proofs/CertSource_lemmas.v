From PV Require Import Lib.Base Model.Sigver Model.CertSelect Model.CertSource Proofs.Sigver_lemmas Proofs.CertSelect_lemmas.
Open Scope N_scope.

Lemma find_desc_some c i d : find_desc c i = Some d -> In d c /\ d_id d = i.
Proof.
  induction c as [|x rest IH]; cbn [find_desc]; [discriminate|].
  destruct (str_eqb i (d_id x)) eqn:E.
  - intros H. injection H as <-. split; [now left|]. apply str_eqb_eq in E. now subst.
  - intros H. destruct (IH H) as [Hi Hd]. split; [now right|exact Hd].
Qed.

Lemma file_desc_In c d x : In x (file_desc c d) -> In x c \/ x = d.
Proof.
  unfold file_desc. destruct (find_desc c (d_id d)); [now left|].
  rewrite in_app_iff. cbn [In]. intros [H|[H|[]]]; [now left|right; now subst].
Qed.

Lemma file_all_In ds : forall c x, In x (file_all c ds) -> In x c \/ In x ds.
Proof.
  induction ds as [|d rest IH]; intros c x; unfold file_all; cbn [fold_left]; [now left|].
  intros H. apply IH in H as [H|H]; [|right; now right].
  apply file_desc_In in H as [H|H]; [now left|right; left; now subst].
Qed.

Definition served_now (srv : server) (asked : str) (d : descriptor) : Prop :=
  exists ds, srv asked = Served ds /\ In d ds.

Lemma lazy_lookup_cache srv c asked r c' :
  lazy_lookup srv c asked = (r, c') -> forall x, In x c' -> In x c \/ served_now srv asked x.
Proof.
  unfold lazy_lookup. destruct (find_desc c asked) as [d|].
  - intros H x. injection H as _ <-. now left.
  - destruct (srv asked) as [| |ds] eqn:S.
    + intros H x. injection H as _ <-. now left.
    + intros H x. injection H as _ <-. now left.
    + intros H x Hx. injection H as _ <-. apply file_all_In in Hx as [Hx|Hx]; [now left|right; now exists ds].
Qed.

Lemma lazy_lookup_found srv c asked d c' :
  lazy_lookup srv c asked = (Found d, c') -> d_id d = asked /\ In d c'.
Proof.
  unfold lazy_lookup. destruct (find_desc c asked) as [d0|] eqn:F.
  - intros H. injection H as <- <-. apply find_desc_some in F. tauto.
  - destruct (srv asked) as [| |ds]; try discriminate.
    destruct (find_desc (file_all c ds) asked) as [d1|] eqn:F1; [|discriminate].
    intros H. injection H as <- <-. apply find_desc_some in F1. tauto.
Qed.

Lemma store_lookup_holds srv asked : forall ss r ss',
  store_lookup srv ss asked = (r, ss') -> forall x, holds ss' x -> holds ss x \/ served_now srv asked x.
Proof.
  induction ss as [|s rest IH]; intros r ss'; cbn [store_lookup].
  - intros H x. injection H as _ <-. intros (s & [] & _).
  - destruct s as [c|c].
    + destruct (find_desc c asked) as [d|].
      * intros H x. injection H as _ <-. now left.
      * destruct (store_lookup srv rest asked) as [r0 rest'] eqn:R. intros H x. injection H as _ <-.
        intros (s & [<-|Hs] & Hx).
        -- left. exists (Static c). split; [now left|exact Hx].
        -- destruct (IH _ _ eq_refl x) as [(s0 & Hs0 & Hx0)|Hv]; [now exists s| |now right].
           left. exists s0. split; [now right|exact Hx0].
    + destruct (lazy_lookup srv c asked) as [l c'] eqn:L.
      assert (Hc : forall x, In x c' -> In x c \/ served_now srv asked x) by exact (lazy_lookup_cache _ _ _ _ _ L).
      assert (Hstop : forall x, holds (Lazy c' :: rest) x -> holds (Lazy c :: rest) x \/ served_now srv asked x).
      { intros x (s & [<-|Hs] & Hx).
        - cbn [source_cache] in Hx. destruct (Hc x Hx) as [H1|H1]; [|now right]. left. exists (Lazy c). split; [now left|exact H1].
        - left. exists s. split; [now right|exact Hx]. }
      destruct l as [d| |e].
      * intros H x. injection H as _ <-. apply Hstop.
      * destruct (store_lookup srv rest asked) as [r0 rest'] eqn:R. intros H x. injection H as _ <-.
        intros (s & [<-|Hs] & Hx).
        -- apply Hstop. exists (Lazy c'). split; [now left|exact Hx].
        -- destruct (IH _ _ eq_refl x) as [(s0 & Hs0 & Hx0)|Hv]; [now exists s| |now right].
           left. exists s0. split; [now right|exact Hx0].
      * intros H x. injection H as _ <-. apply Hstop.
Qed.

(* what a lookup finds is a descriptor NAMED like the asked id, and the store holds it afterwards *)
Lemma store_lookup_found srv asked : forall ss d ss',
  store_lookup srv ss asked = (Found d, ss') -> d_id d = asked /\ holds ss' d.
Proof.
  induction ss as [|s rest IH]; intros d ss'; cbn [store_lookup]; [discriminate|].
  destruct s as [c|c].
  - destruct (find_desc c asked) as [d0|] eqn:F.
    + intros H. injection H as <- <-. apply find_desc_some in F as [Hi Hd]. split; [exact Hd|].
      exists (Static c). split; [now left|exact Hi].
    + destruct (store_lookup srv rest asked) as [r0 rest'] eqn:R. intros H. injection H as -> <-.
      destruct (IH _ _ eq_refl) as [Hd (s0 & Hs0 & Hx0)]. split; [exact Hd|]. exists s0. split; [now right|exact Hx0].
  - destruct (lazy_lookup srv c asked) as [l c'] eqn:L. destruct l as [d0| |e].
    + intros H. injection H as <- <-. apply lazy_lookup_found in L as [Hd Hi]. split; [exact Hd|].
      exists (Lazy c'). split; [now left|exact Hi].
    + destruct (store_lookup srv rest asked) as [r0 rest'] eqn:R. intros H. injection H as -> <-.
      destruct (IH _ _ eq_refl) as [Hd (s0 & Hs0 & Hx0)]. split; [exact Hd|]. exists s0. split; [now right|exact Hx0].
    + discriminate.
Qed.

(* when does check_signature succeed *)
Lemma check_signature_ok_cases mp m issuer only embedded signer :
  check_signature mp m issuer only embedded signer = Ok tt ->
  (mp = true /\ exists l, md_certs m issuer SIGNING = Some l /\ In signer l) \/
  (only = false /\ In signer embedded /\ (mp = false \/ md_certs m issuer SIGNING = None \/ md_certs m issuer SIGNING = Some [])).
Proof.
  rewrite check_signature_spec. unfold candidate_certs.
  destruct mp.
  - destruct (md_certs m issuer SIGNING) as [l|] eqn:Mc.
    + destruct l as [|c0 l'].
      * cbn [nilb andb]. destruct only; cbn [negb]; [discriminate|].
        destruct embedded as [|e0 e']; [discriminate|]. destruct (memN signer (e0 :: e')) eqn:M; [|discriminate].
        intros _. right. apply memN_In in M. repeat split; auto.
      * cbn [nilb andb]. destruct (memN signer (c0 :: l')) eqn:M; [|discriminate]. intros _. left. split; [reflexivity|].
        exists (c0 :: l'). split; [reflexivity|now apply memN_In].
    + cbn [nilb andb]. destruct only; cbn [negb]; [discriminate|].
      destruct embedded as [|e0 e']; [discriminate|]. destruct (memN signer (e0 :: e')) eqn:M; [|discriminate].
      intros _. right. apply memN_In in M. repeat split; auto.
  - cbn [nilb andb]. destruct only; cbn [negb]; [discriminate|].
    destruct embedded as [|e0 e']; [discriminate|]. destruct (memN signer (e0 :: e')) eqn:M; [|discriminate].
    intros _. right. apply memN_In in M. repeat split; auto.
Qed.

Lemma singleton_declares issuer d l k :
  md_certs [(issuer, d_ent d)] (Some issuer) SIGNING = Some l -> In k l -> declares_signing d k.
Proof.
  intros Hm Hk. destruct (md_certs_spec _ _ _ _ Hm) as (i & e & Hi & F & S). injection Hi as <-.
  cbn [find_entity] in F. rewrite str_eqb_refl in F. injection F as <-.
  apply S in Hk as (r & kd & Hr & Hkd & Hu & Hc). exists r, kd. repeat split; auto.
  unfold use_matches in Hu. destruct (kd_use kd) as [u|]; [left|now right]. apply str_eqb_eq in Hu. now subst.
Qed.

(* one check: accepted => the key is declared by a descriptor NAMED like the issuer which the store held or the
   server has just sent - or (setting off only) it is the embedded certificate's *)
Lemma src_check_sound srv ss issuer only embedded signer ss' :
  src_check srv ss issuer only embedded signer = (Ok tt, ss') ->
  (exists d, d_id d = issuer /\ (holds ss d \/ served_now srv issuer d) /\ declares_signing d signer) \/
  (only = false /\ In signer embedded).
Proof.
  unfold src_check. destruct (store_lookup srv ss issuer) as [r ss0] eqn:L. intros H. injection H as Hv <-.
  destruct r as [d| |e]; cbn [verdict_of] in Hv; [| |discriminate].
  - apply check_signature_ok_cases in Hv as [(_ & l & Hm & Hk)|(Ho & He & _)]; [left|right; now split].
    destruct (store_lookup_found _ _ _ _ _ L) as [Hd Hh]. exists d. split; [exact Hd|]. split.
    + exact (store_lookup_holds _ _ _ _ _ L d Hh).
    + exact (singleton_declares _ _ _ _ Hm Hk).
  - apply check_signature_ok_cases in Hv as [(_ & l & Hm & _)|(Ho & He & _)]; [discriminate|right; now split].
Qed.

Lemma src_check_holds srv ss issuer only embedded signer r ss' :
  src_check srv ss issuer only embedded signer = (r, ss') -> forall x, holds ss' x -> holds ss x \/ served_now srv issuer x.
Proof.
  unfold src_check. destruct (store_lookup srv ss issuer) as [r0 ss0] eqn:L. intros H. injection H as _ <-.
  exact (store_lookup_holds _ _ _ _ _ L).
Qed.

(* histories: by induction over the operation sequence *)
Definition served_in (qs : list step) (d : descriptor) : Prop :=
  exists q, In q qs /\ served_now (q_srv q) (q_issuer q) d.

Lemma run_steps_sound only : forall qs ss n q,
  nth_error qs n = Some q -> nth_error (run_steps only ss qs) n = Some (Ok tt) ->
  (exists d, d_id d = q_issuer q /\ (holds ss d \/ served_in (firstn (S n) qs) d) /\ declares_signing d (q_signer q)) \/
  (only = false /\ In (q_signer q) (q_embedded q)).
Proof.
  induction qs as [|q0 rest IH]; intros ss n q Hq Hr; [destruct n; discriminate|].
  cbn [run_steps] in Hr. destruct (src_check (q_srv q0) ss (q_issuer q0) only (q_embedded q0) (q_signer q0)) as [r ss'] eqn:C.
  destruct n as [|n]; cbn [nth_error] in Hq, Hr.
  - injection Hq as <-. injection Hr as ->.
    destruct (src_check_sound _ _ _ _ _ _ _ C) as [(d & Hd & Hw & Hs)|Hf]; [left|now right].
    exists d. split; [exact Hd|]. split; [|exact Hs]. destruct Hw as [Hh|Hv]; [now left|right].
    exists q0. split; [now left|exact Hv].
  - destruct (IH ss' n q Hq Hr) as [(d & Hd & Hw & Hs)|Hf]; [left|now right].
    exists d. split; [exact Hd|]. split; [|exact Hs]. destruct Hw as [Hh|(q' & Hq' & Hv)].
    + destruct (src_check_holds _ _ _ _ _ _ _ _ C d Hh) as [H0|H0]; [now left|right]. exists q0. split; [now left|exact H0].
    + right. exists q'. split; [|exact Hv]. change (firstn (S (S n)) (q0 :: rest)) with (q0 :: firstn (S n) rest). now right.
Qed.
