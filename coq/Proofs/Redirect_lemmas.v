(* Proofs/Redirect_lemmas.v — lemmas for C15.  Parametric in the regenerated tables [T]:
   everything is proved under [tables_ok T = true], which Props/C15.v discharges for the
   actual tables by vm_compute. *)
From PV Require Import Lib.Base Model.Codec Model.Redirect Proofs.Base64_lemmas Proofs.Url_lemmas.
From Coq Require Import ZifyN ZifyBool.
Open Scope N_scope.

(* ------------------------------------------------------------------ *)
(* A. the two percent-encoders                                        *)
(* ------------------------------------------------------------------ *)
Lemma quote_plus_g_true bs : quote_plus_g true bs = quote_plus bs.
Proof. reflexivity. Qed.

Lemma urlencode_g_true ps : urlencode_g true ps = urlencode ps.
Proof. reflexivity. Qed.

Lemma unquote_quote_byte_g ts b rest : byte b ->
  unquote_gen true (quote_byte_g ts b ++ rest) = b :: unquote_gen true rest.
Proof.
  intros Hb. unfold quote_byte_g. destruct (negb ts && (b =? TILDE)) eqn:E.
  - apply andb_true_iff in E as [_ E]. apply N.eqb_eq in E. subst b. reflexivity.
  - now apply unquote_quote_byte.
Qed.

Lemma quote_plus_g_roundtrip ts bs : Forall byte bs -> unquote_plus (quote_plus_g ts bs) = bs.
Proof.
  unfold unquote_plus, quote_plus_g. induction 1 as [|b bs Hb _ IH]; [reflexivity|].
  cbn [flat_map]. now rewrite (unquote_quote_byte_g ts b _ Hb), IH.
Qed.

Lemma quote_byte_g_safe ts b : byte b -> forallb url_safe (quote_byte_g ts b) = true.
Proof.
  intros Hb. unfold quote_byte_g. destruct (negb ts && (b =? TILDE)); [reflexivity|now apply quote_byte_safe].
Qed.

Lemma quote_plus_g_alphabet ts bs : Forall byte bs -> forallb url_safe (quote_plus_g ts bs) = true.
Proof.
  unfold quote_plus_g. induction 1 as [|b bs Hb _ IH]; [reflexivity|].
  cbn [flat_map]. now rewrite forallb_app, IH, (quote_byte_g_safe ts b Hb).
Qed.

Lemma parse_field_encode_g ts kv : bytes_pair kv -> parse_field (encode_pair_g ts kv) = Some kv.
Proof.
  intros [Hk Hv]. unfold parse_field, encode_pair_g.
  rewrite (split_first_app_nosep EQ (quote_plus_g ts (fst kv)) (quote_plus_g ts (snd kv)) []).
  - cbn [rev app]. rewrite (quote_plus_g_roundtrip _ _ Hk), (quote_plus_g_roundtrip _ _ Hv). now destruct kv.
  - apply safe_no; [intros c Hc; apply (url_safe_not_special c Hc)|]. now apply quote_plus_g_alphabet.
Qed.

Lemma encode_pair_g_no_amp ts kv : bytes_pair kv -> forallb (fun c => negb (c =? AMP)) (encode_pair_g ts kv) = true.
Proof.
  intros [Hk Hv]. unfold encode_pair_g. rewrite forallb_app. cbn [forallb].
  rewrite !(safe_no AMP); try (now apply quote_plus_g_alphabet); try (intros c Hc; apply (url_safe_not_special c Hc)).
  reflexivity.
Qed.

Theorem parse_qsl_urlencode_g ts ps : Forall bytes_pair ps -> parse_qsl (urlencode_g ts ps) = ps.
Proof.
  intros H. destruct ps as [|kv0 ps0]; [reflexivity|].
  unfold parse_qsl, urlencode_g.
  assert (join_with AMP (map (encode_pair_g ts) (kv0 :: ps0)) <> []) as Hne.
  { intros Hn. cbn [map join_with] in Hn. destruct (map (encode_pair_g ts) ps0); unfold encode_pair_g in Hn;
      [|rewrite <- app_assoc in Hn; cbn [app] in Hn]; symmetry in Hn; apply app_cons_not_nil in Hn; exact Hn. }
  destruct (join_with AMP (map (encode_pair_g ts) (kv0 :: ps0))) eqn:E; [congruence|]. rewrite <- E. clear E Hne.
  rewrite split_join.
  - induction H as [|kv ps Hkv _ IH]; [reflexivity|]. cbn [map filter_some].
    rewrite (parse_field_encode_g ts kv Hkv). cbn [filter_some]. now rewrite IH.
  - discriminate.
  - rewrite Forall_map. eapply Forall_impl; [|exact H]. intros kv Hkv. now apply encode_pair_g_no_amp.
Qed.

(* the octet string determines the parameter list, whichever of the two encoders made it *)
Theorem urlencode_g_inj ts ts' ps ps' : Forall bytes_pair ps -> Forall bytes_pair ps' ->
  urlencode_g ts ps = urlencode_g ts' ps' -> ps = ps'.
Proof.
  intros H H' E. apply (f_equal parse_qsl) in E.
  now rewrite (parse_qsl_urlencode_g ts ps H), (parse_qsl_urlencode_g ts' ps' H') in E.
Qed.

(* the two encoders differ on the tilde only *)
Definition no_tilde (s : str) : Prop := forallb (fun c => negb (c =? TILDE)) s = true.
Definition no_tilde_pair (kv : list N * list N) : Prop := no_tilde (fst kv) /\ no_tilde (snd kv).

Lemma quote_plus_g_no_tilde ts ts' s : no_tilde s -> quote_plus_g ts s = quote_plus_g ts' s.
Proof.
  unfold no_tilde, quote_plus_g. induction s as [|c s IH]; [reflexivity|]. cbn [forallb flat_map]. intros H.
  apply andb_true_iff in H as [Hc Hs]. rewrite (IH Hs). f_equal.
  unfold quote_byte_g. destruct (c =? TILDE); [discriminate|]. now rewrite !andb_false_r.
Qed.

Lemma urlencode_g_no_tilde ts ts' ps : Forall no_tilde_pair ps -> urlencode_g ts ps = urlencode_g ts' ps.
Proof.
  intros H. unfold urlencode_g.
  assert (map (encode_pair_g ts) ps = map (encode_pair_g ts') ps) as ->; [|reflexivity].
  induction H as [|kv ps [Hk Hv] _ IH]; [reflexivity|].
  cbn [map]. rewrite IH. unfold encode_pair_g.
  now rewrite (quote_plus_g_no_tilde ts ts' _ Hk), (quote_plus_g_no_tilde ts ts' _ Hv).
Qed.

(* ------------------------------------------------------------------ *)
(* B. dict access and the ordered parameter list                      *)
(* ------------------------------------------------------------------ *)
Lemma lookup_In k l v : lookup k l = Some v -> In (k, v) l.
Proof.
  induction l as [|[k' v'] l IH]; [discriminate|]. cbn [lookup].
  destruct (str_eqb_spec k k') as [->|Hne]; intros H.
  - injection H as ->. now left.
  - right. now apply IH.
Qed.

Lemma In_ordered o args k v : In (k, v) (ordered o args) -> In k o /\ lookup k args = Some v.
Proof.
  unfold ordered. rewrite in_flat_map. intros [k0 [Hin Hp]]. unfold pick in Hp.
  destruct (lookup k0 args) as [v0|] eqn:E; [|contradiction].
  destruct Hp as [Hp|[]]. injection Hp as -> ->. now split.
Qed.

Lemma ordered_In o args k v : In k o -> lookup k args = Some v -> In (k, v) (ordered o args).
Proof.
  intros Hin Hl. unfold ordered. rewrite in_flat_map. exists k. split; [exact Hin|].
  unfold pick. rewrite Hl. now left.
Qed.

Lemma ordered_bytes o args : Forall bytes_pair args -> Forall bytes_pair (ordered o args).
Proof.
  intros H. rewrite Forall_forall in *. intros [k v] Hin. apply In_ordered in Hin as [_ Hl].
  apply lookup_In in Hl. now apply H.
Qed.

(* equal ordered lists give equal look-ups for every name of the (second) order *)
Lemma ordered_eq_lookup o o' args args' k :
  ordered o' args' = ordered o args -> In k o -> In k o' ->
  lookup k args' = lookup k args.
Proof.
  intros E Ho Ho'.
  destruct (lookup k args) as [v|] eqn:L.
  - pose proof (ordered_In o args k v Ho L) as Hin. rewrite <- E in Hin. now apply In_ordered in Hin as [_ ?].
  - destruct (lookup k args') as [v'|] eqn:L'; [|reflexivity].
    pose proof (ordered_In o' args' k v' Ho' L') as Hin. rewrite E in Hin. apply In_ordered in Hin as [_ Hl]. congruence.
Qed.

Lemma strs_eqb_eq a b : strs_eqb a b = true -> a = b.
Proof.
  revert b; induction a as [|x a IH]; intros [|y b]; cbn [strs_eqb]; try discriminate; [reflexivity|].
  intros H. apply andb_true_iff in H as [H1 H2]. apply str_eqb_eq in H1. subst. f_equal. now apply IH.
Qed.

Lemma plain_spec s : plain s = true -> Forall byte s /\ no_tilde s.
Proof.
  unfold plain. intros H. apply andb_true_iff in H as [H1 H2]. split; [|exact H2].
  rewrite forallb_forall in H1. rewrite Forall_forall. intros c Hc. specialize (H1 c Hc). unfold is_byte in H1. unfold byte. lia.
Qed.

(* ------------------------------------------------------------------ *)
(* C. the shared table                                                *)
(* ------------------------------------------------------------------ *)
Lemma sh_get_setkey_same st a k o : sh_get st a = Some o ->
  sh_get (sh_setkey st a k) a = Some {| so_digest := so_digest o; so_key := k |}.
Proof.
  induction st as [|[a' o'] st IH]; [discriminate|]. cbn [sh_get sh_setkey].
  destruct (str_eqb a a') eqn:E; intros H.
  - injection H as ->. cbn [sh_get]. now rewrite E.
  - cbn [sh_get]. rewrite E. now apply IH.
Qed.

Lemma sh_get_setkey_other st a b k : a <> b -> sh_get (sh_setkey st a k) b = sh_get st b.
Proof.
  intros Hne. induction st as [|[a' o'] st IH]; [reflexivity|]. cbn [sh_setkey].
  destruct (str_eqb_spec a a') as [<-|Hn]; cbn [sh_get].
  - destruct (str_eqb_spec b a) as [->|_]; [congruence|reflexivity].
  - now rewrite IH.
Qed.

Lemma sh_get_setkey_none st a b k : sh_get (sh_setkey st a k) b = None <-> sh_get st b = None.
Proof.
  destruct (str_eqb_spec a b) as [<-|Hne].
  - destruct (sh_get st a) as [o|] eqn:E.
    + rewrite (sh_get_setkey_same st a k o E). split; discriminate.
    + assert (sh_setkey st a k = st) as ->; [|now rewrite E].
      induction st as [|[a' o'] st IH]; [reflexivity|]. cbn [sh_get sh_setkey] in *.
      destruct (str_eqb a a'); [discriminate|]. now rewrite IH.
  - now rewrite sh_get_setkey_other.
Qed.

(* the state after a step is decided by what the step writes *)
Definition apply_write (st : shared) (w : option (str * option keyid)) : shared :=
  match w with
  | Some (a, v) => match sh_get st a with Some _ => sh_setkey st a v | None => st end
  | None => st
  end.

Lemma step_state T st o : fst (step T st o) = if t_shared T then apply_write st (writes o) else st.
Proof.
  destruct o as [e alg sk0|e typ m rs sigalg h|e q cert sigkey]; cbn [step writes apply_write].
  - unfold get_signer. destruct (sh_get st alg); destruct (t_shared T); reflexivity.
  - now destruct (t_shared T).
  - unfold verify_redirect_signature. destruct (lookup K_ALG (q_params q)) as [alg|]; [|now destruct (t_shared T)].
    unfold get_signer. cbn [apply_write]. destruct (sh_get st alg) as [o|] eqn:E; [|now destruct (t_shared T)].
    destruct (verify_order T (q_params q)); [|now destruct (t_shared T)].
    destruct (q_sig q) as [[s|[|]]|]; try (now destruct (t_shared T)).
    cbn [fst]. destruct (sh_get (if t_shared T then sh_setkey st alg (or_key sigkey e) else st) alg); now destruct (t_shared T).
Qed.

(* fresh signer objects: no step ever changes the table *)
Lemma exec_fresh T tr : t_shared T = false -> forall st, exec T st tr = st.
Proof.
  intros F. induction tr as [|o tr IH]; intros st; [reflexivity|]. cbn [exec]. rewrite step_state, F. apply IH.
Qed.

(* the last value written for algorithm a by a trace *)
Fixpoint last_write (a : str) (tr : list op) (cur : option (option keyid)) : option (option keyid) :=
  match tr with
  | [] => cur
  | o :: r => last_write a r (match writes o with
                              | Some (a', v) => if str_eqb a' a then Some v else cur
                              | None => cur
                              end)
  end.

Lemma apply_write_get st w a :
  sh_get (apply_write st w) a =
  match sh_get st a with
  | None => None
  | Some o => Some match w with
                   | Some (a', v) => if str_eqb a' a then {| so_digest := so_digest o; so_key := v |} else o
                   | None => o
                   end
  end.
Proof.
  destruct w as [[a' v]|]; cbn [apply_write]; [|now destruct (sh_get st a)].
  destruct (str_eqb_spec a' a) as [->|Hne].
  - destruct (sh_get st a) as [o|] eqn:E; [|now rewrite E]. now rewrite (sh_get_setkey_same st a v o E).
  - destruct (sh_get st a') as [o'|]; [|now destruct (sh_get st a)].
    rewrite (sh_get_setkey_other st a' a v Hne). now destruct (sh_get st a).
Qed.

(* the algorithm's entry after any trace: same digest, key = last write (or the initial one) *)
Lemma exec_get T tr : t_shared T = true -> forall st a,
  sh_get (exec T st tr) a =
  match sh_get st a with
  | None => None
  | Some o => Some {| so_digest := so_digest o;
                      so_key := match last_write a tr None with Some v => v | None => so_key o end |}
  end.
Proof.
  intros SH. induction tr as [|op tr IH]; intros st a.
  - cbn [exec last_write]. destruct (sh_get st a) as [[d k]|]; reflexivity.
  - cbn [exec last_write]. rewrite IH, step_state, SH, apply_write_get.
    destruct (sh_get st a) as [o|]; [|reflexivity]. f_equal.
    assert (forall cur k0, match last_write a tr cur with Some v => v | None => k0 end =
                           match last_write a tr None with Some v => v | None => match cur with Some v => v | None => k0 end end) as G.
    { clear. induction tr as [|op tr IH]; intros cur k0; cbn [last_write]; [now destruct cur|].
      destruct (writes op) as [[a' v]|]; [destruct (str_eqb a' a)|]; try apply IH.
      rewrite (IH (Some v) k0). rewrite (IH (Some v)). reflexivity. }
    destruct (writes op) as [[a' v]|]; [destruct (str_eqb a' a)|]; cbn [so_digest so_key]; try reflexivity.
    now rewrite (G (Some v) (so_key o)).
Qed.

(* steps that do not write another key for a keep the key *)
Definition keeps (a : str) (k : option keyid) (o : op) : Prop :=
  forall v, writes o = Some (a, v) -> v = k.

Lemma last_write_keeps a k tr : Forall (keeps a k) tr ->
  forall cur, (cur = None \/ cur = Some k) -> last_write a tr cur = None \/ last_write a tr cur = Some k.
Proof.
  induction 1 as [|o tr Ho _ IH]; intros cur Hc; [exact Hc|]. cbn [last_write]. apply IH.
  destruct (writes o) as [[a' v]|] eqn:W; [|exact Hc].
  destruct (str_eqb_spec a' a) as [->|_]; [|exact Hc]. right. f_equal. now apply Ho.
Qed.

Lemma last_write_some a tr : forall v, last_write a tr (Some v) <> None.
Proof.
  induction tr as [|o tr IH]; intros v; cbn [last_write]; [discriminate|].
  destruct (writes o) as [[a' v']|]; [destruct (str_eqb a' a)|]; apply IH.
Qed.

(* ------------------------------------------------------------------ *)
(* D. signing                                                         *)
(* ------------------------------------------------------------------ *)
Definition msg_typ (typ : str) : Prop := typ = K_REQ \/ typ = K_RESP.
Definition sign_order (T : tables) (typ : str) : list str := if str_eqb typ K_REQ then t_sreq T else t_sresp T.
Definition args0 (typ m rs alg : str) : list (str * str) := redirect_args typ m rs ++ [(K_ALG, alg)].
Definition sign_string (T : tables) (typ m rs alg : str) : str :=
  urlencode_g (t_sign_tilde T) (ordered (sign_order T typ) (args0 typ m rs alg)).
Definition signed_query (T : tables) (k : keyid) (digest typ m rs alg : str) : query :=
  {| q_params := args0 typ m rs alg; q_sig := Some (SigOf (rsa_sign k digest (sign_string T typ m rs alg))) |}.

Lemma sign_produces T st typ m rs alg h o k :
  msg_typ typ -> mem_str alg (t_allowed T) = true -> sh_get st (fst h) = Some o -> handle_key T o h = Some k ->
  http_redirect_message T st typ m rs alg (Some h) = Ok (signed_query T k (so_digest o) typ m rs alg).
Proof.
  intros Ht Ha Hg Hk. unfold http_redirect_message, signer_sign. rewrite Ha, Hg, Hk.
  destruct Ht as [-> | ->]; reflexivity.
Qed.

(* whatever is returned as a signed query was signed with the key stored for the handle at that moment *)
Lemma sign_used_key T st typ m rs alg h q :
  http_redirect_message T st typ m rs alg (Some h) = Ok q ->
  exists o, sh_get st (fst h) = Some o /\ used_key (Ok q) = handle_key T o h /\ handle_key T o h <> None.
Proof.
  unfold http_redirect_message, signer_sign.
  destruct (str_eqb typ K_REQ || str_eqb typ K_RESP || str_eqb typ K_ART); [|discriminate].
  destruct (mem_str alg (t_allowed T)); [|discriminate].
  destruct (str_eqb typ K_REQ || str_eqb typ K_RESP); [|discriminate].
  destruct (sh_get st (fst h)) as [o|]; [|discriminate]. destruct (handle_key T o h) as [k|] eqn:E; [|discriminate].
  cbn [bind]. intros H. injection H as <-. exists o. cbn [used_key q_sig sg_key rsa_sign]. rewrite E. repeat split; discriminate.
Qed.

Lemma lookup_args0 typ m rs alg : msg_typ typ ->
  lookup typ (args0 typ m rs alg) = Some m /\
  lookup K_RS (args0 typ m rs alg) = (if is_nil rs then None else Some rs) /\
  lookup K_ALG (args0 typ m rs alg) = Some alg /\
  has K_REQ (args0 typ m rs alg) = str_eqb typ K_REQ /\
  has K_RESP (args0 typ m rs alg) = str_eqb typ K_RESP.
Proof.
  intros [-> | ->]; unfold args0, redirect_args, has; destruct rs; cbn; repeat split; reflexivity.
Qed.

(* ------------------------------------------------------------------ *)
(* E. verifying                                                       *)
(* ------------------------------------------------------------------ *)
(* get_signer on a supported algorithm: the handle's effective key is the requested one, the digest is the entry's *)
Lemma get_signer_entry T st e alg sk o : sh_get st alg = Some o ->
  exists st' o', get_signer T st e alg sk = (st', Some (alg, or_key sk e)) /\
                 sh_get st' alg = Some o' /\ so_digest o' = so_digest o /\
                 handle_key T o' (alg, or_key sk e) = or_key sk e.
Proof.
  intros Hg. unfold get_signer, handle_key. rewrite Hg. destruct (t_shared T).
  - eexists. eexists. split; [reflexivity|]. rewrite (sh_get_setkey_same st alg _ o Hg). repeat split.
  - exists st, o. repeat split. exact Hg.
Qed.

(* what a successful verification under an explicit certificate establishes *)
Lemma verify_true_inv T st e q c sk :
  verifies (verify_redirect_signature T st e q (Some c) sk) = true ->
  exists alg o order s,
    lookup K_ALG (q_params q) = Some alg /\ sh_get st alg = Some o /\
    verify_order T (q_params q) = Some order /\ q_sig q = Some (SigOf s) /\
    sg_key s = c /\ sg_digest s = so_digest o /\ sg_msg s = verify_string T order (q_params q).
Proof.
  unfold verifies, verify_redirect_signature.
  destruct (lookup K_ALG (q_params q)) as [alg|]; [|discriminate].
  destruct (sh_get st alg) as [o|] eqn:Eg; [|unfold get_signer; rewrite Eg; discriminate].
  destruct (get_signer_entry T st e alg sk o Eg) as (st' & o' & -> & Eg' & Ed & _).
  destruct (verify_order T (q_params q)) as [order|]; [|discriminate].
  destruct (q_sig q) as [[s|[|]]|]; try discriminate.
  cbn [fst]. rewrite Eg'. cbn [snd or_key]. rewrite Ed.
  destruct (rsa_verify c (so_digest o) (verify_string T order (q_params q)) s) eqn:V; [|discriminate].
  intros _. unfold rsa_verify in V. apply andb_true_iff in V as [V V3]. apply andb_true_iff in V as [V1 V2].
  apply N.eqb_eq in V1. apply str_eqb_eq in V2, V3.
  exists alg, o, order, s. repeat split; congruence.
Qed.

(* unsupported or missing algorithm: never verifies, whatever the certificate, key, state *)
Lemma verify_unsupported T st e q cert sk :
  (lookup K_ALG (q_params q) = None \/ exists a, lookup K_ALG (q_params q) = Some a /\ sh_get st a = None) ->
  verifies (verify_redirect_signature T st e q cert sk) = false.
Proof.
  unfold verifies, verify_redirect_signature. intros [H|[a [H1 H2]]].
  - now rewrite H.
  - rewrite H1. unfold get_signer. now rewrite H2.
Qed.

(* no Signature, or a Signature value nobody made: never verifies *)
Lemma verify_needs_signature T st e q cert sk :
  (forall s, q_sig q <> Some (SigOf s)) -> verifies (verify_redirect_signature T st e q cert sk) = false.
Proof.
  unfold verifies, verify_redirect_signature. intros H.
  destruct (lookup K_ALG (q_params q)) as [alg|]; [|reflexivity].
  destruct (get_signer T st e alg sk) as [st' [h|]]; [|reflexivity].
  destruct (verify_order T (q_params q)); [|reflexivity].
  destruct (q_sig q) as [[s|[|]]|]; try reflexivity. now destruct (H s).
Qed.

Section WithTables.
  Variable T : tables.
  Hypothesis HT : tables_ok T = true.

  Lemma tables_facts :
    t_sreq T = t_vreq T /\ t_sresp T = t_vresp T /\
    (In K_REQ (t_vreq T) /\ In K_RS (t_vreq T) /\ In K_ALG (t_vreq T) /\ ~ In K_RESP (t_vreq T) /\ Forall (fun s => Forall byte s /\ no_tilde s) (t_vreq T)) /\
    (In K_RESP (t_vresp T) /\ In K_RS (t_vresp T) /\ In K_ALG (t_vresp T) /\ ~ In K_REQ (t_vresp T) /\ Forall (fun s => Forall byte s /\ no_tilde s) (t_vresp T)).
  Proof.
    pose proof HT as H. unfold tables_ok in H.
    apply andb_true_iff in H as [H _]. apply andb_true_iff in H as [H _].
    apply andb_true_iff in H as [H Hd]. apply andb_true_iff in H as [H Hc]. apply andb_true_iff in H as [Ha Hb].
    assert (forall own other o, order_ok own other o = true ->
              In own o /\ In K_RS o /\ In K_ALG o /\ ~ In other o /\ Forall (fun s => Forall byte s /\ no_tilde s) o) as G.
    { intros own other o Ho. unfold order_ok in Ho.
      apply andb_true_iff in Ho as [Ho O5]. apply andb_true_iff in Ho as [Ho O4].
      apply andb_true_iff in Ho as [Ho O3]. apply andb_true_iff in Ho as [O1 O2].
      apply mem_str_In in O1, O2, O3. repeat split; try assumption.
      - intros Hin. apply mem_str_In in Hin. now rewrite Hin in O4.
      - rewrite Forall_forall. rewrite forallb_forall in O5. intros s Hs. now apply plain_spec, O5. }
    split; [now apply strs_eqb_eq|]. split; [now apply strs_eqb_eq|]. split; [exact (G _ _ _ Hc)|exact (G _ _ _ Hd)].
  Qed.

  Lemma supported_facts alg : In alg (map fst (t_algs T)) ->
    mem_str alg (t_allowed T) = true /\ Forall byte alg /\ no_tilde alg /\ alg <> [].
  Proof.
    pose proof HT as H. unfold tables_ok in H. apply andb_true_iff in H as [_ H].
    rewrite forallb_forall in H. rewrite in_map_iff. intros [r [<- Hr]]. specialize (H r Hr).
    apply andb_true_iff in H as [H H3]. apply andb_true_iff in H as [H1 H2]. apply plain_spec in H2 as [? ?].
    repeat split; try assumption. intros E. now rewrite E in H3.
  Qed.

  Lemma sign_order_in typ : msg_typ typ ->
    In typ (sign_order T typ) /\ In K_RS (sign_order T typ) /\ In K_ALG (sign_order T typ) /\
    Forall (fun s => Forall byte s /\ no_tilde s) (sign_order T typ).
  Proof.
    destruct tables_facts as (E1 & E2 & (A1 & A2 & A3 & _ & A5) & (B1 & B2 & B3 & _ & B5)).
    intros [-> | ->]; unfold sign_order; cbn [str_eqb]; [rewrite str_eqb_refl, E1|]; try now repeat split.
    replace (str_eqb K_RESP K_REQ) with false by reflexivity. rewrite E2. now repeat split.
  Qed.

  (* the order chosen by the verifier for a query *)
  Lemma verify_order_cases ps order : verify_order T ps = Some order ->
    (has K_REQ ps = true /\ order = t_vreq T) \/ (has K_REQ ps = false /\ has K_RESP ps = true /\ order = t_vresp T).
  Proof.
    unfold verify_order. destruct (has K_REQ ps); [intros H; injection H as <-; now left|].
    destruct (has K_RESP ps); [intros H; injection H as <-; now right|discriminate].
  Qed.

  Lemma args0_bytes typ m rs alg : msg_typ typ -> Forall byte m -> Forall byte rs -> Forall byte alg ->
    Forall bytes_pair (args0 typ m rs alg).
  Proof.
    intros Ht Hm Hr Ha. assert (Forall byte typ) as Hty.
    { destruct Ht as [-> | ->]; rewrite Forall_forall; intros c Hc; cbn in Hc; unfold byte; lia. }
    assert (Forall byte K_RS) as H1 by (rewrite Forall_forall; intros c Hc; cbn in Hc; unfold byte; lia).
    assert (Forall byte K_ALG) as H2 by (rewrite Forall_forall; intros c Hc; cbn in Hc; unfold byte; lia).
    unfold args0, redirect_args. destruct (is_nil rs); cbn [app]; repeat constructor; assumption.
  Qed.

  (* ---- (1a) a URL signed with key k verifies under certificate k, provided both sides encode alike ---- *)
  Definition encoders_agree (m rs : str) : Prop :=
    t_sign_tilde T = t_verify_tilde T \/ (no_tilde m /\ no_tilde rs).

  Lemma own_cert_verifies stv e sk k typ m rs alg ov :
    msg_typ typ -> In alg (map fst (t_algs T)) -> sh_get stv alg = Some ov ->
    encoders_agree m rs ->
    verifies (verify_redirect_signature T stv e (signed_query T k (so_digest ov) typ m rs alg) (Some k) sk) = true.
  Proof.
    intros Ht Hal Hg Henc.
    destruct (lookup_args0 typ m rs alg Ht) as (L1 & L2 & L3 & L4 & L5).
    destruct (supported_facts alg Hal) as (_ & _ & Hnt & _).
    destruct tables_facts as (E1 & E2 & _).
    unfold verifies, verify_redirect_signature, signed_query. cbn [q_params q_sig].
    rewrite L3. destruct (get_signer_entry T stv e alg sk ov Hg) as (st' & o' & -> & Eg' & Ed & _).
    assert (verify_order T (args0 typ m rs alg) = Some (sign_order T typ)) as ->.
    { unfold verify_order, sign_order. rewrite L4, L5. destruct Ht as [-> | ->].
      - now rewrite str_eqb_refl, E1.
      - replace (str_eqb K_RESP K_REQ) with false by reflexivity. now rewrite str_eqb_refl, E2. }
    cbn [fst]. rewrite Eg'. cbn [snd or_key]. rewrite Ed.
    unfold rsa_verify, rsa_sign. cbn [sg_key sg_digest sg_msg]. rewrite N.eqb_refl, str_eqb_refl. cbn [andb].
    assert (verify_string T (sign_order T typ) (args0 typ m rs alg) = sign_string T typ m rs alg) as ->; [|now rewrite str_eqb_refl].
    unfold verify_string, sign_string. destruct Henc as [->|[Hm Hr]]; [reflexivity|].
    apply urlencode_g_no_tilde. rewrite Forall_forall. intros [k0 v0] Hin. apply In_ordered in Hin as [Hk0 Hl].
    destruct (sign_order_in typ Ht) as (_ & _ & _ & Hord). rewrite Forall_forall in Hord.
    split; [now apply Hord|]. cbn [snd]. apply lookup_In in Hl. unfold args0, redirect_args in Hl.
    assert (no_tilde K_RS) by reflexivity.
    destruct (is_nil rs); cbn [app In] in Hl; repeat (destruct Hl as [Hl|Hl]; [injection Hl as <- <-; assumption|]); contradiction.
  Qed.

  (* ---- (1b,c) whatever verifies with that Signature value carries the signed parameters, under cert k ---- *)
  Lemma binds_query stv e sk k d typ m rs alg q' c :
    msg_typ typ -> Forall byte m -> Forall byte rs -> Forall byte alg ->
    Forall bytes_pair (q_params q') ->
    q_sig q' = q_sig (signed_query T k d typ m rs alg) ->
    verifies (verify_redirect_signature T stv e q' (Some c) sk) = true ->
    c = k /\
    lookup typ (q_params q') = Some m /\
    lookup K_RS (q_params q') = (if is_nil rs then None else Some rs) /\
    lookup K_ALG (q_params q') = Some alg /\
    has K_REQ (q_params q') = str_eqb typ K_REQ.
  Proof.
    intros Ht Hm Hr Ha Hq Hs Hv.
    apply verify_true_inv in Hv as (alg' & o & order & s & V1 & V2 & V3 & V4 & V5 & V6 & V7).
    rewrite Hs in V4. cbn [signed_query q_sig] in V4. injection V4 as <-. cbn [rsa_sign sg_key sg_msg] in *.
    split; [congruence|].
    unfold sign_string, verify_string in V7. apply urlencode_g_inj in V7;
      [| now apply ordered_bytes, args0_bytes | now apply ordered_bytes].
    symmetry in V7.
    destruct (lookup_args0 typ m rs alg Ht) as (L1 & L2 & L3 & L4 & L5).
    destruct (sign_order_in typ Ht) as (S1 & S2 & S3 & _).
    destruct tables_facts as (E1 & E2 & (A1 & A2 & A3 & A4 & _) & (B1 & B2 & B3 & B4 & _)).
    (* the message parameter itself is among the verifier's ordered parameters *)
    pose proof (ordered_In _ _ typ m S1 L1) as Hin. rewrite <- V7 in Hin. apply In_ordered in Hin as [Hto Hlt].
    assert (In K_RS order /\ In K_ALG order /\ has K_REQ (q_params q') = str_eqb typ K_REQ) as (O1 & O2 & O3).
    { apply verify_order_cases in V3 as [[Hh ->]|(Hh & Hh' & ->)].
      - repeat split; try assumption. destruct Ht as [-> | ->]; [now rewrite str_eqb_refl|contradiction].
      - repeat split; try assumption. destruct Ht as [-> | ->]; [contradiction|now rewrite Hh]. }
    repeat split.
    - exact Hlt.
    - transitivity (lookup K_RS (args0 typ m rs alg)); [|exact L2]. now apply (ordered_eq_lookup _ _ _ _ K_RS V7).
    - transitivity (lookup K_ALG (args0 typ m rs alg)); [|exact L3]. now apply (ordered_eq_lookup _ _ _ _ K_ALG V7).
    - exact O3.
  Qed.
End WithTables.

(* ------------------------------------------------------------------ *)
(* F. schedules                                                       *)
(* ------------------------------------------------------------------ *)
(* exact characterisation: a Sign step uses the key LAST STORED for its handle's algorithm by any entity *)
Lemma sign_uses_last_writer T st tr e typ m rs sigalg h q : t_shared T = true ->
  snd (step T (exec T st tr) (OSign e typ m rs sigalg (Some h))) = OutSigned (Ok q) ->
  exists o, sh_get st (fst h) = Some o /\
            used_key (Ok q) = match last_write (fst h) tr None with Some v => v | None => so_key o end.
Proof.
  intros SH. cbn [step snd]. intros H. injection H as H. apply sign_used_key in H as (o' & Hg & Hu & _).
  rewrite (exec_get T tr SH) in Hg. destruct (sh_get st (fst h)) as [o|]; [|discriminate]. injection Hg as <-.
  exists o. split; [reflexivity|]. rewrite Hu. unfold handle_key. now rewrite SH.
Qed.

(* own key, provided no step between obtaining the handle and signing stores another key for that algorithm *)
Lemma own_key_partial T st pre e a k0 mid typ m rs sigalg q : t_shared T = true ->
  Forall (keeps a e) mid ->
  snd (step T (exec T st (pre ++ OGet e a None :: mid)) (OSign e typ m rs sigalg (Some (a, k0)))) = OutSigned (Ok q) ->
  used_key (Ok q) = e.
Proof.
  intros SH Hmid H. apply (sign_uses_last_writer T _ _ _ _ _ _ _ _ _ SH) in H as (o & Hg & ->). cbn [fst].
  assert (forall tr1 tr2 cur, last_write a (tr1 ++ tr2) cur = last_write a tr2 (last_write a tr1 cur)) as Happ.
  { induction tr1 as [|x tr1 IH]; intros tr2 cur; [reflexivity|]. cbn [app last_write]. apply IH. }
  rewrite Happ. cbn [last_write writes or_key]. rewrite str_eqb_refl.
  destruct (last_write_keeps a e mid Hmid (Some e) (or_intror eq_refl)) as [E|E]; rewrite E.
  - (* cannot be None: it started from Some e *)
    exfalso. now apply (last_write_some a mid e).
  - reflexivity.
Qed.

(* fresh signer objects: the handle an entity obtained signs with the key it was asked for - the entity's own key
   for the ordinary call, the sigkey for a call with a sigkey - in ANY state, so whatever anybody (the entity itself
   included) did before or does in between, with or without a sigkey *)
Lemma handle_key_fresh T st0 e a sk h : t_shared T = false ->
  snd (step T st0 (OGet e a sk)) = OutHandle (Some h) ->
  forall st e' typ m rs sigalg q,
    snd (step T st (OSign e' typ m rs sigalg (Some h))) = OutSigned (Ok q) -> used_key (Ok q) = or_key sk e.
Proof.
  intros F Hget st e' typ m rs sigalg q H. cbn [step snd] in *.
  unfold get_signer in Hget. destruct (sh_get st0 a); cbn [snd] in Hget; [|discriminate].
  injection Hget as <-. injection H as H. apply sign_used_key in H as (o & _ & -> & _).
  unfold handle_key. now rewrite F.
Qed.

Lemma own_key_fresh T st0 e a h : t_shared T = false ->
  snd (step T st0 (OGet e a None)) = OutHandle (Some h) ->
  forall st typ m rs sigalg q,
    snd (step T st (OSign e typ m rs sigalg (Some h))) = OutSigned (Ok q) -> used_key (Ok q) = e.
Proof. intros F Hget st typ m rs sigalg q H. exact (handle_key_fresh T st0 e a None h F Hget st e typ m rs sigalg q H). Qed.

Lemma get_handle_shape T st e a sk h : snd (step T st (OGet e a sk)) = OutHandle (Some h) -> h = (a, or_key sk e).
Proof.
  cbn [step]. unfold get_signer. destruct (sh_get st a); cbn [snd]; [|discriminate]. intros H. now injection H as <-.
Qed.

(* ---- positions in ONE trace: the i-th output of a run is the step taken in the state after the first i steps ---- *)
Lemma run_nth T tr : forall st i o, nth_error tr i = Some o ->
  nth_error (run T st tr) i = Some (snd (step T (exec T st (firstn i tr)) o)).
Proof.
  induction tr as [|o0 tr IH]; intros st i o H; [destruct i; discriminate|].
  cbn [run]. destruct (step T st o0) as [st' x] eqn:E. destruct i as [|i].
  - cbn in H. injection H as <-. cbn [nth_error firstn exec]. now rewrite E.
  - cbn [nth_error firstn exec] in *. rewrite E. cbn [fst]. now apply IH.
Qed.

(* every Sign step of a trace made with the handle an EARLIER ordinary get_signer step of the same trace returned to
   entity e carries e's key, whatever the other steps of the trace are (sigkey calls of e itself included) *)
Lemma trace_signs_own T tr st i j e a h typ m rs sigalg q : t_shared T = false ->
  nth_error tr i = Some (OGet e a None) -> nth_error (run T st tr) i = Some (OutHandle (Some h)) ->
  nth_error tr j = Some (OSign e typ m rs sigalg (Some h)) -> nth_error (run T st tr) j = Some (OutSigned (Ok q)) ->
  used_key (Ok q) = e.
Proof.
  intros F Hi Ri Hj Rj.
  rewrite (run_nth T tr st i _ Hi) in Ri. rewrite (run_nth T tr st j _ Hj) in Rj.
  assert (snd (step T (exec T st (firstn i tr)) (OGet e a None)) = OutHandle (Some h)) as Ri' by congruence.
  assert (snd (step T (exec T st (firstn j tr)) (OSign e typ m rs sigalg (Some h))) = OutSigned (Ok q)) as Rj' by congruence.
  exact (own_key_fresh T _ e a h F Ri' _ typ m rs sigalg q Rj').
Qed.

(* ---- apply_binding = get_signer ; sign back to back: the caller's own key in EVERY state, for both kinds of tables ---- *)
Lemma apply_binding_own_key T st e resp m rs alg q :
  snd (apply_binding_redirect T st e resp m rs true (Some alg)) = Ok q -> q_sig q <> None -> used_key (Ok q) = e.
Proof.
  unfold apply_binding_redirect. destruct (is_nil alg).
  - cbn [snd]. unfold http_redirect_message.
    destruct (_ || _); [|discriminate]. intros H. injection H as <-. cbn [q_sig]. congruence.
  - destruct (sh_get st alg) as [o|] eqn:Eg.
    + destruct (get_signer_entry T st e alg None o Eg) as (st' & o' & -> & Eg' & _ & Hk). cbn [snd or_key] in *.
      intros H _. apply sign_used_key in H as (o'' & Hg & -> & _). cbn [fst] in Hg. rewrite Eg' in Hg. injection Hg as <-. exact Hk.
    + unfold get_signer. rewrite Eg. cbn [snd]. unfold http_redirect_message.
      destruct (_ || _); [|discriminate]. intros H. injection H as <-. cbn [q_sig]. congruence.
Qed.

(* ---- scripts (what the schedule unit compares with the real objects): every ordinary Sign / apply_binding step
   of every script shows the acting entity's own key, nothing signed, or an exception.  Induction over the script;
   the invariant says every ordinary handle an entity holds was made from that entity's key. ---- *)
Definition held_ok (held : held_t) : Prop :=
  forall e a h, held_handle e a false held = Some h -> snd h = Some e.

Lemma show_signed_own T st e typ m rs alg oh :
  t_shared T = false -> (forall h, oh = Some h -> snd h = Some e) ->
  let v := show_out (OutSigned (http_redirect_message T st typ m rs alg oh)) in
  v = VL [VZ 1%Z; VZ (Z.of_N e)] \/ v = VL [VZ 1%Z; VNone] \/ exists err, v = VL [VZ 1%Z; VE err].
Proof.
  intros F Hoh. cbn [show_out]. destruct (http_redirect_message T st typ m rs alg oh) as [q|err] eqn:E.
  - destruct oh as [h|].
    + apply sign_used_key in E as (o & _ & -> & _). unfold handle_key. rewrite F, (Hoh h eq_refl). left. reflexivity.
    + right. left. unfold http_redirect_message in E. destruct (_ || _); [|discriminate]. now injection E as <-.
  - right. right. now exists err.
Qed.

Lemma script_own T : t_shared T = false ->
  forall s st made held, held_ok held -> Forall2 own_step s (run_script T st made held s).
Proof.
  intros F. induction s as [|x s IH]; intros st made held Hh; [constructor|].
  destruct x as [e alg|e alg k|e resp m rs alg|e resp m rs alg|e resp m rs alg|e alg cert sk]; cbn [run_script].
  - destruct (step T st (OGet (Some e) alg None)) as [st' x] eqn:E. constructor; [exact I|]. apply IH.
    intros e0 a0 h0. cbn [held_handle]. destruct ((e0 =? e) && str_eqb a0 alg && Bool.eqb false false) eqn:C; [|apply Hh].
    intros Hx. apply andb_true_iff in C as [C _]. apply andb_true_iff in C as [C _]. apply N.eqb_eq in C. subst e0.
    assert (snd (step T st (OGet (Some e) alg None)) = OutHandle (Some h0)) as G.
    { rewrite E. cbn [snd]. destruct x; cbn [out_handle] in Hx; try discriminate. now subst. }
    apply get_handle_shape in G. now subst h0.
  - destruct (step T st (OGet (Some e) alg (Some k))) as [st' x] eqn:E. constructor; [exact I|]. apply IH.
    intros e0 a0 h0. cbn [held_handle]. rewrite andb_false_r. apply Hh.
  - cbn [step]. constructor; [|now apply IH].
    apply (show_signed_own T st e _ m rs alg _ F). intros h. apply Hh.
  - cbn [step]. constructor; [exact I|now apply IH].
  - destruct (step T st (OGet (Some e) alg None)) as [st1 x1] eqn:E. cbn [step]. constructor; [|now apply IH].
    apply (show_signed_own T st1 e _ m rs alg _ F). intros h Hx.
    assert (snd (step T st (OGet (Some e) alg None)) = OutHandle (Some h)) as G.
    { rewrite E. cbn [snd]. destruct x1; cbn [out_handle] in Hx; try discriminate. now subst. }
    apply get_handle_shape in G. now subst h.
  - destruct (step T st (OVerify (Some e) (find_query alg made) cert sk)) as [st' x] eqn:E. constructor; [exact I|now apply IH].
Qed.

(* no step adds or removes an algorithm *)
Lemma exec_domain T tr : forall st a, sh_get (exec T st tr) a = None <-> sh_get st a = None.
Proof.
  induction tr as [|o tr IH]; intros st a; [reflexivity|]. cbn [exec]. rewrite IH, step_state.
  destruct (t_shared T); [|reflexivity]. rewrite apply_write_get. destruct (sh_get st a); split; congruence.
Qed.
