(* Proofs/Interleave_lemmas.v — a call whose files nobody else writes to observes exactly what it observes alone,
   in every interleaving and for any number of other calls; with one shared path it does not. *)
From PV Require Import Lib.Base Model.Interleave.
Open Scope N_scope.

Lemma fs_get_put_same f p d : fs_get (fs_put f p d) p = Some d.
Proof. unfold fs_put; cbn. now rewrite N.eqb_refl. Qed.

Lemma fs_get_put_other f p q d : q <> p -> fs_get (fs_put f q d) p = fs_get f p.
Proof.
  intros H; unfold fs_put; cbn. destruct (N.eqb q p) eqn:E; [apply N.eqb_eq in E; contradiction|reflexivity].
Qed.

Definition agree (P : list N) (f1 f2 : fs) := forall p, In p P -> fs_get f1 p = fs_get f2 p.

Lemma agree_put_both P f1 f2 p d : agree P f1 f2 -> agree P (fs_put f1 p d) (fs_put f2 p d).
Proof. intros H q Hq. unfold fs_put; cbn. destruct (N.eqb p q); [reflexivity|now apply H]. Qed.

Lemma agree_put_left P f1 f2 p d : agree P f1 f2 -> ~ In p P -> agree P (fs_put f1 p d) f2.
Proof. intros H Hn q Hq. rewrite fs_get_put_other; [now apply H|]. intros ->. contradiction. Qed.

Lemma only_in c e es : ev_caller e = c -> only c (e :: es) = e :: only c es.
Proof. intros H. unfold only; cbn. now rewrite H, N.eqb_refl. Qed.

Lemma only_out c e es : ev_caller e <> c -> only c (e :: es) = only c es.
Proof. intros H. unfold only; cbn. apply N.eqb_neq in H. now rewrite H. Qed.

Lemma proj_in c o obs : proj c ((c, o) :: obs) = (c, o) :: proj c obs.
Proof. unfold proj; cbn. now rewrite N.eqb_refl. Qed.

Lemma proj_out c c' o obs : c' <> c -> proj c ((c', o) :: obs) = proj c obs.
Proof. intros H. unfold proj; cbn. apply N.eqb_neq in H. now rewrite H. Qed.

Lemma exec_agree : forall tool c P es f1 f2,
  agree P f1 f2 ->
  (forall e, In e es -> ev_caller e = c -> forall p, In p (touches e) -> In p P) ->
  (forall e, In e es -> ev_caller e <> c -> forall p, In p (writes e) -> ~ In p P) ->
  proj c (exec tool f1 es) = exec tool f2 (only c es).
Proof.
  intros tool c P es. induction es as [|e es IH]; intros f1 f2 Ha Hown Hoth; [reflexivity|].
  assert (Hown' : forall e0, In e0 es -> ev_caller e0 = c -> forall p, In p (touches e0) -> In p P)
    by (intros e0 Hi; apply Hown; now right).
  assert (Hoth' : forall e0, In e0 es -> ev_caller e0 <> c -> forall p, In p (writes e0) -> ~ In p P)
    by (intros e0 Hi; apply Hoth; now right).
  destruct (N.eq_dec (ev_caller e) c) as [E|E].
  - rewrite (only_in c e es E).
    assert (Ht : forall p, In p (touches e) -> In p P) by (apply Hown; [now left|exact E]).
    destruct e as [c0 p d|c0 k p o|c0 o]; cbn in E; subst c0; cbn [exec].
    + apply IH; auto. now apply agree_put_both.
    + rewrite proj_in. assert (Hg : fs_get f1 p = fs_get f2 p) by (apply Ha, Ht; cbn; now left).
      rewrite Hg. f_equal. apply IH; auto. now apply agree_put_both.
    + rewrite proj_in. assert (Hg : fs_get f1 o = fs_get f2 o) by (apply Ha, Ht; cbn; now left).
      rewrite Hg. f_equal. apply IH; auto.
  - rewrite (only_out c e es E).
    assert (Hw : forall p, In p (writes e) -> ~ In p P) by (apply Hoth; [now left|exact E]).
    destruct e as [c0 p d|c0 k p o|c0 o]; cbn in E; cbn [exec].
    + apply IH; auto. apply agree_put_left; [exact Ha|apply Hw; cbn; now left].
    + rewrite proj_out by exact E. apply IH; auto. apply agree_put_left; [exact Ha|apply Hw; cbn; now left].
    + rewrite proj_out by exact E. apply IH; auto.
Qed.

Lemma in_only c e es : In e (only c es) -> In e es /\ ev_caller e = c.
Proof. unfold only. rewrite filter_In. intros [H1 H2]. split; [exact H1|now apply N.eqb_eq]. Qed.

(* any number of callers, any interleaving: the call observes what its own steps observe alone *)
Lemma own_document : forall tool es f c, isolated c es -> proj c (exec tool f es) = exec tool f (only c es).
Proof.
  intros tool es f c Hiso. apply (exec_agree tool c (flat_map touches (only c es))).
  - intros p _. reflexivity.
  - intros e Hi Hc p Hp. apply in_flat_map. exists e. split; [|exact Hp].
    unfold only. apply filter_In. split; [exact Hi|now apply N.eqb_eq].
  - exact Hiso.
Qed.

Lemma exec_alone : forall tool c us f, exec tool f (call_events c us) = alone tool c us.
Proof.
  intros tool c us. induction us as [|[[[k p] o] d] us IH]; intros f; [reflexivity|].
  unfold call_events, alone in *. cbn [flat_map use_events app exec].
  rewrite fs_get_put_same. rewrite fs_get_put_same. cbn [app]. f_equal. f_equal. apply IH.
Qed.

Lemma call_events_caller c us e : In e (call_events c us) -> ev_caller e = c.
Proof.
  unfold call_events. rewrite in_flat_map. intros ([[[k p] o] d] & _ & H). cbn in H.
  destruct H as [<-|[<-|[<-|[]]]]; reflexivity.
Qed.

Lemma call_events_touches c us e q : In e (call_events c us) -> In q (touches e) -> In q (paths us).
Proof.
  unfold call_events, paths. rewrite in_flat_map. intros ([[[k p] o] d] & Hu & H) Hq. apply in_flat_map.
  exists (k, p, o, d). split; [exact Hu|]. cbn in H. cbn.
  destruct H as [<-|[<-|[<-|[]]]]; cbn in Hq; intuition.
Qed.

Lemma writes_touches e q : In q (writes e) -> In q (touches e).
Proof. destruct e; cbn; intuition. Qed.

Lemma merge_in {A} (l1 l2 l : list A) : merge l1 l2 l -> forall x, In x l -> In x l1 \/ In x l2.
Proof.
  induction 1 as [|a l1 l2 l _ IH|a l1 l2 l _ IH]; intros x Hx; [destruct Hx| |];
    (destruct Hx as [<-|Hx]; [cbn; auto|destruct (IH x Hx); cbn; auto]).
Qed.

Lemma merge_only_l c l1 l2 l : merge l1 l2 l ->
  (forall e, In e l1 -> ev_caller e = c) -> (forall e, In e l2 -> ev_caller e <> c) -> only c l = l1.
Proof.
  induction 1 as [|a l1 l2 l _ IH|a l1 l2 l _ IH]; intros H1 H2; [reflexivity| |].
  - rewrite only_in by (apply H1; now left). f_equal. apply IH; [intros e He; apply H1; now right|exact H2].
  - rewrite only_out by (apply H2; now left). apply IH; [exact H1|intros e He; apply H2; now right].
Qed.

Lemma merge_sym {A} (l1 l2 l : list A) : merge l1 l2 l -> merge l2 l1 l.
Proof. induction 1; constructor; assumption. Qed.

Definition disjoint (P Q : list N) := forall p, In p P -> ~ In p Q.

Lemma merge_left_own : forall tool f a b ua ub es,
  a <> b -> disjoint (paths ua) (paths ub) -> merge (call_events a ua) (call_events b ub) es ->
  proj a (exec tool f es) = alone tool a ua.
Proof.
  intros tool f a b ua ub es Hab Hd Hm.
  assert (Ho : only a es = call_events a ua).
  { apply (merge_only_l a _ _ _ Hm); [apply call_events_caller|].
    intros e He. rewrite (call_events_caller b ub e He). intros ->. now apply Hab. }
  rewrite own_document; [rewrite Ho; apply exec_alone|].
  intros e Hi Hc p Hp Hin. rewrite Ho in Hin. apply in_flat_map in Hin. destruct Hin as (e' & He' & Hq).
  destruct (merge_in _ _ _ Hm e Hi) as [H|H]; [apply Hc; now apply (call_events_caller a ua)|].
  apply (Hd p); [now apply (call_events_touches a ua e')|].
  apply (call_events_touches b ub e); [exact H|now apply writes_touches].
Qed.

Lemma two_calls : forall tool f a b ua ub es,
  a <> b -> disjoint (paths ua) (paths ub) -> merge (call_events a ua) (call_events b ub) es ->
  proj a (exec tool f es) = alone tool a ua /\ proj b (exec tool f es) = alone tool b ub.
Proof.
  intros tool f a b ua ub es Hab Hd Hm. split; [now apply (merge_left_own tool f a b ua ub)|].
  apply (merge_left_own tool f b a ub ua); [intros ->; now apply Hab| |now apply merge_sym].
  intros p Hp Hq. now apply (Hd p).
Qed.

(* any number of calls, any interleaving (es is arbitrary): if the steps of caller c in es are the steps of its call,
   and nobody else writes to one of the call's files, the call observes what it observes alone *)
Lemma any_calls : forall tool f es c us,
  only c es = call_events c us ->
  (forall e, In e es -> ev_caller e <> c -> forall p, In p (writes e) -> ~ In p (paths us)) ->
  proj c (exec tool f es) = alone tool c us.
Proof.
  intros tool f es c us Ho Hiso. rewrite own_document; [rewrite Ho; apply exec_alone|].
  intros e Hi Hc p Hp Hin. rewrite Ho in Hin. apply in_flat_map in Hin. destruct Hin as (e' & He' & Hq).
  apply (Hiso e Hi Hc p Hp). now apply (call_events_touches c us e').
Qed.

Lemma merge_only_gen x l1 l2 l : merge l1 l2 l -> (forall e, In e l2 -> ev_caller e <> x) -> only x l = only x l1.
Proof.
  induction 1 as [|a l1 l2 l _ IH|a l1 l2 l _ IH]; intros H2; [reflexivity| |].
  - destruct (N.eq_dec (ev_caller a) x) as [E|E].
    + rewrite !only_in by exact E. f_equal. now apply IH.
    + rewrite !only_out by exact E. now apply IH.
  - rewrite only_out by (apply H2; now left). apply IH. intros e He. apply H2. now right.
Qed.

(* three calls: the third one interleaved with any interleaving of the first two *)
Lemma three_calls : forall tool f a b c ua ub uc es1 es,
  a <> b -> a <> c -> b <> c ->
  disjoint (paths ua) (paths ub) -> disjoint (paths ua) (paths uc) -> disjoint (paths ub) (paths uc) ->
  merge (call_events a ua) (call_events b ub) es1 -> merge es1 (call_events c uc) es ->
  proj a (exec tool f es) = alone tool a ua /\ proj b (exec tool f es) = alone tool b ub /\
  proj c (exec tool f es) = alone tool c uc.
Proof.
  intros tool f a b c ua ub uc es1 es Hab Hac Hbc Dab Dac Dbc M1 M2.
  assert (C : forall e, In e es -> In e (call_events a ua) \/ In e (call_events b ub) \/ In e (call_events c uc)).
  { intros e He. destruct (merge_in _ _ _ M2 e He) as [H|H]; [|auto].
    destruct (merge_in _ _ _ M1 e H); auto. }
  assert (Ca : forall e, In e (call_events a ua) -> ev_caller e = a) by apply call_events_caller.
  assert (Cb : forall e, In e (call_events b ub) -> ev_caller e = b) by apply call_events_caller.
  assert (Cc : forall e, In e (call_events c uc) -> ev_caller e = c) by apply call_events_caller.
  assert (W : forall x us e p, In e (call_events x us) -> In p (writes e) -> In p (paths us))
    by (intros x us e p He Hp; apply (call_events_touches x us e); [exact He|now apply writes_touches]).
  repeat split.
  - apply any_calls.
    + rewrite (merge_only_gen a _ _ _ M2) by (intros e He; rewrite (Cc e He); intros E; now apply Hac).
      apply (merge_only_l a _ _ _ M1); [exact Ca|intros e He; rewrite (Cb e He); intros E; now apply Hab].
    + intros e Hi Hc p Hp Hin. destruct (C e Hi) as [H|[H|H]].
      * now apply Hc, Ca.
      * apply (Dab p Hin). now apply (W b ub e).
      * apply (Dac p Hin). now apply (W c uc e).
  - apply any_calls.
    + rewrite (merge_only_gen b _ _ _ M2) by (intros e He; rewrite (Cc e He); exact (fun E => Hbc (eq_sym E))).
      apply (merge_only_l b _ _ _ (merge_sym _ _ _ M1)); [exact Cb|intros e He; rewrite (Ca e He); exact Hab].
    + intros e Hi Hc p Hp Hin. destruct (C e Hi) as [H|[H|H]].
      * apply (Dab p); [now apply (W a ua e)|exact Hin].
      * now apply Hc, Cb.
      * apply (Dbc p Hin). now apply (W c uc e).
  - apply any_calls.
    + apply (merge_only_l c _ _ _ (merge_sym _ _ _ M2)); [exact Cc|].
      intros e He. destruct (merge_in _ _ _ M1 e He) as [H|H]; [rewrite (Ca e H); exact Hac|rewrite (Cb e H); exact Hbc].
    + intros e Hi Hc p Hp Hin. destruct (C e Hi) as [H|[H|H]].
      * apply (Dac p); [now apply (W a ua e)|exact Hin].
      * apply (Dbc p); [now apply (W b ub e)|exact Hin].
      * now apply Hc, Cc.
Qed.

(* ONE shared scratch path: there is an interleaving in which call 0 (a text the tool refuses) is judged on the text of
   call 1 (a text the tool accepts) *)
Definition shared_a : list use := [(0, 7, 8, 1)].
Definition shared_b : list use := [(0, 7, 9, 2)].
Definition shared_es : list ev := [Write 0 7 1; Write 1 7 2; Run 0 0 7 8; Read 0 8; Run 1 0 7 9; Read 1 9].
Definition ok_only_2 (d : N) : bool := N.eqb d 2 || N.eqb d 12.
Definition tool10 (k : N) (seen : option N) : N := match seen with Some d => d + 10 + 100 * k | None => 0 end.

Lemma shared_path_refuted :
  merge (call_events 0 shared_a) (call_events 1 shared_b) shared_es /\
  call_verdict ok_only_2 (alone tool10 0 shared_a) = false /\
  call_verdict ok_only_2 (proj 0 (exec tool10 [] shared_es)) = true /\
  proj 0 (exec tool10 [] shared_es) = map (fun o => (0, snd o)) (alone tool10 1 shared_b).
Proof.
  split; [|vm_compute; auto].
  cbn. apply merge_l, merge_r, merge_l, merge_l, merge_r, merge_r, merge_nil.
Qed.

(* the same with one shared OUTPUT file: the inputs are separate, the answer read by call 0 is the answer to call 1 *)
Definition shared_out_es : list ev := [Write 0 5 1; Write 1 6 2; Run 0 1 5 8; Run 1 1 6 8; Read 0 8; Read 1 8].
Lemma shared_output_refuted :
  merge (call_events 0 [(1, 5, 8, 1)]) (call_events 1 [(1, 6, 8, 2)]) shared_out_es /\
  proj 0 (exec tool10 [] shared_out_es) = [(0, Some 1); (0, Some 112)] /\
  alone tool10 0 [(1, 5, 8, 1)] = [(0, Some 1); (0, Some 111)].
Proof.
  split; [|vm_compute; auto].
  cbn. apply merge_l, merge_r, merge_l, merge_r, merge_l, merge_r, merge_nil.
Qed.
