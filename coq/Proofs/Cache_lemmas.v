(* Proofs/Cache_lemmas.v — the SP session cache model refines its functional
   specification; get_identity is characterised; isolation; delete; reads. *)
From PV Require Import Lib.Base Model.Codec Model.Cache.
Open Scope N_scope.

(* ---------- association lists ---------- *)
Section AlistFacts.
  Context {V : Type}.
  Implicit Types l : list (str * V).

  Lemma alookup_aset_same k (v : V) l : alookup k (aset k v l) = Some v.
  Proof.
    induction l as [|[k' v'] l IH]; cbn [aset alookup].
    - now rewrite str_eqb_refl.
    - destruct (str_eqb k k') eqn:E; cbn [alookup]; rewrite E; [reflexivity|exact IH].
  Qed.

  Lemma alookup_aset_other k k' (v : V) l : k' <> k -> alookup k' (aset k v l) = alookup k' l.
  Proof.
    intros Hne. assert (str_eqb k' k = false) as Hb by now apply str_eqb_neq.
    induction l as [|[k0 v0] l IH]; cbn [aset alookup].
    - now rewrite Hb.
    - destruct (str_eqb k k0) eqn:E; cbn [alookup].
      + apply str_eqb_eq in E. subst k0. now rewrite Hb.
      + now rewrite IH.
  Qed.

  Lemma alookup_adel_same k l : alookup k (adel k l) = None.
  Proof.
    unfold adel. induction l as [|[k' v'] l IH]; cbn [filter alookup fst]; [reflexivity|].
    destruct (str_eqb k k') eqn:E; cbn [negb alookup]; [exact IH|now rewrite E].
  Qed.

  Lemma alookup_adel_other k k' l : k' <> k -> alookup k' (adel k l) = alookup k' l.
  Proof.
    intros Hne. unfold adel. induction l as [|[k0 v0] l IH]; cbn [filter alookup fst]; [reflexivity|].
    destruct (str_eqb k k0) eqn:E; cbn [negb alookup].
    - apply str_eqb_eq in E. subst k0. apply str_eqb_neq in Hne. now rewrite Hne.
    - now rewrite IH.
  Qed.

  Lemma alookup_some_in k l (v : V) : alookup k l = Some v -> In k (map fst l).
  Proof.
    induction l as [|[k' v'] l IH]; cbn [alookup map fst]; [discriminate|].
    destruct (str_eqb_spec k k') as [->|Hn]; [now left|]. intros H. right. now apply IH.
  Qed.

  Lemma alookup_in_some k l : In k (map fst l) -> exists v, alookup k l = Some v.
  Proof.
    induction l as [|[k' v'] l IH]; cbn [alookup map fst]; [intros []|].
    destruct (str_eqb_spec k k') as [->|Hn]; [intros _; now exists v'|].
    intros [H|H]; [congruence|now apply IH].
  Qed.

  Lemma alookup_none_notin k l : alookup k l = None -> ~ In k (map fst l).
  Proof. intros H Hin. apply alookup_in_some in Hin as [v Hv]. congruence. Qed.

  Lemma alookup_app k l (kv : str * V) :
    alookup k (l ++ [kv]) =
    match alookup k l with
    | Some v => Some v
    | None => if str_eqb k (fst kv) then Some (snd kv) else None
    end.
  Proof.
    induction l as [|[k' v'] l IH]; cbn [app alookup].
    - now destruct kv.
    - destruct (str_eqb k k'); [reflexivity|exact IH].
  Qed.
End AlistFacts.

(* ---------- running histories ---------- *)
Lemma final_cons s now o r : final s ((now, o) :: r) = final (fst (step now s o)) r.
Proof.
  unfold final. cbn [run]. destruct (step now s o) as [s1 x]. cbn [fst].
  destruct (run s1 r) as [s2 xs]. reflexivity.
Qed.

Lemma final_nil s : final s [] = s.
Proof. reflexivity. Qed.

(* ---------- (4) queries return the state they were given ---------- *)
Lemma read_keeps_state now s o : is_read o = true -> fst (step now s o) = s.
Proof. destruct o; cbn [is_read step fst]; intros H; try discriminate; try reflexivity. Qed.

Lemma delete_unknown_keeps_state now s n :
  alookup (code n) s = None -> step now s (ODelete n) = (s, RExn KeyError).
Proof. intros H. cbn [step]. now rewrite H. Qed.

(* ---------- (1a) every step commutes with the specification ---------- *)
Lemma entry_of_do_set s k0 e0 ent k e :
  entry_of (do_set s k0 e0 ent) k e = upd (entry_of s) k0 e0 ent k e.
Proof.
  unfold do_set, upd, entry_of.
  destruct (str_eqb_spec k k0) as [->|Hk]; cbn [andb].
  - rewrite alookup_aset_same.
    destruct (str_eqb_spec e e0) as [->|He].
    + now rewrite alookup_aset_same.
    + rewrite (alookup_aset_other e0 e ent _ He). now destruct (alookup k0 s).
  - now rewrite (alookup_aset_other k0 k _ s Hk).
Qed.

Lemma step_refines now s o k e :
  entry_of (fst (step now s o)) k e = spec_step (entry_of s) o k e.
Proof.
  destruct o; cbn [step spec_step fst]; try reflexivity.
  - apply entry_of_do_set.
  - apply entry_of_do_set.
  - destruct (alookup (code n) s) eqn:E; cbn [fst].
    + unfold entry_of. destruct (str_eqb_spec k (code n)) as [->|Hk].
      * now rewrite alookup_adel_same.
      * now rewrite (alookup_adel_other (code n) k s Hk).
    + unfold entry_of. destruct (str_eqb_spec k (code n)) as [->|Hk]; [now rewrite E|reflexivity].
Qed.

Lemma run_refines h : forall s (f : aspec),
  (forall k e, entry_of s k e = f k e) ->
  forall k e, entry_of (final s h) k e = fold_left (fun f no => spec_step f (snd no)) h f k e.
Proof.
  induction h as [|[now o] r IH]; intros s f Hsf k e; [exact (Hsf k e)|].
  rewrite final_cons. cbn [fold_left snd]. apply IH. intros k' e'.
  rewrite step_refines.
  destruct o; cbn [spec_step]; try apply Hsf.
  - unfold upd. now rewrite Hsf.
  - unfold upd. now rewrite Hsf.
  - now rewrite Hsf.
Qed.

Theorem history_refines_spec h k e : entry_of (final init h) k e = spec_of h k e.
Proof. unfold spec_of. apply run_refines. reflexivity. Qed.

(* ---------- (1b) what get / get_identity return, in terms of the stored entries ---------- *)
Lemma get_char now s k e check :
  match get now s k e check with
  | GKeyError => entry_of s k e = None
  | GValueError => True
  | GOld | GNone => exists ent, entry_of s k e = Some ent /\ contributes now check ent = false
  | GInfo io => exists ts i, entry_of s k e = Some (ts, i) /\ contributes now check (ts, i) = true /\
                             o_ava io = i_ava i /\ o_other io = i_other i
  end.
Proof.
  unfold get, entry_of. destruct (alookup k s) as [srcs|]; [|reflexivity].
  destruct (alookup e srcs) as [[ts i]|]; [|reflexivity].
  destruct (check && t_after now ts) eqn:Ec.
  - exists (ts, i). unfold contributes. cbn [fst snd]. now rewrite Ec.
  - destruct (i_nid i) as [c|] eqn:En.
    + destruct (decode c) as [n|x]; [|exact I].
      exists ts, i. unfold contributes. cbn [o_ava o_other fst snd]. rewrite Ec. cbn [negb andb].
      unfold info_empty. rewrite En. now destruct (i_ava i).
    + destruct (info_empty i) eqn:Ei.
      * exists (ts, i). unfold contributes. cbn [fst snd]. now rewrite Ec, Ei.
      * exists ts, i. unfold contributes. cbn [o_ava o_other fst snd]. now rewrite Ec, Ei.
Qed.

Lemma dedup_In v l : In v (dedup l) <-> In v l.
Proof.
  unfold dedup.
  assert (forall acc, In v (fold_left (fun acc x => if mem_str x acc then acc else acc ++ [x]) l acc) <-> In v acc \/ In v l) as G.
  { induction l as [|x l IH]; intros acc; cbn [fold_left].
    - cbn [In]. tauto.
    - rewrite IH. cbn [In]. destruct (mem_str x acc) eqn:E.
      + apply mem_str_In in E. split; [tauto|]. intros [H|[H|H]]; [tauto| |tauto]. subst x. tauto.
      + rewrite in_app_iff. cbn [In]. tauto. }
  rewrite G. cbn [In]. tauto.
Qed.

Lemma has_val_merge_one a v res k vals :
  has_val a v (merge_one res (k, vals)) <-> has_val a v res \/ (a = k /\ In v vals).
Proof.
  unfold merge_one, has_val. cbn [fst snd].
  destruct (alookup k res) as [old|] eqn:Ek.
  - destruct (str_eqb_spec a k) as [->|Hak].
    + rewrite alookup_aset_same. rewrite Ek. split.
      * intros [l [Hl Hv]]. inversion Hl; subst l. apply (proj1 (dedup_In _ _)) in Hv. apply in_app_iff in Hv as [Hv|Hv].
        -- left. now exists old.
        -- now right.
      * intros [[l [Hl Hv]]|[_ Hv]]; eexists; (split; [reflexivity|]); apply (proj2 (dedup_In _ _)); apply in_app_iff.
        -- inversion Hl; subst l. now left.
        -- now right.
    + rewrite (alookup_aset_other k a _ res Hak). split; [tauto|]. intros [H|[H _]]; [exact H|congruence].
  - rewrite alookup_app. cbn [fst snd].
    destruct (alookup a res) as [l0|] eqn:Ea.
    + split; [tauto|]. intros [H|[-> _]]; [exact H|congruence].
    + destruct (str_eqb_spec a k) as [->|Hak].
      * split.
        -- intros [l [Hl Hv]]. inversion Hl; subst l. now right.
        -- intros [[l [Hl _]]|[_ Hv]]; [discriminate|]. now exists vals.
      * split; [tauto|]. intros [H|[H _]]; [exact H|congruence].
Qed.

Lemma has_val_merge_ava a v av : forall res,
  has_val a v (merge_ava res av) <-> has_val a v res \/ exists vals, In (a, vals) av /\ In v vals.
Proof.
  unfold merge_ava. induction av as [|[k vals] av IH]; intros res; cbn [fold_left].
  - split; [tauto|]. intros [H|[vals [[] _]]]. exact H.
  - rewrite IH, has_val_merge_one. cbn [In]. split.
    + intros [[H|[-> Hv]]|[vals' [Hin Hv]]].
      * now left.
      * right. exists vals. split; [now left|exact Hv].
      * right. exists vals'. split; [now right|exact Hv].
    + intros [H|[vals' [[Heq|Hin] Hv]]].
      * left. now left.
      * inversion Heq; subst. left. right. now split.
      * right. now exists vals'.
Qed.

(* the valid sources among [ents] that hold value v under attribute a *)
Definition source_gives (now : Z) (check : bool) (f : str -> option entry) (ents : list str) (a v : str) : Prop :=
  exists e ts i av vals, In e ents /\ f e = Some (ts, i) /\ contributes now check (ts, i) = true /\
                         i_ava i = Some av /\ In (a, vals) av /\ In v vals.
Definition source_stale (now : Z) (check : bool) (f : str -> option entry) (ents : list str) (e : str) : Prop :=
  In e ents /\ exists ent, f e = Some ent /\ contributes now check ent = false.

Lemma gi_loop_char now s k check ents : forall res old res' old',
  gi_loop now s k check ents res old = Ok (res', old') ->
  (forall e, In e old' <-> In e old \/ source_stale now check (entry_of s k) ents e) /\
  (forall a v, has_val a v res' <-> has_val a v res \/ source_gives now check (entry_of s k) ents a v).
Proof.
  induction ents as [|e0 rest IH]; intros res old res' old' H; cbn [gi_loop] in H.
  - inversion H; subst. split.
    + intros e. split; [tauto|]. intros [Ho|[[] _]]. exact Ho.
    + intros a v. split; [tauto|]. intros [Hr|(e & ts & i & av & vals & [] & _)]. exact Hr.
  - pose proof (get_char now s k e0 check) as G.
    destruct (get now s k e0 check) as [| | | |io] eqn:Eg; try discriminate.
    + (* GOld *) destruct G as [ent [Hent Hc]]. apply IH in H as [Ho Hr]. split.
      * intros e. rewrite Ho, in_app_iff. cbn [In]. unfold source_stale. cbn [In]. split.
        -- intros [[Hin|[<-|[]]]|[Hin Hx]]; [tauto| |tauto]. right. split; [now left|now exists ent].
        -- intros [Hin|[[<-|Hin] Hx]]; tauto.
      * intros a v. rewrite Hr. unfold source_gives. split.
        -- intros [Hv|(e & ts & i & av & vals & Hin & Hx)]; [tauto|]. right. exists e, ts, i, av, vals. cbn [In]. tauto.
        -- intros [Hv|(e & ts & i & av & vals & [<-|Hin] & He & Hc' & Hx)]; [tauto| |].
           ++ rewrite Hent in He. inversion He; subst ent. congruence.
           ++ right. exists e, ts, i, av, vals. tauto.
    + (* GNone *) destruct G as [ent [Hent Hc]]. apply IH in H as [Ho Hr]. split.
      * intros e. rewrite Ho, in_app_iff. cbn [In]. unfold source_stale. cbn [In]. split.
        -- intros [[Hin|[<-|[]]]|[Hin Hx]]; [tauto| |tauto]. right. split; [now left|now exists ent].
        -- intros [Hin|[[<-|Hin] Hx]]; tauto.
      * intros a v. rewrite Hr. unfold source_gives. split.
        -- intros [Hv|(e & ts & i & av & vals & Hin & Hx)]; [tauto|]. right. exists e, ts, i, av, vals. cbn [In]. tauto.
        -- intros [Hv|(e & ts & i & av & vals & [<-|Hin] & He & Hc' & Hx)]; [tauto| |].
           ++ rewrite Hent in He. inversion He; subst ent. congruence.
           ++ right. exists e, ts, i, av, vals. tauto.
    + (* GInfo *) destruct G as (ts0 & i0 & Hent & Hc & Hava & _).
      destruct (o_ava io) as [a0|] eqn:Ea; [|discriminate].
      apply IH in H as [Ho Hr]. split.
      * intros e. rewrite Ho. unfold source_stale. cbn [In]. split.
        -- intros [Hin|[Hin Hx]]; tauto.
        -- intros [Hin|[[<-|Hin] Hx]]; [tauto| |tauto].
           destruct Hx as [ent [He Hc']]. rewrite Hent in He. inversion He; subst ent. congruence.
      * intros a v. rewrite Hr, has_val_merge_ava. unfold source_gives. split.
        -- intros [[Hv|[vals [Hin Hv]]]|(e & ts & i & av & vals & Hin & Hx)].
           ++ now left.
           ++ right. exists e0, ts0, i0, a0, vals. cbn [In]. rewrite <- Hava. tauto.
           ++ right. exists e, ts, i, av, vals. cbn [In]. tauto.
        -- intros [Hv|(e & ts & i & av & vals & [<-|Hin] & He & Hc' & Hav & Hx)].
           ++ left. now left.
           ++ rewrite Hent in He. inversion He; subst ts i. rewrite <- Hava in Hav. inversion Hav; subst av.
              left. right. exists vals. tauto.
           ++ right. exists e, ts, i, av, vals. tauto.
Qed.

Lemma has_val_nil a v : ~ has_val a v [].
Proof. intros [l [H _]]. discriminate. Qed.

(* get_identity over all sources of the subject *)
Theorem get_identity_all_char now s k check res old :
  get_identity now s k [] check = Ok (res, old) ->
  (forall e, In e old <-> exists ent, entry_of s k e = Some ent /\ contributes now check ent = false) /\
  (forall a v, has_val a v res <->
     exists e ts i av vals, entry_of s k e = Some (ts, i) /\ contributes now check (ts, i) = true /\
                            i_ava i = Some av /\ In (a, vals) av /\ In v vals).
Proof.
  unfold get_identity. destruct (alookup k s) as [srcs|] eqn:Ek.
  - intros H. apply gi_loop_char in H as [Ho Hr]. split.
    + intros e. rewrite Ho. cbn [In]. unfold source_stale. split.
      * intros [[]|[_ Hx]]. exact Hx.
      * intros [ent [He Hc]]. right. split; [|now exists ent].
        unfold entry_of in He. rewrite Ek in He. now apply alookup_some_in in He.
    + intros a v. rewrite Hr. unfold source_gives. split.
      * intros [Hn|(e & ts & i & av & vals & _ & Hx)]; [now apply has_val_nil in Hn|]. now exists e, ts, i, av, vals.
      * intros (e & ts & i & av & vals & He & Hx). right. exists e, ts, i, av, vals. split; [|tauto].
        unfold entry_of in He. rewrite Ek in He. now apply alookup_some_in in He.
  - intros H. inversion H; subst. split.
    + intros e. split; [intros []|]. intros [ent [He _]]. unfold entry_of in He. now rewrite Ek in He.
    + intros a v. split; [intros Hn; now apply has_val_nil in Hn|].
      intros (e & ts & i & av & vals & He & _). unfold entry_of in He. now rewrite Ek in He.
Qed.

(* get_identity over an explicit, non-empty list of sources *)
Theorem get_identity_given_char now s k check e0 ents res old :
  get_identity now s k (e0 :: ents) check = Ok (res, old) ->
  (forall e, In e old <-> source_stale now check (entry_of s k) (e0 :: ents) e) /\
  (forall a v, has_val a v res <-> source_gives now check (entry_of s k) (e0 :: ents) a v).
Proof.
  unfold get_identity. intros H. apply gi_loop_char in H as [Ho Hr]. split.
  - intros e. rewrite Ho. cbn [In]. tauto.
  - intros a v. rewrite Hr. split; [|tauto]. intros [Hn|Hx]; [now apply has_val_nil in Hn|exact Hx].
Qed.

(* a single source *)
Lemma get_returns_only_valid now s k e check io :
  get now s k e check = GInfo io ->
  exists ts i, entry_of s k e = Some (ts, i) /\ contributes now check (ts, i) = true /\
               o_ava io = i_ava i /\ o_other io = i_other i.
Proof. intros H. pose proof (get_char now s k e check) as G. now rewrite H in G. Qed.

(* expired (by the code's test) or reset/empty: never let through when checking *)
Lemma contributes_expired now ts i : t_after now ts = true -> contributes now true (ts, i) = false.
Proof. intros H. unfold contributes. cbn [fst]. now rewrite H. Qed.
Lemma contributes_empty now check ts i : info_empty i = true -> contributes now check (ts, i) = false.
Proof. intros H. unfold contributes. cbn [snd]. rewrite H. now rewrite andb_false_r. Qed.
Lemma contributes_iff now check ts i :
  contributes now check (ts, i) = true <->
  info_empty i = false /\ (check = false \/ exists z, ts = At z /\ (now <= z)%Z).
Proof.
  unfold contributes, t_after, t_before. cbn [fst snd]. destruct (info_empty i); cbn [negb]; [rewrite andb_false_r; split; [discriminate|intros [? _]; discriminate]|].
  rewrite andb_true_r. destruct check; cbn [andb negb].
  - destruct ts as [|z]; cbn [negb].
    + split; [discriminate|]. intros [_ [?|[z [? _]]]]; discriminate.
    + rewrite negb_involutive. split.
      * intros H. split; [reflexivity|]. right. exists z. split; [reflexivity|]. now apply Z.leb_le.
      * intros [_ [?|[z' [Hz Hle]]]]; [discriminate|]. inversion Hz; subst z'. now apply Z.leb_le.
  - split; [intros _; split; [reflexivity|now left]|reflexivity].
Qed.

(* ---------- active() and get() disagree exactly on falsy expiry values ---------- *)
Lemma active_vs_get now s k e ts i :
  entry_of s k e = Some (ts, i) -> info_empty i = false ->
  match ts with
  | At z => active now s k e = negb (t_after now ts)
  | Falsy => active now s k e = true /\ get now s k e true = GOld
  end.
Proof.
  unfold entry_of, active, get. destruct (alookup k s) as [srcs|]; [|discriminate].
  intros H Hi. rewrite H, Hi. destruct ts as [|z]; cbn [t_after t_before andb negb].
  - split; reflexivity.
  - now rewrite negb_involutive.
Qed.

(* ---------- (2) isolation ---------- *)
Lemma step_other_key now s o k : op_key o <> Some k -> alookup k (fst (step now s o)) = alookup k s.
Proof.
  destruct o; cbn [op_key step fst]; intros H; try reflexivity.
  - unfold do_set. apply alookup_aset_other. congruence.
  - unfold do_set. apply alookup_aset_other. congruence.
  - destruct (alookup (code n) s); cbn [fst]; [|reflexivity]. apply alookup_adel_other. congruence.
Qed.

Lemma get_view now s1 s2 k e c : alookup k s1 = alookup k s2 -> get now s1 k e c = get now s2 k e c.
Proof. intros H. unfold get. now rewrite H. Qed.

Lemma active_view now s1 s2 k e : alookup k s1 = alookup k s2 -> active now s1 k e = active now s2 k e.
Proof. intros H. unfold active. now rewrite H. Qed.

Lemma gi_loop_view now s1 s2 k c ents : alookup k s1 = alookup k s2 ->
  forall res old, gi_loop now s1 k c ents res old = gi_loop now s2 k c ents res old.
Proof.
  intros H. induction ents as [|e r IH]; intros res old; cbn [gi_loop]; [reflexivity|].
  rewrite (get_view now s1 s2 k e c H). destruct (get now s2 k e c); try reflexivity; try apply IH.
  destruct (o_ava i); [apply IH|reflexivity].
Qed.

Lemma get_identity_view now s1 s2 k ents c : alookup k s1 = alookup k s2 ->
  get_identity now s1 k ents c = get_identity now s2 k ents c.
Proof.
  intros H. unfold get_identity. destruct ents as [|e r]; [|now apply gi_loop_view].
  rewrite H. destruct (alookup k s2) eqn:E; [|reflexivity]. apply gi_loop_view. congruence.
Qed.

Lemma filter_active_view now s1 s2 k l : alookup k s1 = alookup k s2 ->
  filter (fun e => negb (active now s1 k e)) l = filter (fun e => negb (active now s2 k e)) l.
Proof. intros H. apply filter_ext. intros e. now rewrite (active_view now s1 s2 k e H). Qed.

(* every query about subject k is a function of that subject's own row *)
Lemma read_view now s1 s2 r k : is_read r = true -> op_key r = Some k ->
  alookup k s1 = alookup k s2 -> snd (step now s1 r) = snd (step now s2 r).
Proof.
  destruct r; cbn [is_read op_key]; intros Hr Hk H; try discriminate; inversion Hk; subst k; cbn [step snd].
  - now rewrite (get_view now s1 s2 _ e check H).
  - now rewrite (get_identity_view now s1 s2 _ ents check H).
  - now rewrite H.
  - now rewrite (active_view now s1 s2 _ e H).
  - assert (forall l, filter (fun e => negb (active now s1 (code n) e)) l =
                      filter (fun e => negb (active now s2 (code n) e)) l) as F
      by (intros l; now apply filter_active_view).
    rewrite H. destruct srcs; [destruct (alookup (code n) s2); [|reflexivity]|]; now rewrite F.
  - now rewrite (get_view now s1 s2 _ e check H).
Qed.

Theorem isolation_step now now' s o r k :
  op_key o <> Some k -> is_read r = true -> op_key r = Some k ->
  snd (step now' (fst (step now s o)) r) = snd (step now' s r).
Proof. intros Ho Hr Hk. apply (read_view now' _ _ r k Hr Hk). now apply step_other_key. Qed.

Lemma final_other_keys k h : forall s,
  Forall (fun no => op_key (snd no) <> Some k) h -> alookup k (final s h) = alookup k s.
Proof.
  induction h as [|[now o] r IH]; intros s H; [reflexivity|].
  rewrite final_cons. inversion H as [|x l Hx Hl]; subst. cbn [snd] in Hx.
  rewrite (IH _ Hl). now apply step_other_key.
Qed.

Theorem isolation_history now s h r k :
  Forall (fun no => op_key (snd no) <> Some k) h -> is_read r = true -> op_key r = Some k ->
  snd (step now (final s h) r) = snd (step now s r).
Proof. intros Hh Hr Hk. apply (read_view now _ _ r k Hr Hk). now apply final_other_keys. Qed.

(* ---------- (3) delete ---------- *)
Lemma delete_clears now s n : alookup (code n) (fst (step now s (ODelete n))) = None.
Proof.
  cbn [step]. destruct (alookup (code n) s) eqn:E; cbn [fst]; [apply alookup_adel_same|exact E].
Qed.

Theorem delete_total now now' s n r :
  is_read r = true -> op_key r = Some (code n) ->
  snd (step now' (fst (step now s (ODelete n))) r) = snd (step now' init r).
Proof. intros Hr Hk. apply (read_view now' _ _ r (code n) Hr Hk). rewrite delete_clears. reflexivity. Qed.

Lemma delete_not_listed now s n : ~ In (code n) (map fst (fst (step now s (ODelete n)))).
Proof. apply alookup_none_notin, delete_clears. Qed.

(* what the empty cache answers *)
Lemma empty_answers now n e c ents :
  snd (step now init (OGet n e c)) = RExn KeyError /\
  snd (step now init (OIdent n [] c)) = RIdent [] [] /\
  snd (step now init (OIdent n (e :: ents) c)) = RExn KeyError /\
  snd (step now init (OEntities n)) = RExn KeyError /\
  snd (step now init (OActive n e)) = RBool false /\
  snd (step now init (OStale n [])) = RExn KeyError /\
  snd (step now init (OEntityId n e c)) = REmptyStr.
Proof. repeat split; reflexivity. Qed.

(* ---------- (1) after ANY history: get_identity against the specification ---------- *)
Theorem get_identity_history h now k check res old :
  get_identity now (final init h) k [] check = Ok (res, old) ->
  (forall e, In e old <-> exists ent, spec_of h k e = Some ent /\ contributes now check ent = false) /\
  (forall a v, has_val a v res <->
     exists e ts i av vals, spec_of h k e = Some (ts, i) /\ contributes now check (ts, i) = true /\
                            i_ava i = Some av /\ In (a, vals) av /\ In v vals).
Proof.
  intros H. apply get_identity_all_char in H as [Ho Hr]. split.
  - intros e. rewrite Ho. split; intros [ent [He Hc]]; exists ent; split; try exact Hc.
    + now rewrite <- history_refines_spec.
    + now rewrite history_refines_spec.
  - intros a v. rewrite Hr. split; intros (e & ts & i & av & vals & He & Hx); exists e, ts, i, av, vals; split; try exact Hx.
    + now rewrite <- history_refines_spec.
    + now rewrite history_refines_spec.
Qed.

Corollary stale_source_reported h now k e ts i res old :
  spec_of h k e = Some (ts, i) -> t_after now ts = true \/ info_empty i = true ->
  get_identity now (final init h) k [] true = Ok (res, old) ->
  In e old /\
  (forall a v, has_val a v res -> exists e' ts' i' av vals, e' <> e /\ spec_of h k e' = Some (ts', i') /\
       contributes now true (ts', i') = true /\ i_ava i' = Some av /\ In (a, vals) av /\ In v vals).
Proof.
  intros He Hbad H. apply get_identity_history in H as [Ho Hr].
  assert (contributes now true (ts, i) = false) as Hc.
  { destruct Hbad as [Hb|Hb]; [now apply contributes_expired|now apply contributes_empty]. }
  split.
  - apply Ho. now exists (ts, i).
  - intros a v Hv. apply Hr in Hv as (e' & ts' & i' & av & vals & He' & Hc' & Hx).
    exists e', ts', i', av, vals. split; [|tauto]. intros ->. rewrite He in He'. inversion He'; subst. congruence.
Qed.
