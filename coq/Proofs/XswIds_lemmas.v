(* C01 - the identifier itself: the object's id is the literal ID attribute; one identifier for pre-check and tool *)
From PV Require Import Lib.Base Model.Xsw Model.XswIds Proofs.Xsw_lemmas.
Import ListNotations.
Open Scope N_scope.

Lemma literal_keys_equal a b :
  is_literal_id a = true -> is_literal_id b = true -> key_eqb (attr_key a) (attr_key b) = true.
Proof.
  destruct a as [[[na|] la] va]; destruct b as [[[nb|] lb] vb]; cbn; try discriminate.
  intros Ha Hb. apply str_eqb_eq in Ha. apply str_eqb_eq in Hb. subst. apply str_eqb_refl.
Qed.

Lemma item_id_from_no_literal al : forall acc,
  (forall b, In b al -> is_literal_id b = false) -> item_id_from acc al = acc.
Proof.
  induction al as [|a r IH]; intros acc H; [reflexivity|].
  unfold item_id_from. cbn [fold_left]. rewrite (H a (or_introl eq_refl)).
  apply IH. intros b Hb. apply H. right. exact Hb.
Qed.

Lemma literal_id_no_literal al :
  (forall b, In b al -> is_literal_id b = false) -> literal_id al = None.
Proof.
  induction al as [|a r IH]; intros H; [reflexivity|].
  cbn [literal_id]. rewrite (H a (or_introl eq_refl)). apply IH. intros b Hb. apply H. right. exact Hb.
Qed.

(* in a well-formed attribute table the object's id IS the literal ID attribute (or both are absent),
   whatever qualified / differently spelled look-alikes stand before or after it *)
Theorem item_id_is_literal al : wf_attrs al = true -> item_id al = literal_id al.
Proof.
  unfold item_id. induction al as [|a r IH]; intros Hwf; [reflexivity|].
  cbn [wf_attrs] in Hwf. apply andb_true_iff in Hwf as [Hnew Hr]. apply negb_true_iff in Hnew.
  unfold item_id_from. cbn [fold_left literal_id]. destruct (is_literal_id a) eqn:Ea.
  - assert (forall b, In b r -> is_literal_id b = false) as Hno.
    { intros b Hb. destruct (is_literal_id b) eqn:Eb; [|reflexivity].
      assert (existsb (fun b0 => key_eqb (attr_key a) (attr_key b0)) r = true) as Hex
        by (apply existsb_exists; exists b; split; [exact Hb|apply literal_keys_equal; assumption]).
      congruence. }
    apply (item_id_from_no_literal r (Some (snd a)) Hno).
  - apply IH. exact Hr.
Qed.

(* a look-alike never changes it: adding attributes that are not the literal ID leaves the object's id alone *)
Theorem item_id_ignores_look_alikes pre post a :
  (forall b, In b pre -> is_literal_id b = false) -> (forall b, In b post -> is_literal_id b = false) ->
  is_literal_id a = true -> item_id (pre ++ a :: post) = Some (snd a).
Proof.
  intros Hpre Hpost Ha. unfold item_id, item_id_from. rewrite fold_left_app.
  change (fold_left _ pre None) with (item_id_from None pre). rewrite (item_id_from_no_literal pre None Hpre).
  cbn [fold_left]. rewrite Ha. apply (item_id_from_no_literal post (Some (snd a)) Hpost).
Qed.

(* ---- one identifier for both hand-overs ---- *)
Lemma option_map_id (i : option str) : option_map (fun v : str => v) i = i.
Proof. destruct i; reflexivity. Qed.

Theorem check_signature_one_identifier pol doc nm i certs :
  check_signature_g (fun v => v) (fun v => v) pol doc nm i certs = check_signature_x pol doc nm i certs.
Proof. unfold check_signature_g. rewrite !option_map_id. reflexivity. Qed.

(* whatever is done to the identifier on the way: if the pre-check and the tool are handed the same string, and
   that string is still the object's id, acceptance means the element with the OBJECT's id is covered *)
Theorem relied_is_covered_g fp ft pol doc nm v certs :
  ft v = fp v -> fp v = v ->
  check_signature_g fp ft pol doc nm (Some v) certs = true ->
  exists px X k D, covered doc nm v certs px X k D.
Proof.
  intros Hsame Hraw H. unfold check_signature_g in H. cbn [option_map] in H. rewrite Hsame, Hraw in H.
  change (check_signature_x pol doc nm (Some v) certs = true) in H.
  apply relied_is_covered in H as (v' & px & X & k & D & Hv & Hc). injection Hv as <-.
  exists px, X, k, D. exact Hc.
Qed.
