(* Time windows for every binding, every response kind and along histories (Model/C04Kinds.v) *)
From PV Require Import Lib.Base Model.Status Model.Response Model.C04Kinds Proofs.Response_lemmas Proofs.C04_lemmas.
Open Scope Z_scope.

(* ---- the statement vocabulary ---- *)
Definition issue_window_ok (nowv slackv t : Z) : Prop := nowv - 86400 - slackv <= t < nowv + 86400 + slackv.

Definition conditions_window_ok (nowv slackv : Z) (a : assertion) : Prop :=
  forall k, a_conditions a = Some k -> k_empty k = false ->
    (forall n, k_nooa k = Some n -> nowv <= n + slackv) /\ (forall n, k_nb k = Some n -> n <= nowv + slackv) /\
    (forall n m, k_nb k = Some n -> k_nooa k = Some m -> n <= m).
Definition session_window_ok (nowv slackv : Z) (a : assertion) : Prop :=
  forall n, a_authn a = [Some n] -> nowv <= n + slackv.
Definition bearer_windows_ok (nowv slackv : Z) (a : assertion) : Prop :=
  forall sc d, In sc (a_confirmations a) -> c_method sc = Bearer -> c_data sc = Some d ->
    (forall n, d_nooa d = Some n -> nowv <= n + slackv) /\ (forall n, d_nb d = Some n -> n <= nowv + slackv).

Definition assertion_windows_ok (nowv slackv : Z) (a : assertion) : Prop :=
  conditions_window_ok nowv slackv a /\ session_window_ok nowv slackv a /\ bearer_windows_ok nowv slackv a.
Definition windows_ok (nowv slackv : Z) (r : response) : Prop :=
  issue_window_ok nowv slackv (r_issue_instant r) /\ Forall (assertion_windows_ok nowv slackv) (processed r).

(* ---- the pipeline itself (what Props/C04.v states as C04_reject_outside) ---- *)
Lemma reject_outside c r o : parse_response c r = Ok o -> test_mode c = false -> windows_ok (now c) (slack c) r.
Proof.
  intros H Ht. destruct (accepted_windows c r o H) as (Hw & Hf & Hi). split.
  - unfold issue_instant_ok in Hi. apply andb_true_iff in Hi as [A B]. unfold issue_window_ok. lia.
  - rewrite Forall_forall in *. intros a Ha. specialize (Hw a Ha). specialize (Hf a Ha). split; [|split].
    + intros k Hk He. exact (af_conditions_time _ _ _ Hf k Hk He Ht).
    + exact (af_session _ _ _ Hf).
    + intros sc d Hin Hm Hd. rewrite Forall_forall in Hw. exact (Hw sc Hin d Hm Hd).
Qed.

(* ---- bindings ---- *)
Lemma authn_via_inv b c r o : parse_authn_via b c r = Ok o ->
  unravel_known b = true /\ parse_response (with_asynch c (asynchop_of b)) r = Ok o.
Proof. unfold parse_authn_via. destruct (unravel_known b); [intros H; split; [reflexivity|exact H]|discriminate]. Qed.

Lemma authn_via_windows b c r o : parse_authn_via b c r = Ok o -> test_mode c = false -> windows_ok (now c) (slack c) r.
Proof.
  intros H Ht. destruct (authn_via_inv _ _ _ _ H) as [_ Hp].
  exact (reject_outside (with_asynch c (asynchop_of b)) r o Hp Ht).
Qed.

Lemma paos_never_accepted c r : is_ok (parse_authn_via BPaos c r) = false.
Proof. reflexivity. Qed.

(* the synchronous bindings do not relax anything: same statement with the switch spelled out *)
Lemma asynch_irrelevant v c r o : parse_response (with_asynch c v) r = Ok o -> test_mode c = false -> windows_ok (now c) (slack c) r.
Proof. intros H Ht. exact (reject_outside (with_asynch c v) r o H Ht). Qed.

(* ---- one confirmation out of its window, at any position, among any others ---- *)
Lemma one_bad_confirmation_rejects c r a pre sc post d :
  test_mode c = false -> In a (processed r) -> a_confirmations a = pre ++ sc :: post ->
  c_method sc = Bearer -> c_data sc = Some d ->
  (exists n, d_nooa d = Some n /\ n + slack c < now c) \/ (exists n, d_nb d = Some n /\ now c + slack c < n) ->
  forall b, is_ok (parse_authn_via b c r) = false.
Proof.
  intros Ht Ha Hc Hm Hd Hbad b. destruct (parse_authn_via b c r) as [o|] eqn:E; [|reflexivity]. exfalso.
  destruct (authn_via_windows _ _ _ _ E Ht) as [_ Hall]. rewrite Forall_forall in Hall.
  destruct (Hall a Ha) as (_ & _ & Hb).
  assert (In sc (a_confirmations a)) as Hin by (rewrite Hc; apply in_or_app; right; left; reflexivity).
  destruct (Hb sc d Hin Hm Hd) as [H1 H2].
  destruct Hbad as [(n & Hn & L)|(n & Hn & L)]; [specialize (H1 n Hn)|specialize (H2 n Hn)]; lia.
Qed.

(* ---- query kinds ---- *)
Lemma decrypted_prefix_view k l :
  decrypted_prefix (map (fun e => {| e_opens := e_opens e; e_inner := view_assertion k (e_inner e) |}) l) =
  map (view_assertion k) (decrypted_prefix l).
Proof.
  induction l as [|e l IH]; [reflexivity|]. cbn [map decrypted_prefix e_opens e_inner].
  destruct (e_opens e); [cbn [map]; rewrite IH; reflexivity|reflexivity].
Qed.

Lemma processed_view k r : processed (query_view k r) = map (view_assertion k) (processed r).
Proof.
  unfold processed. cbn [query_view r_encrypted r_assertions]. rewrite decrypted_prefix_view, map_app. reflexivity.
Qed.

(* what an accepted query response guarantees: IssueInstant, every bearer confirmation, and — attribute
   queries — the Conditions; SessionNotOnOrAfter is not looked at for these kinds *)
Definition query_windows_ok (k : qkind) (nowv slackv : Z) (r : response) : Prop :=
  issue_window_ok nowv slackv (r_issue_instant r) /\
  Forall (fun a => bearer_windows_ok nowv slackv a /\ (k = QAttr -> conditions_window_ok nowv slackv a)) (processed r).

Lemma query_windows k b c r o : parse_query k b c r = Ok o -> query_windows_ok k (now c) (slack c) r.
Proof.
  unfold parse_query. destruct (unravel_known b); [|discriminate]. intros H.
  destruct (reject_outside _ _ _ H eq_refl) as [Hi Hall]. cbn [query_cfg now slack] in Hi, Hall.
  split; [exact Hi|]. rewrite processed_view in Hall. rewrite Forall_forall in *. intros a Ha.
  assert (In (view_assertion k a) (map (view_assertion k) (processed r))) as Hin by (apply in_map; exact Ha).
  destruct (Hall _ Hin) as (Hk & _ & Hb). split; [exact Hb|].
  intros ->. exact Hk.
Qed.

(* ---- status kinds ---- *)
Lemma verify_core_issue c r : verify_core (verify_in_of c r) = Ok (Some tt) -> issue_instant_ok c (r_issue_instant r) = true.
Proof.
  unfold verify_core. cbn [verify_in_of id_mismatch version ver_lt2 asynchop dest_ok issue_ok status].
  destruct (negb (version_is_20 (r_version r))).
  { destruct (r_version r); [destruct (r_ver_lt2 r) as [[|]|]|]; discriminate. }
  match goal with |- (if ?x then _ else _) = _ -> _ => destruct x; [discriminate|] end.
  destruct (issue_instant_ok c (r_issue_instant r)); [reflexivity|discriminate].
Qed.

Lemma issue_instant_ok_window c t : issue_instant_ok c t = true -> issue_window_ok (now c) (slack c) t.
Proof. unfold issue_instant_ok, issue_window_ok. intros H. apply andb_true_iff in H as [A B]. lia. Qed.

Lemma status_windows k b c r u : parse_status k b c r = Ok u -> issue_window_ok (now c) (slack c) (r_issue_instant r).
Proof.
  unfold parse_status. destruct (negb (unravel_known b)); [discriminate|].
  destruct (match r_sig r with None => Ok tt | Some res => res end); [|discriminate].
  destruct (negb (r_valid_instance r)); [discriminate|].
  match goal with |- (if ?x then _ else _) = _ -> _ => destruct x; [discriminate|] end.
  set (c' := with_asynch c (skind_asynch k b)).
  unfold parse_tail, status_verify.
  destruct (verify_core (verify_in_of c' r)) as [[[]|]|e] eqn:Ev.
  - intros _. apply verify_core_issue in Ev. exact (issue_instant_ok_window c' _ Ev).
  - discriminate.
  - destruct (str_eqb e (s2l "AssertionError")); discriminate.
Qed.

(* ---- every kind, every binding ---- *)
Lemma every_kind_issue_instant k b c r : accepted k b c r = true -> issue_window_ok (now c) (slack c) (r_issue_instant r).
Proof.
  destruct k as [|q|s]; cbn [accepted].
  - destruct (parse_authn_via b c r) as [o|] eqn:E; [|discriminate]. intros _.
    destruct (authn_via_inv _ _ _ _ E) as [_ Hp]. destruct (accepted_windows _ _ _ Hp) as (_ & _ & Hi).
    exact (issue_instant_ok_window (with_asynch c (asynchop_of b)) _ Hi).
  - destruct (parse_query q b c r) as [o|] eqn:E; [|discriminate]. intros _. exact (proj1 (query_windows _ _ _ _ _ E)).
  - destruct (parse_status s b c r) as [u|] eqn:E; [|discriminate]. intros _. exact (status_windows _ _ _ _ _ E).
Qed.

(* what acceptance of a call of kind [k] guarantees *)
Definition kind_windows_ok (k : kind) (test : bool) (nowv slackv : Z) (r : response) : Prop :=
  match k with
  | KAuthn => if test then issue_window_ok nowv slackv (r_issue_instant r) else windows_ok nowv slackv r
  | KQuery q => query_windows_ok q nowv slackv r
  | KStatus _ => issue_window_ok nowv slackv (r_issue_instant r)
  end.

Lemma every_kind_windows k b c r : accepted k b c r = true -> kind_windows_ok k (test_mode c) (now c) (slack c) r.
Proof.
  intros H. destruct k as [|q|s]; cbn [kind_windows_ok].
  - destruct (test_mode c) eqn:Ht; [exact (every_kind_issue_instant KAuthn b c r H)|].
    cbn [accepted] in H. destruct (parse_authn_via b c r) as [o|] eqn:E; [|discriminate].
    exact (authn_via_windows _ _ _ _ E Ht).
  - cbn [accepted] in H. destruct (parse_query q b c r) as [o|] eqn:E; [|discriminate]. exact (query_windows _ _ _ _ _ E).
  - exact (every_kind_issue_instant (KStatus s) b c r H).
Qed.

(* ---- histories on one long-lived SP ---- *)
Lemma run_history_state sp ks : fst (run_history sp ks) = sp.
Proof.
  induction ks as [|k rest IH]; [reflexivity|]. cbn [run_history step].
  destruct (run_history sp rest) as [sp2 oks] eqn:E. cbn [fst] in *. exact IH.
Qed.

Lemma run_history_windows sp ks :
  Forall2 (fun k ok => ok = true -> kind_windows_ok (k_kind k) (test_mode sp) (k_now k) (slack sp) (k_msg k))
          ks (snd (run_history sp ks)).
Proof.
  induction ks as [|k rest IH]; [constructor|]. cbn [run_history step].
  destruct (run_history sp rest) as [sp2 oks] eqn:E. cbn [snd] in *. constructor; [|exact IH].
  intros H. exact (every_kind_windows _ _ _ _ H).
Qed.

(* the verdict on a call does not depend on what was parsed before it *)
Lemma run_history_app sp ks1 ks2 :
  snd (run_history sp (ks1 ++ ks2)) = snd (run_history sp ks1) ++ snd (run_history sp ks2).
Proof.
  induction ks1 as [|k rest IH]; [reflexivity|]. cbn [app run_history step].
  destruct (run_history sp (rest ++ ks2)) as [a1 l1] eqn:E1. destruct (run_history sp rest) as [a2 l2] eqn:E2.
  cbn [snd] in *. rewrite IH. reflexivity.
Qed.
