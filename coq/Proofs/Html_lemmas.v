From PV Require Import Lib.Base Model.Codec.
Open Scope N_scope.

Lemma html_escape_cons c s : html_escape (c :: s) = html_escape_char c ++ html_escape s.
Proof. reflexivity. Qed.

Lemma hec_cases c :
  (c = 38 /\ html_escape_char c = [38; 97; 109; 112; 59]) \/
  (c = 60 /\ html_escape_char c = [38; 108; 116; 59]) \/
  (c = 62 /\ html_escape_char c = [38; 103; 116; 59]) \/
  (c = 34 /\ html_escape_char c = [38; 113; 117; 111; 116; 59]) \/
  (c = 39 /\ html_escape_char c = [38; 35; 120; 50; 55; 59]) \/
  (c <> 38 /\ c <> 60 /\ c <> 62 /\ c <> 34 /\ c <> 39 /\ html_escape_char c = [c]).
Proof.
  unfold html_escape_char.
  destruct (N.eqb_spec c 38) as [->|N38]; [left; split; reflexivity|].
  destruct (N.eqb_spec c 60) as [->|N60]; [right; left; split; reflexivity|].
  destruct (N.eqb_spec c 62) as [->|N62]; [right; right; left; split; reflexivity|].
  destruct (N.eqb_spec c 34) as [->|N34]; [right; right; right; left; split; reflexivity|].
  destruct (N.eqb_spec c 39) as [->|N39]; [right; right; right; right; left; split; reflexivity|].
  right; right; right; right; right. repeat split; assumption.
Qed.

Opaque html_escape.

Lemma attr_fuel s : forall acc rest fuel,
  (List.length (html_escape s) + 1 <= fuel)%nat ->
  attr_value_dq_fuel fuel (html_escape s ++ 34 :: rest) acc = Some (rev acc ++ s, rest).
Proof.
  induction s as [|c s IH]; intros acc rest fuel Hf.
  - Transparent html_escape. cbn in *. Opaque html_escape.
    destruct fuel as [|f]; [lia|]. cbn. now rewrite app_nil_r.
  - rewrite html_escape_cons in *. rewrite app_length in Hf. rewrite <- app_assoc.
    destruct (hec_cases c) as [[-> E]|[[-> E]|[[-> E]|[[-> E]|[[-> E]|(N38 & N60 & N62 & N34 & N39 & E)]]]]];
      rewrite E in *; cbn [List.length] in Hf; (destruct fuel as [|f]; [lia|]).
    1-5: cbn [app attr_value_dq_fuel]; cbn -[attr_value_dq_fuel html_escape];
         rewrite IH by lia; cbn [rev]; now rewrite <- app_assoc.
    cbn [app attr_value_dq_fuel]. apply N.eqb_neq in N34, N38. rewrite N34, N38.
    rewrite IH by lia. cbn [rev]. now rewrite <- app_assoc.
Qed.

Theorem attr_value_roundtrip s rest : attr_value_dq (html_escape s ++ 34 :: rest) = Some (s, rest).
Proof.
  unfold attr_value_dq. rewrite attr_fuel; [reflexivity|]. rewrite app_length. cbn [List.length]. lia.
Qed.

(* the escaped value contains no double quote, <, >, single quote *)
Theorem html_escape_no_delims s :
  forallb (fun c => negb ((c =? 34) || (c =? 60) || (c =? 62) || (c =? 39))) (html_escape s) = true.
Proof.
  induction s as [|c s IH]; [reflexivity|]. rewrite html_escape_cons, forallb_app, IH, andb_true_r.
  destruct (hec_cases c) as [[-> E]|[[-> E]|[[-> E]|[[-> E]|[[-> E]|(N38 & N60 & N62 & N34 & N39 & E)]]]]];
    rewrite E; try reflexivity.
  cbn [forallb]. apply N.eqb_neq in N34, N60, N62, N39. now rewrite N34, N60, N62, N39.
Qed.
