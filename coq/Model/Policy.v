(* Model/Policy.v — executable model of the attribute-release path of an IdP/AA
   (saml2_tophat: assertion.py, server.py, mdstore.py, the entity_category modules):

     _filter_values, _match, filter_on_attributes, filter_attribute_value_assertions,
     Policy.compile / get / get_attribute_restrictions / get_fail_on_missing_requested /
     get_entity_categories (+ post_entity_categories over the regenerated maps),
     Policy.filter, Policy.restrict, Assertion.apply_policy,
     Server.setup_assertion (try/except MissingValue, best_effort),
     Server._authn_response (best_effort = True) / create_authn_response,
     Server.create_attribute_response.

   An identity (and every ava) is an ordered dict: a list of (name, values).
   External components are FUNCTION ARGUMENTS (Section variables), never axioms:
     matches rx v   = re.compile(rx).match(v) is not None
     lname nf name  = get_local_name(acs, name, nf)  (first converter of that name format, its _fro table)
   Definitions and show_* observables only. *)
From PV Require Import Lib.Base Gen.EntityCat.
Open Scope N_scope.

Definition MissingValue : str := s2l "MissingValue".
Definition TypeError : str := s2l "TypeError".
Definition KeyError : str := s2l "KeyError".
Definition ModuleNotFoundError : str := s2l "ModuleNotFoundError".

(* ---- str.lower (ASCII range; the identity elsewhere) -------------------- *)
Definition lower_c (c : N) : N := if (65 <=? c) && (c <=? 90) then c + 32 else c.
Definition lower (s : str) : str := map lower_c s.

(* ---- ordered dicts ------------------------------------------------------- *)
Definition dict (V : Type) := list (str * V).

Fixpoint lookup {V} (k : str) (d : dict V) : option V :=
  match d with
  | [] => None
  | (k', v) :: r => if str_eqb k' k then Some v else lookup k r
  end.

Definition has_key {V} (k : str) (d : dict V) : bool :=
  match lookup k d with Some _ => true | None => false end.

(* d[k] = v : an existing key keeps its position, a new one is appended *)
Fixpoint dset {V} (k : str) (v : V) (d : dict V) : dict V :=
  match d with
  | [] => [(k, v)]
  | (k', v') :: r => if str_eqb k' k then (k', v) :: r else (k', v') :: dset k v r
  end.

Definition ava := dict (list str).

Fixpoint filter_map {A B} (f : A -> option B) (l : list A) : list B :=
  match l with
  | [] => []
  | x :: r => match f x with Some y => y :: filter_map f r | None => filter_map f r end
  end.

(* list(set(l)) up to order *)
Fixpoint dedup (l : list str) : list str :=
  match l with
  | [] => []
  | x :: r => if mem_str x r then dedup r else x :: dedup r
  end.

Definition is_some {A} (o : option A) : bool := match o with Some _ => true | None => false end.
(* python truthiness of an optional string: None and "" are false *)
Definition truthy (o : option str) : bool := match o with Some (_ :: _) => true | _ => false end.
Definition nonempty {A} (l : list A) : bool := match l with [] => false | _ => true end.

(* ---- what an SP declares (mdstore.attribute_requirement -> list of dicts) - *)
Record decl := {
  d_name : str;                   (* attr["name"] *)
  d_nf : option str;              (* attr.get("name_format") *)
  d_fn : option str;              (* attr.get("friendly_name") *)
  d_vals : list (option str)      (* [av.get("text") for av in attr["attribute_value"]], [] when the key is absent *)
}.

(* try: [av["text"] ...] except KeyError: [] *)
Definition decl_values (d : decl) : list str :=
  if forallb is_some (d_vals d)
  then flat_map (fun o => match o with Some t => [t] | None => [] end) (d_vals d)
  else [].

(* metadata store as the policy sees it; None = a falsy store (None / no source) *)
Record mdview := {
  m_req : option (list decl * list decl);   (* attribute_requirement(sp): None | required, optional *)
  m_ecs : list str                          (* entity_categories(sp) *)
}.

(* ---- entity-category maps ------------------------------------------------ *)
Definition ecmap := list (ec_rawkey * (list str * bool)).    (* key -> (lower-cased names, only_required) *)

Definition rawkey_eqb (a b : ec_rawkey) : bool :=
  Bool.eqb (fst a) (fst b) &&
  (fix go (x y : list str) : bool :=
     match x, y with
     | [], [] => true
     | s :: x', t :: y' => str_eqb s t && go x' y'
     | _, _ => false
     end) (snd a) (snd b).

(* Policy.compile, entity_categories part, for one module *)
Definition compile_module (m : ec_rawmodule) : ecmap :=
  map (fun row =>
         (fst row,
          (map lower (snd row),
           match snd m with
           | None => false                                   (* AttributeError *)
           | Some onr => match find (fun r => rawkey_eqb (fst r) (fst row)) onr with
                         | Some r => snd r
                         | None => false                     (* KeyError *)
                         end
           end)))
      (fst m).

Fixpoint compile_ec (names : list str) : result (list ecmap) :=
  match names with
  | [] => Ok []
  | n :: r => match lookup n ec_modules with
              | None => Err ModuleNotFoundError
              | Some m => do rest <- compile_ec r; Ok (compile_module m :: rest)
              end
  end.

(* the attrs one row contributes, given the SP's categories and the lower-cased
   friendly names of its required attributes *)
Definition ec_attrs (ecs required : list str) (row : ec_rawkey * (list str * bool)) : list str :=
  let '(key, (atlist, only_required)) := row in
  let sel := if only_required then filter (fun a => mem_str a required) atlist else atlist in
  match key with
  | (true, [[]]) => atlist                                         (* key == "" : always released *)
  | (true, [k]) => if mem_str k ecs then sel else []
  | (true, _) => []                                                (* never produced by the translator *)
  | (false, ks) => if forallb (fun k => mem_str k ecs) ks then sel else []
  end.

(* [d['friendly_name'].lower() for d in required]  except KeyError: [] *)
Definition req_friendly (required : list decl) : list str :=
  if forallb (fun d => is_some (d_fn d)) required
  then flat_map (fun d => match d_fn d with Some f => [lower f] | None => [] end) required
  else [].

(* keys of the dict post_entity_categories returns (every value is None) *)
Definition post_entity_categories (maps : list ecmap) (md : option mdview) (required : list decl) : list str :=
  match md with
  | None => []                                                     (* if kwargs["mds"]: *)
  | Some m => flat_map (fun em => flat_map (ec_attrs (m_ecs m) (req_friendly required)) em) maps
  end.

(* ---- policy --------------------------------------------------------------- *)
Definition restrictions := dict (option (list str)).   (* lower-cased name -> None | regex sources *)

Record rawspec := {           (* one entry of the configured policy dict *)
  r_ec : option (list str);                                   (* "entity_categories": module names *)
  r_ar : option (option (dict (option (list str))));          (* "attribute_restrictions": absent | None | dict *)
  r_fail : option bool                                        (* "fail_on_missing_requested" *)
}.
Record spec := {
  s_ec : option (list ecmap);
  s_ar : option (option restrictions);
  s_fail : option bool
}.
Definition rawpolicy := option (dict (option rawspec)).
Definition cpolicy := option (dict (option spec)).             (* Policy._restrictions *)

Definition compile_ar (raw : dict (option (list str))) : restrictions :=
  fold_left (fun acc kv =>
               dset (lower (fst kv)) (match snd kv with Some (x :: l) => Some (x :: l) | _ => None end) acc)
            raw [].

Definition compile_spec (r : rawspec) : result spec :=
  do ec <- match r_ec r with
           | None => Ok None
           | Some names => do m <- compile_ec names; Ok (Some m)
           end;
  Ok {| s_ec := ec;
        s_ar := match r_ar r with
                | None => None
                | Some None => Some None
                | Some (Some raw) => Some (Some (compile_ar raw))
                end;
        s_fail := r_fail r |}.

Fixpoint compile_entries (l : dict (option rawspec)) : result (dict (option spec)) :=
  match l with
  | [] => Ok []
  | (who, None) :: r => do r' <- compile_entries r; Ok ((who, None) :: r')
  | (who, Some s) :: r => do s' <- compile_spec s; do r' <- compile_entries r; Ok ((who, Some s') :: r')
  end.

(* Policy.__init__ *)
Definition compile (p : rawpolicy) : result cpolicy :=
  match p with
  | None | Some [] => Ok None
  | Some R => do R' <- compile_entries R; Ok (Some R')
  end.

Definition DEFAULT : str := s2l "default".

(* Policy.get, up to the final default/post_func step: Ok None = "val is None" *)
Definition pget {A} (sel : spec -> option A) (p : cpolicy) (sp : str) : result (option A) :=
  match p with
  | None | Some [] => Ok None                                      (* if not self._restrictions *)
  | Some R =>
      let from_default :=
        match lookup DEFAULT R with
        | None => Ok None                                          (* KeyError *)
        | Some None => Err TypeError                               (* None[attribute] *)
        | Some (Some s) => Ok (sel s)
        end in
      match lookup sp R with
      | None => from_default
      | Some None => Err TypeError
      | Some (Some s) => match sel s with Some v => Ok (Some v) | None => from_default end
      end
  end.

Definition join_opt {A} (o : option (option A)) : option A := match o with Some (Some a) => Some a | _ => None end.

(* a per-SP entry that HAS the key with value None does not fall back to default *)
Definition pget_ar (p : cpolicy) (sp : str) : result (option restrictions) :=
  do v <- pget s_ar p sp; Ok (join_opt v).

Definition get_attribute_restrictions := pget_ar.

Definition get_fail_on_missing_requested (p : cpolicy) (sp : str) : result bool :=
  do v <- pget s_fail p sp; Ok (match v with Some b => b | None => true end).

Definition get_entity_categories (p : cpolicy) (sp : str) (md : option mdview) (required : list decl) : result (list str) :=
  do v <- pget s_ec p sp;
  Ok (match v with Some maps => post_entity_categories maps md required | None => [] end).

(* ========================================================================== *)
Section Filters.
  Variable matches : str -> str -> bool.
  Variable lname : str -> str -> option str.

  (* _filter_values *)
  Definition filter_values (vals vlist : list str) (must : bool) : result (list str) :=
    match vlist with
    | [] => Ok vals
    | _ :: _ =>
        let res := filter (fun v => mem_str v vals) vlist in
        if must then match res with [] => Err MissingValue | _ => Ok res end else Ok res
    end.

  (* _match *)
  Fixpoint find_ci {V} (la : str) (d : dict V) : option str :=
    match d with
    | [] => None
    | (k, _) :: r => if str_eqb (lower k) la then Some k else find_ci la r
    end.

  Definition py_match {V} (attr : str) (a : dict V) : option str :=
    if has_key attr a then Some attr
    else let la := lower attr in
         if has_key la a then Some la else find_ci la a.

  (* _match_attr_name *)
  Definition local_name (d : decl) : option str :=
    match d_nf d with
    | Some (c :: nf) => lname (c :: nf) (d_name d)
    | _ => match d_fn d with Some (c :: f) => Some (c :: f) | _ => None end
    end.

  Definition match_attr_name (d : decl) (a : ava) : option str :=
    let fn := match local_name d with Some (c :: l) => py_match (c :: l) a | _ => None end in
    if truthy fn then fn else py_match (d_name d) a.

  Definition res_extend (k : str) (vs : list str) (res : ava) : ava :=
    match lookup k res with
    | Some old => dset k (old ++ vs) res
    | None => dset k vs res
    end.

  (* _apply_attr_value_restrictions *)
  Definition apply_avr (d : decl) (fn : str) (a res : ava) (must : bool) : result ava :=
    match lookup fn a with
    | None => Err KeyError
    | Some vals =>
        let values := decl_values d in
        do fv <- filter_values vals values false;
        do u <- filter_values vals values must;
        Ok (res_extend fn fv res)
    end.

  (* one of the two loops of filter_on_attributes: must = the loop over `required` *)
  Fixpoint foa_loop (must fail : bool) (ds : list decl) (a res : ava) : result ava :=
    match ds with
    | [] => Ok res
    | d :: r =>
        match match_attr_name d a with
        | Some (c :: fn) => do res' <- apply_avr d (c :: fn) a res must; foa_loop must fail r a res'
        | _ => if must && fail then Err MissingValue else foa_loop must fail r a res
        end
    end.

  Definition filter_on_attributes (a : ava) (required optional : list decl) (fail : bool) : result ava :=
    do res <- foa_loop true fail required a [];
    foa_loop false fail optional a res.

  (* filter_attribute_value_assertions *)
  Definition favs_entry (rest : restrictions) (e : str * list str) : option (str * list str) :=
    match lookup (lower (fst e)) rest with
    | None => None                                                  (* KeyError: del ava[attr] *)
    | Some None => Some e
    | Some (Some rxs) =>
        match flat_map (fun rx => filter (matches rx) (snd e)) rxs with
        | [] => None
        | x :: rv => Some (fst e, dedup (x :: rv))
        end
    end.

  Definition favs (a : ava) (rest : option restrictions) : ava :=
    match rest with
    | None | Some [] => a                                           (* if not attribute_restrictions *)
    | Some r => filter_map (favs_entry r) a
    end.

  Definition names_only (l : list str) : restrictions := map (fun n => (n, None)) l.

  (* Policy.filter *)
  Definition pfilter (p : cpolicy) (a : ava) (sp : str) (md : option mdview)
             (required optional : list decl) : result ava :=
    do ecr <- get_entity_categories p sp md required;
    do a1 <- (match ecr with
              | _ :: _ => Ok (Some (favs a (Some (names_only ecr))))
              | [] => if nonempty required || nonempty optional
                      then do fail <- get_fail_on_missing_requested p sp;
                           do r <- filter_on_attributes a required optional fail;
                           Ok (Some r)
                      else Ok None
              end);
    do ar <- get_attribute_restrictions p sp;
    let cur := match a1 with Some x => x | None => a end in
    Ok (favs cur ar).

  (* Policy.restrict(ava, sp_entity_id, metadata, best_effort): with best_effort what the SP
     requires is handed to Policy.filter as wishes (required = [], optional = required + optional) *)
  Definition restrict_with (best_effort : bool) (p : cpolicy) (a : ava) (sp : str) (md : option mdview) : result ava :=
    match md with
    | Some m => match m_req m with
                | Some (rq, op) => if best_effort then pfilter p a sp md [] (rq ++ op)
                                   else pfilter p a sp md rq op
                | None => pfilter p a sp md [] []
                end
    | None => pfilter p a sp None [] []
    end.

  (* the default argument: best_effort=False *)
  Definition restrict (p : cpolicy) (a : ava) (sp : str) (md : option mdview) : result ava :=
    restrict_with false p a sp md.

  (* Assertion.apply_policy: the dict is narrowed only after restrict returned *)
  Definition narrow (self filtered : ava) : ava :=
    filter_map (fun e => match lookup (fst e) filtered with Some v => Some (fst e, v) | None => None end) self.

  Definition apply_policy_with (best_effort : bool) (p : cpolicy) (self : ava) (sp : str) (md : option mdview) : result ava :=
    do filtered <- restrict_with best_effort p self sp md; Ok (narrow self filtered).

  Definition apply_policy (p : cpolicy) (self : ava) (sp : str) (md : option mdview) : result ava :=
    apply_policy_with false p self sp md.

  (* what a response construction ends in *)
  Inductive outcome :=
  | Asserted (a : ava)           (* an assertion built from this dict *)
  | ErrorResponse                (* create_error_response: no assertion *)
  | Raised (e : str).            (* an exception left the entry point *)

  (* Server.setup_assertion: MissingValue is caught; without best_effort an error response,
     with best_effort the policy is applied again to the (still untouched) dict with the
     demands of the SP treated as wishes; an exception of that second call leaves the function *)
  Definition setup_assertion (p : cpolicy) (identity : ava) (sp : str) (md : option mdview)
             (best_effort : bool) : outcome :=
    match apply_policy p identity sp md with
    | Ok a => Asserted a
    | Err e => if str_eqb e MissingValue
               then (if best_effort
                     then match apply_policy_with true p identity sp md with
                          | Ok a => Asserted a
                          | Err e' => Raised e'
                          end
                     else ErrorResponse)
               else Raised e
    end.

  (* Server._authn_response (not pefim) / create_authn_response: best_effort is the literal True *)
  Definition authn_response (p : cpolicy) (identity : ava) (sp : str) (md : option mdview) : outcome :=
    setup_assertion p identity sp md true.

  (* HISTORY: Server.setup_assertion before the repair proposed_fix/C07-1: the swallowed
     MissingValue left the dict untouched and the UNFILTERED identity was asserted *)
  Definition setup_assertion_before_fix (p : cpolicy) (identity : ava) (sp : str) (md : option mdview)
             (best_effort : bool) : outcome :=
    match apply_policy p identity sp md with
    | Ok a => Asserted a
    | Err e => if str_eqb e MissingValue
               then (if best_effort then Asserted identity      (* exception swallowed, ast untouched *)
                     else ErrorResponse)
               else Raised e
    end.

  Definition authn_response_before_fix (p : cpolicy) (identity : ava) (sp : str) (md : option mdview) : outcome :=
    setup_assertion_before_fix p identity sp md true.

  (* Server.create_attribute_response: policy = config "aa" policy (None when not configured) *)
  Definition attribute_response (p : option cpolicy) (identity : ava) (sp : str) (md : option mdview) : outcome :=
    match identity with
    | [] => Asserted []                                             (* if identity: ... no assertion at all *)
    | _ :: _ =>
        match p with
        | None => Asserted identity                                 (* no policy configured *)
        | Some pol => match apply_policy pol identity sp md with
                      | Ok a => Asserted a
                      | Err e => Raised e
                      end
        end
    end.

  (* ---- the property as a decidable predicate (used for witnesses; the Prop
         statement is in Proofs/Policy_lemmas.v) ------------------------------ *)
  Definition sub_identity (identity a : ava) : bool :=
    forallb (fun e => match lookup (fst e) identity with
                      | Some ivs => forallb (fun v => mem_str v ivs) (snd e)
                      | None => false
                      end) a.

  Definition ar_ok (r : restrictions) (a : ava) : bool :=
    forallb (fun e => match lookup (lower (fst e)) r with
                      | None => false
                      | Some None => true
                      | Some (Some rxs) => forallb (fun v => existsb (fun rx => matches rx v) rxs) (snd e)
                      end) a.
End Filters.

(* ========================================================================== *)
(* per-case instantiation of the external components by finite tables *)
Definition tbl_matches (t : list (str * str)) (rx v : str) : bool :=
  existsb (fun p => str_eqb (fst p) rx && str_eqb (snd p) v) t.

Definition tbl_lname (t : list ((str * str) * str)) (nf name : str) : option str :=
  match find (fun r => str_eqb (fst (fst r)) nf && str_eqb (snd (fst r)) name) t with
  | Some r => Some (snd r)
  | None => None
  end.

(* ---- canonical observables: names sorted, values sorted and de-duplicated -- *)
Fixpoint str_ltb (a b : str) : bool :=
  match a, b with
  | [], [] => false
  | [], _ :: _ => true
  | _ :: _, [] => false
  | x :: a', y :: b' => if x <? y then true else if y <? x then false else str_ltb a' b'
  end.

Fixpoint ins_str (x : str) (l : list str) : list str :=
  match l with
  | [] => [x]
  | y :: r => if str_ltb x y then x :: y :: r else if str_eqb x y then y :: r else y :: ins_str x r
  end.
Definition sort_set (l : list str) : list str := fold_right ins_str [] l.

Fixpoint ins_entry (e : str * list str) (l : list (str * list str)) : list (str * list str) :=
  match l with
  | [] => [e]
  | y :: r => if str_ltb (fst e) (fst y) then e :: y :: r else y :: ins_entry e r
  end.

Definition show_ava (a : ava) : val :=
  VL (map (fun e => VL [VS (fst e); VL (map VS (sort_set (snd e)))]) (fold_right ins_entry [] a)).

Definition show_ava_result (r : result ava) : val := show_result show_ava r.

Definition show_outcome (o : outcome) : val :=
  match o with
  | Asserted a => VL [VS (s2l "asserted"); show_ava a]
  | ErrorResponse => VL [VS (s2l "error-response")]
  | Raised e => VE e
  end.

(* ---- correspondence entry points (one record per generated case) ---------- *)
Record pcase := {
  c_rx : list (str * str);                 (* (pattern, value) pairs that match *)
  c_ln : list ((str * str) * str);         (* ((name_format, name), local name) *)
  c_pol : rawpolicy;
  c_sp : str;
  c_md : option mdview;
  c_ident : ava
}.

Definition with_policy (c : pcase) (k : cpolicy -> val) : val :=
  match compile (c_pol c) with Ok p => k p | Err e => VE e end.

Definition run_restrict (c : pcase) : val :=
  with_policy c (fun p => show_ava_result (restrict (tbl_matches (c_rx c)) (tbl_lname (c_ln c)) p (c_ident c) (c_sp c) (c_md c))).

Definition run_pfilter (c : pcase) (rq op : list decl) : val :=
  with_policy c (fun p => show_ava_result (pfilter (tbl_matches (c_rx c)) (tbl_lname (c_ln c)) p (c_ident c) (c_sp c) (c_md c) rq op)).

Definition run_authn (c : pcase) : val :=
  with_policy c (fun p => show_outcome (authn_response (tbl_matches (c_rx c)) (tbl_lname (c_ln c)) p (c_ident c) (c_sp c) (c_md c))).

Definition run_setup (c : pcase) (best_effort : bool) : val :=
  with_policy c (fun p => show_outcome (setup_assertion (tbl_matches (c_rx c)) (tbl_lname (c_ln c)) p (c_ident c) (c_sp c) (c_md c) best_effort)).

(* aa = false: no "aa" policy configured *)
Definition run_attribute (c : pcase) (aa : bool) : val :=
  if aa then with_policy c (fun p => show_outcome (attribute_response (tbl_matches (c_rx c)) (tbl_lname (c_ln c)) (Some p) (c_ident c) (c_sp c) (c_md c)))
  else show_outcome (attribute_response (tbl_matches (c_rx c)) (tbl_lname (c_ln c)) None (c_ident c) (c_sp c) (c_md c)).

Definition run_foa (c : pcase) (rq op : list decl) (fail : bool) : val :=
  show_ava_result (filter_on_attributes (tbl_lname (c_ln c)) (c_ident c) rq op fail).

Definition run_favs (c : pcase) (r : option restrictions) : val :=
  show_ava (favs (tbl_matches (c_rx c)) (c_ident c) r).

Definition run_ecs (names : list str) (md : option mdview) (required : list decl) : val :=
  match compile_ec names with
  | Ok maps => VL (map VS (sort_set (post_entity_categories maps md required)))
  | Err e => VE e
  end.
