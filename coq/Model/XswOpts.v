(* C01, round 4 (additions; Model/Xsw.v and Model/XswIds.v stay as they are).

   (a) Whether the identifier is handed to the tool AT ALL.  validate_signature appends `--node-id <id>` as two argv
       elements `if node_id:`; a tool run started without it verifies the FIRST signature of the document
       (tool_first_signature = tool_verify with no start id).  check_signature_h makes the hand-over a parameter
       h : id -> option id (None = no --node-id in the argv), so that the theorems can say what depends on the id
       always being handed over, whatever characters it consists of. *)
From PV Require Import Lib.Base Model.Xsw.
Import ListNotations.
Open Scope N_scope.

Definition tool_first_signature (pol : dup_policy) (doc : tree) (nm : N) (cert : N) : bool :=
  tool_verify pol doc nm None cert.

Definition tool_run (pol : dup_policy) (doc : tree) (nm : N) (handed : option str) (cert : N) : bool :=
  match handed with
  | Some w => tool_verify pol doc nm (Some w) cert
  | None => tool_first_signature pol doc nm cert
  end.

Definition check_signature_h (h : str -> option str) (pol : dup_policy) (doc : tree) (nm : N) (i : option str) (certs : list N) : bool :=
  precheck doc nm i && existsb (tool_run pol doc nm (match i with Some v => h v | None => None end)) certs.

(* the code: `if node_id: com_list.extend(['--node-id', node_id])` - one argv element, no look at the characters *)
Definition handover_code (v : str) : option str := match v with [] => None | _ => Some v end.

(* NOT the code: a hand-over that leaves out ids that look like an option of the tool (leading '-') *)
Definition DASH : N := 45.
Definition handover_drops_options (v : str) : option str :=
  match v with [] => None | c :: _ => if N.eqb c DASH then None else Some v end.
