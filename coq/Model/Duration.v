(* Model/Duration.v - time_util.parse_duration (what validate.valid_duration runs), followed line by line.
   The model follows time_util.py WITH the repair proposed_fix/C13-4 (numbers are [0-9]+ / [0-9]+.[0-9]+, a date
   designator is looked for before the T only); the code as it was is kept as parse_duration_py_numbers (python
   int() / float() grammar for the numbers, designators searched in the whole rest) and parse_duration_before_fix
   (the same without the final index != dlen test, /repo before 24b91977).

   The python code walks an index through the string; the model carries the REST r = duration[index:] instead:
   duration[index] is the head of r, index == dlen is r = [], mod + index + 1 == dlen is "nothing follows the
   designator that was found".  Every exception is an Err with the class name (the validator only tells raise /
   not raise apart).  Definitions only. *)
From PV Require Import Lib.Base.
Open Scope N_scope.

Definition D_INDEX_ERROR : str := s2l "IndexError".
Definition D_ASSERTION_ERROR : str := s2l "AssertionError".
Definition D_EXCEPTION : str := s2l "Exception".

(* what ends up in the dictionary: an int, a float read from  digits . digits  (integer part, fraction digits),
   or - python float() grammar only - a float given by its text *)
Inductive num := NInt (z : Z) | NDec (ipart : Z) (frac : str) | NFloat (text : str).
Inductive slot := SYear | SMon | SDay | SHour | SMin | SSec.
Record fields := F { f_year : num; f_mon : num; f_mday : num; f_hour : num; f_min : num; f_sec : num }.
Definition zero_fields : fields := F (NInt 0) (NInt 0) (NInt 0) (NInt 0) (NInt 0) (NInt 0).
Definition set_field (t : slot) (n : num) (f : fields) : fields :=
  match t with
  | SYear => F n (f_mon f) (f_mday f) (f_hour f) (f_min f) (f_sec f)
  | SMon => F (f_year f) n (f_mday f) (f_hour f) (f_min f) (f_sec f)
  | SDay => F (f_year f) (f_mon f) n (f_hour f) (f_min f) (f_sec f)
  | SHour => F (f_year f) (f_mon f) (f_mday f) n (f_min f) (f_sec f)
  | SMin => F (f_year f) (f_mon f) (f_mday f) (f_hour f) n (f_sec f)
  | SSec => F (f_year f) (f_mon f) (f_mday f) (f_hour f) (f_min f) n
  end.

(* D_FORMAT: (code, typ); Y M D T H M S *)
Definition C_T : N := 84.
Definition D_FORMAT : list (N * option slot) :=
  [(89, Some SYear); (77, Some SMon); (68, Some SDay); (C_T, None); (72, Some SHour); (77, Some SMin); (83, Some SSec)].

(* ---- the numbers of the repaired code: _integer = [0-9]+\Z then int(); _decimal = [0-9]+\.[0-9]+\Z then float() *)
Definition d_digit (c : N) : bool := (48 <=? c) && (c <=? 57).
Definition all_digits (s : str) : bool := match s with [] => false | _ => forallb d_digit s end.
Fixpoint digits_val (s : str) (acc : Z) : Z :=
  match s with [] => acc | c :: s' => digits_val s' (acc * 10 + Z.of_N (c - 48))%Z end.
Definition dec_int (v : str) : option Z := if all_digits v then Some (digits_val v 0%Z) else None.
(* s.index(c): what precedes the first c and what follows it *)
Fixpoint split_at (c : N) (s : str) : option (str * str) :=
  match s with
  | [] => None
  | x :: s' => if x =? c then Some ([], s')
               else match split_at c s' with Some (a, b) => Some (x :: a, b) | None => None end
  end.
Definition dec_float (v : str) : option num :=
  match split_at 46 v with
  | Some (a, b) => if all_digits a && all_digits b then Some (NDec (digits_val a 0%Z) b) else None
  | None => None
  end.

(* ---- the numbers of the code as it was: python int() and float(), ASCII *)
Definition py_ws (c : N) : bool := (c =? 32) || ((9 <=? c) && (c <=? 13)).      (* int() and float() do not strip 0x1c-0x1f (probed) *)
Fixpoint py_lstrip (s : str) : str := match s with c :: s' => if py_ws c then py_lstrip s' else s | [] => [] end.
Definition py_strip (s : str) : str := rev (py_lstrip (rev (py_lstrip s))).
(* digit (["_"] digit)* , the whole of s *)
Fixpoint digitpart (s : str) (acc : Z) (prev_digit : bool) : option Z :=
  match s with
  | [] => if prev_digit then Some acc else None
  | c :: s' => if d_digit c then digitpart s' (acc * 10 + Z.of_N (c - 48))%Z true
               else if (c =? 95) && prev_digit then digitpart s' acc false
               else None
  end.
Definition unsign (s : str) : bool * str :=
  match s with 45 :: d => (true, d) | 43 :: d => (false, d) | d => (false, d) end.
Definition py_int (v : str) : option Z :=
  let '(neg, d) := unsign (py_strip v) in
  match digitpart d 0%Z false with Some z => Some (if neg then (- z)%Z else z) | None => None end.
Definition lower (s : str) : str := map (fun c => if (65 <=? c) && (c <=? 90) then c + 32 else c) s.
Definition opt_digitpart (s : str) : bool := match s with [] => true | _ => match digitpart s 0%Z false with Some _ => true | None => false end end.
Definition py_mantissa (m : str) : bool :=
  match split_at 46 m with
  | Some (a, b) => opt_digitpart a && opt_digitpart b && negb (match a, b with [], [] => true | _, _ => false end)
  | None => match digitpart m 0%Z false with Some _ => true | None => false end
  end.
Definition py_float_ok (v : str) : bool :=
  let '(_, d) := unsign (py_strip v) in
  let l := lower d in
  if str_eqb l (s2l "inf") || str_eqb l (s2l "infinity") || str_eqb l (s2l "nan") then true
  else match split_at 101 l with                                  (* e / E *)
       | Some (m, e) => py_mantissa m && match digitpart (snd (unsign e)) 0%Z false with Some _ => true | None => false end
       | None => py_mantissa l
       end.
Definition py_float (v : str) : option num := if py_float_ok v then Some (NFloat v) else None.

Definition is_nil {A} (l : list A) : bool := match l with [] => true | _ => false end.

Section Loop.
  Variable int_of : str -> option Z.        (* None = ValueError *)
  Variable float_of : str -> option num.    (* None = ValueError *)
  Variable cut : bool.                      (* C13-4: before the time part a designator is looked for in rest.split(T)[0] *)

  (* rest.index(code) over rest = r, or r.split(T)[0] when stop_at_T: the value text before the first code, and
     what follows the code in r (nothing follows = mod + index + 1 == dlen) *)
  Fixpoint find_code (code : N) (stop_at_T : bool) (r : str) : option (str * str) :=
    match r with
    | [] => None
    | x :: r' => if x =? code then Some ([], r')
                 else if stop_at_T && (x =? C_T) then None
                 else match find_code code stop_at_T r' with Some (a, b) => Some (x :: a, b) | None => None end
    end.

  Inductive outcome := Stay | Advance (n : num) (after : str) | Raise (e : str).
  Definition comma_to_dot (v : str) : str := map (fun c => if c =? 44 then 46 else c) v.

  (* the try block of an item that is not T *)
  Definition item (code : N) (time_part : bool) (r : str) : outcome :=
    match find_code code (cut && negb time_part) r with
    | None => Stay                                       (* ValueError of index(): except ValueError: dic[typ] = 0 *)
    | Some (val, after) =>
        match int_of val with
        | Some z => Advance (NInt z) after
        | None =>
            if is_nil after then                         (* mod + index + 1 == dlen: the smallest value may carry a fraction *)
              match float_of val with
              | Some f => Advance f after
              | None =>
                  if existsb (N.eqb 44) val then
                    match float_of (comma_to_dot val) with
                    | Some f => Advance f after
                    | None => Raise D_EXCEPTION          (* Not a float *)
                    end
                  else Raise D_EXCEPTION
              end
            else Stay                                    (* ValueError(Fraction not allowed ...) is caught by the OUTER except ValueError *)
        end
    end.

  (* for code, typ in D_FORMAT *)
  Fixpoint loop (fmt : list (N * option slot)) (time_part : bool) (r : str) (dic : fields) : result (str * fields) :=
    match fmt with
    | [] => Ok (r, dic)
    | (code, typ) :: fmt' =>
        match r with
        | [] => Err D_INDEX_ERROR                        (* duration[index] *)
        | ch :: r' =>
            if ch =? 45 then Err D_EXCEPTION             (* Negation not allowed on individual items *)
            else match typ with
                 | None =>                               (* code == T *)
                     if ch =? C_T then
                       if is_nil r' then Err D_EXCEPTION (* Not allowed to end with T *)
                       else loop fmt' true r' dic
                     else Err D_EXCEPTION                (* Missing T *)
                 | Some t =>
                     if ch =? C_T then loop fmt' time_part r dic           (* continue *)
                     else match item code time_part r with
                          | Raise e => Err e
                          | Stay => loop fmt' time_part r (set_field t (NInt 0) dic)
                          | Advance n after =>
                              if is_nil after then Ok (after, set_field t n dic)       (* index == dlen: break *)
                              else loop fmt' time_part after (set_field t n dic)
                          end
                 end
        end
    end.

  Definition parse_with (final_check : bool) (s : str) : result (bool * fields) :=
    match s with
    | [] => Err D_INDEX_ERROR                            (* duration[0] *)
    | c0 :: s0 =>
        let neg := c0 =? 45 in
        match (if neg then s0 else s) with
        | [] => Err D_INDEX_ERROR                        (* duration[index] *)
        | p :: r =>
            if p =? 80 then
              match loop D_FORMAT false r zero_fields with
              | Err e => Err e
              | Ok (r', dic) =>
                  if final_check && negb (is_nil r') then Err D_EXCEPTION     (* Unparsable trailing characters in duration *)
                  else Ok (neg, dic)
              end
            else Err D_ASSERTION_ERROR
        end
    end.
End Loop.

(* time_util.parse_duration with proposed_fix/C13-4 *)
Definition parse_duration : str -> result (bool * fields) := parse_with dec_int dec_float true true.
(* as /repo has it at 24b91977: python number grammar, designators searched in the whole rest *)
Definition parse_duration_py_numbers : str -> result (bool * fields) := parse_with py_int py_float false true.
(* before 24b91977: no test of index against the length after the loop *)
Definition parse_duration_before_fix : str -> result (bool * fields) := parse_with py_int py_float false false.

(* validate.valid_duration: parse_duration does not raise *)
Definition prim_duration (v : str) : bool := is_ok (parse_duration v).

(* ---- observables *)
Fixpoint rstrip0 (s : str) : str :=       (* fraction digits without trailing zeros *)
  match s with
  | [] => []
  | c :: s' => match rstrip0 s' with [] => if c =? 48 then [] else [c] | t => c :: t end
  end.
Definition show_num (n : num) : val :=
  match n with
  | NInt z => VZ z
  | NDec i f => VL [VZ i; VS (rstrip0 f)]
  | NFloat t => VL [VS t]
  end.
Definition show_duration (r : result (bool * fields)) : val :=
  match r with
  | Err e => VE (s2l "raises")
  | Ok (neg, f) => VL [VB neg; show_num (f_year f); show_num (f_mon f); show_num (f_mday f);
                       show_num (f_hour f); show_num (f_min f); show_num (f_sec f)]
  end.
