(* C10 - the IssueInstant window of a request ON TEXTS, with the clock sources of the process made explicit.

   request.py  Request.issue_instant_ok:
       upper = shift_time(time_in_a_while(days=1),  self.timeslack).timetuple()     datetime.utcnow() + ...
       lower = shift_time(time_a_while_ago(days=1), -self.timeslack).timetuple()    datetime.utcnow() - ...
       issued_at = str_to_time(self.message.issue_instant)                          time.gmtime(calendar.timegm(strptime(text)))
       return issued_at > lower and issued_at < upper                               comparison of time tuples
   Model/TimeUtil.v has the calendar (timegm, gmtime), strptime / str_to_time on texts, datetime.timetuple and the
   tuple order; issue_window there is the test on tuples.  Here: the process clock = (the instant time.time() reads,
   how far the wall clock of the zone in force is ahead of UTC), every clock function the library could reach as a
   function of it, the window test of the code as it is (window_text: utcnow and timegm only) and two variants that
   take a zone-dependent reading for now (named _local_now / _mktime_now; they are NOT the code, they carry the
   refutation witnesses of Props/C10.v). *)
From PV Require Import Lib.Base Model.TimeUtil.
Open Scope Z_scope.

(* the clock of the process.  pc_ahead: seconds the local wall clock is ahead of UTC (Asia/Tokyo 32400, America/New_York
   in summer -14400, Pacific/Kiritimati 50400); constant - exact for zones without transitions, and for the others away
   from a transition *)
Record pclock := { pc_now : Z; pc_ahead : Z }.

(* naive datetimes are represented by the instant their fields spell when read as UTC (what timetuple + timegm gives) *)
Definition dt_utcnow (k : pclock) : Z := pc_now k.                       (* datetime.utcnow() *)
Definition dt_now (k : pclock) : Z := pc_now k + pc_ahead k.             (* datetime.now(), datetime.today() *)
Definition t_gmtime_now (k : pclock) : struct_time := gmtime (pc_now k).  (* time.gmtime() *)
Definition t_localtime (k : pclock) (t : Z) : struct_time := gmtime (t + pc_ahead k).    (* time.localtime(t), tm_isdst aside *)
Definition t_mktime (k : pclock) (c : struct_time) : Z := timegm c - pc_ahead k.          (* time.mktime(tuple): tuple read as LOCAL *)
Definition utc_time_sans_frac (k : pclock) : Z := t_mktime k (t_gmtime_now k).            (* time_util.utc_time_sans_frac: mktime(gmtime()) *)

(* the test for a given reading of now; an empty text makes str_to_time return the integer 0, and 0 > tuple raises *)
Definition window_on (now slack : Z) (s : str) : result bool :=
  match str_to_time s with
  | Ok (Some c) => Ok (issue_window now slack c)
  | Ok None => Err TypeError
  | Err e => Err e
  end.

(* THE CODE: now = datetime.utcnow() *)
Definition window_text (k : pclock) (slack : Z) (s : str) : result bool := window_on (dt_utcnow k) slack s.

(* variants (not the code) *)
Definition window_text_mktime_now (k : pclock) (slack : Z) (s : str) : result bool := window_on (utc_time_sans_frac k) slack s.
Definition window_text_local_now (k : pclock) (slack : Z) (s : str) : result bool := window_on (dt_now k) slack s.
(* the text converted with mktime instead of timegm: issued_at = gmtime(mktime(strptime(text))) *)
Definition window_text_mktime_text (k : pclock) (slack : Z) (s : str) : result bool :=
  match str_to_time s with
  | Ok (Some c) => Ok (issue_window (dt_utcnow k) slack (gmtime (t_mktime k c)))
  | Ok None => Err TypeError
  | Err e => Err e
  end.

(* the property's window on instants *)
Definition within (now slack t : Z) : bool := (now - 86400 - slack <=? t) && (t <? now + 86400 + slack).

Definition show_window (r : result bool) : val := show_result VB r.
(* (now, ahead, slack, text) *)
Definition run_window_text (a : Z * Z * Z * str) : val :=
  let '(now, ahead, slack, s) := a in show_window (window_text (Build_pclock now ahead) slack s).
