(* Model/Xmlsec.v — symbolic XML documents with signatures, the node-selection
   semantics of `xmlsec1 --verify --id-attr:ID <name> --node-id <id>` as
   described in DESIGN.md 4.3 (and implemented by the stand-in tool), and the
   enveloping pre-check SecurityContext._check_signature makes on the text it
   hands to the tool (sigver.py, _enveloped_signature_ok).

   Cryptography is symbolic: a Signature node records, per Reference, the URI
   and THE DIGESTED CONTENT ITSELF (a tree), the key that produced the
   SignatureValue and whether that value is intact. *)
From PV Require Import Lib.Base.
Open Scope N_scope.

Inductive tree :=
| El (name : N) (id : option str) (payload : N) (kids : list tree)   (* payload: all other attributes + text *)
| Sg (refs : list (str * tree)) (key : N) (sv_ok : bool).

Definition path := list nat.       (* child indexes from the root *)

Fixpoint subtree_at (p : path) (t : tree) : option tree :=
  match p with
  | [] => Some t
  | k :: p' => match t with
               | El _ _ _ kids => match nth_error kids k with Some c => subtree_at p' c | None => None end
               | Sg _ _ _ => None
               end
  end.

Fixpoint remove_nth {A} (k : nat) (l : list A) : list A :=
  match l, k with
  | [], _ => []
  | _ :: r, O => r
  | x :: r, S k' => x :: remove_nth k' r
  end.
Fixpoint replace_nth {A} (k : nat) (y : A) (l : list A) : list A :=
  match l, k with
  | [], _ => []
  | _ :: r, O => y :: r
  | x :: r, S k' => x :: replace_nth k' y r
  end.

(* the tree with the node at path p removed (enveloped-signature transform) *)
Fixpoint remove_at (p : path) (t : tree) : tree :=
  match p, t with
  | [k], El n i pl kids => El n i pl (remove_nth k kids)
  | k :: p', El n i pl kids =>
      match nth_error kids k with
      | Some c => El n i pl (replace_nth k (remove_at p' c) kids)
      | None => t
      end
  | _, _ => t
  end.

Definition is_sig (t : tree) : bool := match t with Sg _ _ _ => true | El _ _ _ _ => false end.

(* path of the first Signature in document order strictly inside t *)
Fixpoint first_sig (t : tree) : option path :=
  match t with
  | Sg _ _ _ => None
  | El _ _ _ kids =>
      (fix go (l : list tree) (k : nat) : option path :=
         match l with
         | [] => None
         | c :: r =>
             if is_sig c then Some [k]
             else match first_sig c with
                  | Some p => Some (k :: p)
                  | None => go r (S k)
                  end
         end) kids O
  end.

(* registered IDs: every element named [nm] carrying an ID, with its absolute path, in document order *)
Fixpoint registered (nm : N) (t : tree) (here : path) : list (str * path) :=
  match t with
  | Sg _ _ _ => []
  | El n i _ kids =>
      (match i with Some v => if N.eqb n nm then [(v, here)] else [] | None => [] end) ++
      (fix go (l : list tree) (k : nat) : list (str * path) :=
         match l with
         | [] => []
         | c :: r => registered nm c (here ++ [k]) ++ go r (S k)
         end) kids O
  end.

Definition with_id (i : str) (regs : list (str * path)) : list (str * path) :=
  filter (fun r => str_eqb (fst r) i) regs.

Fixpoint lookup_id (i : str) (regs : list (str * path)) : option path :=
  match regs with
  | [] => None
  | (v, p) :: r => if str_eqb v i then Some p else lookup_id i r
  end.

Fixpoint has_dup (regs : list (str * path)) : bool :=
  match regs with
  | [] => false
  | (v, _) :: r => (match lookup_id v r with Some _ => true | None => false end) || has_dup r
  end.

Fixpoint is_prefix (a b : path) : bool :=
  match a, b with
  | [], _ => true
  | x :: a', y :: b' => Nat.eqb x y && is_prefix a' b'
  | _, [] => false
  end.

(* structural equality of trees (= equality of canonical forms) *)
Fixpoint tree_eqb (a b : tree) {struct a} : bool :=
  match a, b with
  | El n1 i1 p1 k1, El n2 i2 p2 k2 =>
      N.eqb n1 n2 && (match i1, i2 with Some x, Some y => str_eqb x y | None, None => true | _, _ => false end) && N.eqb p1 p2 &&
      (fix go (l1 l2 : list tree) : bool :=
         match l1, l2 with
         | [], [] => true
         | x :: r1, y :: r2 => tree_eqb x y && go r1 r2
         | _, _ => false
         end) k1 k2
  | Sg r1 key1 ok1, Sg r2 key2 ok2 =>
      N.eqb key1 key2 && Bool.eqb ok1 ok2 &&
      (fix go (l1 l2 : list (str * tree)) : bool :=
         match l1, l2 with
         | [], [] => true
         | (u1, d1) :: q1, (u2, d2) :: q2 => str_eqb u1 u2 && tree_eqb d1 d2 && go q1 q2
         | _, _ => false
         end) r1 r2
  | _, _ => false
  end.

Definition HASH : N := 35.   (* '#' *)

(* resolve a Reference URI: "" = the document, "#x" = the element whose REGISTERED id is x *)
Definition resolve (uri : str) (regs : list (str * path)) : option path :=
  match uri with
  | [] => Some []
  | c :: x => if N.eqb c HASH then lookup_id x regs else None      (* other URIs are not enabled *)
  end.

(* xmlsec1 --verify --pubkey-cert-pem <cert> --id-attr:ID <nm> --node-id <i> doc *)
(* [dupfail]: what the tool does when two registered elements carry the same ID value:
   true = refuse (the stand-in's default), false = first one wins *)
Definition tool_verify (dupfail : bool) (doc : tree) (nm : N) (i : option str) (cert : N) : bool :=
  let regs := registered nm doc [] in
  if dupfail && has_dup regs then false else
  match (match i with Some v => lookup_id v regs | None => Some [] end) with
  | None => false
  | Some px =>
      match subtree_at px doc with
      | None => false
      | Some X =>
          match first_sig X with
          | None => false
          | Some p =>
              let ps := px ++ p in                       (* absolute path of the signature being processed *)
              match subtree_at ps doc with
              | Some (Sg refs key sv) =>
                  sv && N.eqb key cert && negb (match refs with [] => true | _ => false end) &&
                  forallb (fun ud =>
                     match resolve (fst ud) regs with
                     | None => false
                     | Some pt =>
                         match subtree_at pt doc with
                         | None => false
                         | Some T =>
                             let T' := if is_prefix pt ps then remove_at (skipn (List.length pt) ps) T else T in
                             tree_eqb (snd ud) T'
                         end
                     end) refs
              | _ => false
              end
          end
      end
  end.

Definition count_sigs (l : list tree) : nat := List.length (filter is_sig l).

(* every element carrying an ID, whatever its name, with its absolute path, in document order
   (root.iter() in _enveloped_signature_ok; the tool only registers the elements named [nm]) *)
Fixpoint all_ids (t : tree) (here : path) : list (str * path) :=
  match t with
  | Sg _ _ _ => []
  | El _ i _ kids =>
      (match i with Some v => [(v, here)] | None => [] end) ++
      (fix go (l : list tree) (k : nat) : list (str * path) :=
         match l with
         | [] => []
         | c :: r => all_ids c (here ++ [k]) ++ go r (S k)
         end) kids O
  end.

(* the pre-check of _check_signature on the text handed to the tool
   (sigver._enveloped_signature_ok): exactly one element of the document - of ANY
   name - carries the ID, and that element has the asked name; the first
   ds:Signature in document order inside it is a direct child and its only
   Signature child; that signature has a single Reference whose URI is "#" + ID *)
Definition precheck (doc : tree) (nm : N) (i : option str) : bool :=
  match i with
  | None => false
  | Some v =>
      match v with [] => false | _ =>
      match with_id v (all_ids doc []) with
      | [(_, px)] =>
          match subtree_at px doc with
          | Some (El n xi pl kids) =>
              N.eqb n nm &&
              match first_sig (El n xi pl kids) with
              | Some [k] =>
                  Nat.eqb (count_sigs kids) 1 &&
                  match nth_error kids k with
                  | Some (Sg [(u, _)] _ _) => str_eqb u (HASH :: v)
                  | _ => false
                  end
              | _ => false
              end
          | _ => false
          end
      | _ => false
      end end
  end.

(* SecurityContext._check_signature: pre-check, then some candidate certificate must verify *)
Definition check_signature_x (dupfail : bool) (doc : tree) (nm : N) (i : option str) (certs : list N) : bool :=
  precheck doc nm i && existsb (tool_verify dupfail doc nm i) certs.

(* the same WITHOUT the pre-check: the code before the repair *)
Definition check_signature_before_fix (dupfail : bool) (doc : tree) (nm : N) (i : option str) (certs : list N) : bool :=
  existsb (tool_verify dupfail doc nm i) certs.
