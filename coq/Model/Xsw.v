(* Model/Xsw.v — symbolic XML documents with enveloped signatures (C01).

   Refines Model/Xmlsec.v (kept for C10): a ds:Signature node now carries its
   own ID attribute, payload and element children (SignedInfo, KeyInfo,
   ds:Object ... — so content parked inside a ds:Object is part of the
   document), the stand-in tool's three duplicate-ID policies are modelled, and
   the pre-check is the one sigver._enveloped_signature_ok makes on the text
   handed to the tool.

   Cryptography is symbolic: a Signature node records, per Reference, the URI
   and THE DIGESTED CONTENT ITSELF (a tree: a digest is its preimage), the key
   that produced the SignatureValue and whether that value is intact over the
   present SignedInfo.  Definitions only. *)
From PV Require Import Lib.Base.
Open Scope N_scope.

Inductive tree :=
| El (name : N) (id : option str) (payload : N) (kids : list tree)
      (* payload: every attribute but ID, text and tails (interned by the harness) *)
| Sg (refs : list (str * tree)) (key : N) (sv_ok : bool)
     (id : option str) (payload : N) (kids : list tree).
      (* ds:Signature: refs = (URI, digested content) of each Reference of its SignedInfo *)

Definition SIGNAME : N := 0.          (* the name of ds:Signature; the harness interns other names from 1 *)
Definition t_name (t : tree) : N := match t with El n _ _ _ => n | Sg _ _ _ _ _ _ => SIGNAME end.
Definition t_id (t : tree) : option str := match t with El _ i _ _ => i | Sg _ _ _ i _ _ => i end.
Definition t_kids (t : tree) : list tree := match t with El _ _ _ k => k | Sg _ _ _ _ _ k => k end.
Definition with_kids (t : tree) (k : list tree) : tree :=
  match t with El n i pl _ => El n i pl k | Sg r ky sv i pl _ => Sg r ky sv i pl k end.
Definition is_sig (t : tree) : bool := match t with Sg _ _ _ _ _ _ => true | El _ _ _ _ => false end.

Definition path := list nat.       (* child indexes from the root *)

Fixpoint subtree_at (p : path) (t : tree) : option tree :=
  match p with
  | [] => Some t
  | k :: p' => match nth_error (t_kids t) k with Some c => subtree_at p' c | None => None end
  end.

Fixpoint remove_nth {A} (k : nat) (l : list A) : list A :=
  match l, k with
  | [], _ => []
  | _ :: r, O => r
  | x :: r, S k' => x :: remove_nth k' r
  end.
Fixpoint replace_nth {A} (k : nat) (y : A) (l : list A) : list A :=
  match l, k with
  | [], _ => []
  | _ :: r, O => y :: r
  | x :: r, S k' => x :: replace_nth k' y r
  end.

(* the tree with the node at path p removed (enveloped-signature transform); [] removes nothing *)
Fixpoint remove_at (p : path) (t : tree) : tree :=
  match p with
  | [] => t
  | k :: p' =>
      match p' with
      | [] => with_kids t (remove_nth k (t_kids t))
      | _ :: _ => match nth_error (t_kids t) k with
                  | Some c => with_kids t (replace_nth k (remove_at p' c) (t_kids t))
                  | None => t
                  end
      end
  end.

(* first Signature in document order among the nodes of a forest; [f] looks inside a non-signature node *)
Definition first_in (f : tree -> option path) : list tree -> nat -> option path :=
  fix go (l : list tree) (k : nat) : option path :=
    match l with
    | [] => None
    | c :: r => if is_sig c then Some [k]
                else match f c with Some p => Some (k :: p) | None => go r (S k) end
    end.

(* path of the first Signature in document order STRICTLY inside t *)
Fixpoint first_sig (t : tree) : option path :=
  match t with
  | El _ _ _ kids => first_in first_sig kids O
  | Sg _ _ _ _ _ kids => first_in first_sig kids O
  end.
(* ... the node itself included (ElementTree.iter starts with the node) *)
Definition first_sig_incl (t : tree) : option path := if is_sig t then Some [] else first_sig t.

(* the (ID value, path) of every node satisfying [f] that carries an ID attribute, in document order,
   paths relative to t *)
Definition ids_in (g : tree -> list (str * path)) : list tree -> nat -> list (str * path) :=
  fix go (l : list tree) (k : nat) : list (str * path) :=
    match l with
    | [] => []
    | c :: r => map (fun vp => (fst vp, k :: snd vp)) (g c) ++ go r (S k)
    end.
Definition own_id (f : tree -> bool) (t : tree) : list (str * path) :=
  match t_id t with Some v => if f t then [(v, [])] else [] | None => [] end.
Fixpoint ids_where (f : tree -> bool) (t : tree) : list (str * path) :=
  match t with
  | El _ _ _ kids => own_id f t ++ ids_in (ids_where f) kids O
  | Sg _ _ _ _ _ kids => own_id f t ++ ids_in (ids_where f) kids O
  end.

(* --id-attr:ID <name>: the ID attribute of every element with that name is an XML ID *)
Definition registered (nm : N) (doc : tree) : list (str * path) := ids_where (fun t => N.eqb (t_name t) nm) doc.
(* every node of the document carrying ID = v *)
Definition carriers (v : str) (doc : tree) : list path :=
  map snd (filter (fun r => str_eqb (fst r) v) (ids_where (fun _ => true) doc)).

Fixpoint lookup_id (i : str) (regs : list (str * path)) : option path :=
  match regs with
  | [] => None
  | (v, p) :: r => if str_eqb v i then Some p else lookup_id i r
  end.

Fixpoint has_dup (regs : list (str * path)) : bool :=
  match regs with
  | [] => false
  | (v, _) :: r => (match lookup_id v r with Some _ => true | None => false end) || has_dup r
  end.

(* what the tool does with two registered elements carrying the same ID value *)
Inductive dup_policy := DupFail | DupFirst | DupLast.
Definition dup_refused (pol : dup_policy) (regs : list (str * path)) : bool :=
  match pol with DupFail => has_dup regs | _ => false end.
Definition lookup (pol : dup_policy) (i : str) (regs : list (str * path)) : option path :=
  match pol with DupLast => lookup_id i (rev regs) | _ => lookup_id i regs end.

Fixpoint is_prefix (a b : path) : bool :=
  match a, b with
  | [], _ => true
  | x :: a', y :: b' => Nat.eqb x y && is_prefix a' b'
  | _, [] => false
  end.

Definition opt_str_eqb (a b : option str) : bool :=
  match a, b with Some x, Some y => str_eqb x y | None, None => true | _, _ => false end.

(* structural equality of trees (= equality of canonical forms = equality of digests) *)
Definition list_eqb {A} (f : A -> A -> bool) : list A -> list A -> bool :=
  fix go (l1 l2 : list A) : bool :=
    match l1, l2 with
    | [], [] => true
    | x :: r1, y :: r2 => f x y && go r1 r2
    | _, _ => false
    end.
Fixpoint tree_eqb (a b : tree) {struct a} : bool :=
  match a, b with
  | El n1 i1 p1 k1, El n2 i2 p2 k2 =>
      N.eqb n1 n2 && opt_str_eqb i1 i2 && N.eqb p1 p2 && list_eqb tree_eqb k1 k2
  | Sg r1 key1 ok1 i1 p1 k1, Sg r2 key2 ok2 i2 p2 k2 =>
      N.eqb key1 key2 && Bool.eqb ok1 ok2 && opt_str_eqb i1 i2 && N.eqb p1 p2 &&
      list_eqb (fun x y => match x, y with (u1, d1), (u2, d2) => str_eqb u1 u2 && tree_eqb d1 d2 end) r1 r2 &&
      list_eqb tree_eqb k1 k2
  | _, _ => false
  end.
Definition ref_eqb (r1 r2 : str * tree) : bool :=
  match r1, r2 with (u1, d1), (u2, d2) => str_eqb u1 u2 && tree_eqb d1 d2 end.

Definition HASH : N := 35.   (* '#' *)

(* resolve a Reference URI (--enabled-reference-uris empty,same-doc):
   "" = the document, "#x" = the element whose REGISTERED id is x, anything else refused *)
Definition resolve (pol : dup_policy) (uri : str) (regs : list (str * path)) : option path :=
  match uri with
  | [] => Some []
  | c :: x => if N.eqb c HASH then lookup pol x regs else None
  end.

(* one Reference of the signature at absolute path ps: resolves, and the present content of its
   target — minus the signature being processed when that lies inside — is the digested content *)
Definition ref_ok (pol : dup_policy) (doc : tree) (regs : list (str * path)) (ps : path) (ud : str * tree) : bool :=
  match resolve pol (fst ud) regs with
  | None => false
  | Some pt =>
      match subtree_at pt doc with
      | None => false
      | Some T =>
          let T' := if is_prefix pt ps then remove_at (skipn (List.length pt) ps) T else T in
          tree_eqb (snd ud) T'
      end
  end.

(* xmlsec1 --verify --enabled-reference-uris empty,same-doc --pubkey-cert-pem <cert>
            --id-attr:ID <nm> [--node-id <i>] doc *)
Definition tool_verify (pol : dup_policy) (doc : tree) (nm : N) (i : option str) (cert : N) : bool :=
  let regs := registered nm doc in
  if dup_refused pol regs then false else
  match (match i with Some v => lookup pol v regs | None => Some [] end) with
  | None => false
  | Some px =>
      match subtree_at px doc with
      | None => false
      | Some X =>
          match first_sig_incl X with
          | None => false
          | Some p =>
              let ps := px ++ p in                       (* absolute path of the signature being processed *)
              match subtree_at ps doc with
              | Some (Sg refs key sv _ _ _) =>
                  sv && N.eqb key cert && negb (match refs with [] => true | _ => false end) &&
                  forallb (ref_ok pol doc regs ps) refs
              | _ => false
              end
          end
      end
  end.

(* validate_signature passes --node-id only `if node_id:` *)
Definition node_id_arg (i : option str) : option str :=
  match i with Some [] => None | x => x end.

Definition count_sigs (l : list tree) : nat := List.length (filter is_sig l).

(* sigver._enveloped_signature_ok(decoded_xml, node_name, node_id): node_id non-empty; exactly one node of
   the WHOLE document carries ID = node_id and it is an element named node_name; that element has exactly one
   ds:Signature child, which is the first ds:Signature in document order inside it; the SignedInfo of that
   signature has exactly one Reference and its URI is "#" + node_id *)
Definition precheck (doc : tree) (nm : N) (i : option str) : bool :=
  match i with
  | None => false
  | Some v =>
      match v with [] => false | _ =>
      match carriers v doc with
      | [px] =>
          match subtree_at px doc with
          | Some (El n xi pl kids) =>
              N.eqb n nm &&
              match first_sig (El n xi pl kids) with
              | Some [k] =>
                  Nat.eqb (count_sigs kids) 1 &&
                  match nth_error kids k with
                  | Some (Sg [(u, _)] _ _ _ _ _) => str_eqb u (HASH :: v)
                  | _ => false
                  end
              | _ => false
              end
          | _ => false
          end
      | _ => false
      end end
  end.

(* SecurityContext._check_signature after certificate selection (certs non-empty is C03's part):
   pre-check, then some candidate certificate must verify *)
Definition check_signature_x (pol : dup_policy) (doc : tree) (nm : N) (i : option str) (certs : list N) : bool :=
  precheck doc nm i && existsb (tool_verify pol doc nm (node_id_arg i)) certs.

(* the same WITHOUT the pre-check: the code before the repair *)
Definition check_signature_before_fix (pol : dup_policy) (doc : tree) (nm : N) (i : option str) (certs : list N) : bool :=
  existsb (tool_verify pol doc nm (node_id_arg i)) certs.

(* pysaml2's view of an element it parsed from the node at path px: item.id, and item.signature is set
   iff the node has a ds:Signature child; the caller verifies only when it is set *)
Definition has_sig_child (t : tree) : bool := existsb is_sig (t_kids t).

Inductive verdict := Unsigned | Verified | Refused.
Definition check_item (pol : dup_policy) (doc : tree) (px : path) (nm : N) (certs : list N) : verdict :=
  match subtree_at px doc with
  | None => Refused
  | Some Y => if has_sig_child Y
              then (if check_signature_x pol doc nm (t_id Y) certs then Verified else Refused)
              else Unsigned
  end.
Definition check_item_before_fix (pol : dup_policy) (doc : tree) (px : path) (nm : N) (certs : list N) : verdict :=
  match subtree_at px doc with
  | None => Refused
  | Some Y => if has_sig_child Y
              then (if check_signature_before_fix pol doc nm (t_id Y) certs then Verified else Refused)
              else Unsigned
  end.

(* ---- observables for the correspondence units ---- *)
Definition show_verdict (v : verdict) : val :=
  match v with Unsigned => VS (s2l "unsigned") | Verified => VB true | Refused => VB false end.
Definition pol_of (n : N) : dup_policy := match n with 0 => DupFail | 1 => DupFirst | _ => DupLast end.

(* unit tool: (policy, doc, node name, node id as given on the command line, cert) *)
Definition show_tool (c : N * tree * N * option str * N) : val :=
  let '(pol, doc, nm, i, cert) := c in VB (tool_verify (pol_of pol) doc nm i cert).
(* unit precheck: (doc, node name, node id) *)
Definition show_precheck (c : tree * N * option str) : val :=
  let '(doc, nm, i) := c in VB (precheck doc nm i).
(* unit check_item: (policy, doc, path of the element pysaml2 parsed, node name, candidate certs) *)
Definition show_check_item (c : N * tree * path * N * list N) : val :=
  let '(pol, doc, px, nm, certs) := c in show_verdict (check_item (pol_of pol) doc px nm certs).

(* several queries on one document (the harness prints each document once) *)
Definition show_tool_multi (c : tree * list (N * N * option str * N)) : val :=
  let '(doc, qs) := c in
  VL (map (fun q => let '(pol, nm, i, cert) := q in VB (tool_verify (pol_of pol) doc nm i cert)) qs).
Definition show_check_items (c : tree * list (N * path * N * list N)) : val :=
  let '(doc, qs) := c in
  VL (map (fun q => let '(pol, px, nm, certs) := q in show_verdict (check_item (pol_of pol) doc px nm certs)) qs).
Definition show_check_items_before_fix (c : tree * list (N * path * N * list N)) : val :=
  let '(doc, qs) := c in
  VL (map (fun q => let '(pol, px, nm, certs) := q in show_verdict (check_item_before_fix (pol_of pol) doc px nm certs)) qs).
