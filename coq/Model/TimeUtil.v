(* Model/TimeUtil.v — from the TEXT of a time stamp to the thing that is compared.

   saml2_tophat/time_util.py: str_to_time 235-254, instant 257-261, before 272-286,
   after 289-294, later_than 311-327, with the pieces of the standard library they
   call: calendar.timegm, time.gmtime, time.strptime (CPython 3.12 Lib/_strptime.py)
   with the format %Y-%m-%dT%H:%M:%SZ, time.strftime with the same format, and the
   comparison of time.struct_time values (tuple comparison over ALL nine fields).

   What was measured on the real functions (harness/c04time.py repeats it on every run):
   * _strptime turns the format into the regular expression
       (\d\d\d\d)-(1[0-2]|0[1-9]|[1-9])-(3[0-1]|[1-2]\d|0[1-9]|[1-9]| [1-9])T
       (2[0-3]|[0-1]\d|\d):([0-5]\d|\d):(6[0-1]|[0-5]\d|\d)Z
     compiled IGNORECASE, used with re.match, and demands that the match ends at the end of
     the text (no final line feed).  So: 4-digit year; the other fields ONE or two characters;
     the day may be written blank+digit; T and Z also match t and z (and nothing else);
     seconds 60 and 61 are read (and carried over by timegm: ..:59:61 is one second into the
     next minute); hour 24, minute 60, second 62, month 0/13, day 0/32 do not match.
   * \d is Unicode: the 680 characters of category Nd (68 runs of ten, zero first) match and
     int() reads them; the classes [0-9], [1-9] ... are ASCII only.
   * after the match: datetime.date(year, month, day) raises ValueError for year 0 and for a
     day beyond the month (30 February).  Every failure of strptime is ValueError.
   * the fall-back pattern TIME_FORMAT_WITH_FRAGMENT: group 1 = dddd-dd-ddTdd:dd:dd (d = \d, 19
     characters), then optionally a dot and any number of \d, then optionally Z, then the end
     (case sensitive, the end also before one final line feed); its group 1 + Z goes through strptime again
     (ValueError leaves str_to_time); no match: AttributeError (None.groups()).
   * str_to_time returns time.gmtime(calendar.timegm(parsed)): always normalised, tm_isdst = 0.
   * strftime(%Y) on this platform does not pad: year 999 is written with 3 digits.
     gmtime / timegm agree for years 1..9999 (timegm raises outside, gmtime does not).
   Definitions only. *)
From PV Require Import Lib.Base.
Open Scope Z_scope.

Definition AttributeError : str := s2l "AttributeError".
Definition ValueError : str := s2l "ValueError".
Definition TypeError : str := s2l "TypeError".

(* ---------- time.struct_time ---------- *)
Record struct_time := {
  tm_year : Z; tm_mon : Z; tm_mday : Z; tm_hour : Z; tm_min : Z; tm_sec : Z;
  tm_wday : Z;     (* Monday = 0 *)
  tm_yday : Z;     (* 1 January = 1 *)
  tm_isdst : Z     (* 0 from gmtime, -1 from strptime and datetime.timetuple *)
}.
Definition tm_list (c : struct_time) : list Z :=
  [tm_year c; tm_mon c; tm_mday c; tm_hour c; tm_min c; tm_sec c; tm_wday c; tm_yday c; tm_isdst c].

(* comparison of two tuples as Python does it: the first differing position decides *)
Fixpoint list_cmp (a b : list Z) : comparison :=
  match a, b with
  | [], [] => Eq
  | [], _ :: _ => Lt
  | _ :: _, [] => Gt
  | x :: a', y :: b' => match x ?= y with Eq => list_cmp a' b' | r => r end
  end.
Definition tuple_cmp (a b : struct_time) : comparison := list_cmp (tm_list a) (tm_list b).
Definition tuple_leb (a b : struct_time) : bool := match tuple_cmp a b with Gt => false | _ => true end.   (* a <= b *)
Definition tuple_geb (a b : struct_time) : bool := match tuple_cmp a b with Lt => false | _ => true end.   (* a >= b *)
Definition tuple_ltb (a b : struct_time) : bool := match tuple_cmp a b with Lt => true | _ => false end.   (* a < b *)

(* ---------- the proleptic Gregorian calendar (datetime.date.toordinal, calendar.timegm) ---------- *)
Definition is_leap (y : Z) : bool := (y mod 4 =? 0) && (negb (y mod 100 =? 0) || (y mod 400 =? 0)).
(* datetime._days_before_year *)
Definition days_before_year (y : Z) : Z := let p := y - 1 in 365 * p + p / 4 - p / 100 + p / 400.
(* datetime._DAYS_BEFORE_MONTH; 13 stands for the end of the year *)
Definition cum_days (m : Z) : Z :=
  match m with
  | 1 => 0 | 2 => 31 | 3 => 59 | 4 => 90 | 5 => 120 | 6 => 151 | 7 => 181 | 8 => 212
  | 9 => 243 | 10 => 273 | 11 => 304 | 12 => 334 | _ => 365
  end.
Definition days_before_month (y m : Z) : Z := cum_days m + (if (2 <? m) && is_leap y then 1 else 0).
Definition days_in_month (y m : Z) : Z :=
  match m with
  | 2 => if is_leap y then 29 else 28
  | 4 | 6 | 9 | 11 => 30
  | _ => 31
  end.
(* date(y, m, d).toordinal(): 1 January of year 1 is day 1 *)
Definition ordinal (y m d : Z) : Z := days_before_year y + days_before_month y m + d.
Definition EPOCH_ORD : Z := 719163.      (* date(1970, 1, 1).toordinal() *)
Definition days_from_civil (y m d : Z) : Z := ordinal y m d - EPOCH_ORD.

(* calendar.timegm(tuple): only the first six fields are read; the day is added OUTSIDE date(),
   so is hour / minute / second: no range check on them (date() itself wants month 1..12) *)
Definition timegm6 (y mo d h mi s : Z) : Z :=
  (((days_from_civil y mo 1 + d - 1) * 24 + h) * 60 + mi) * 60 + s.
Definition timegm (c : struct_time) : Z :=
  timegm6 (tm_year c) (tm_mon c) (tm_mday c) (tm_hour c) (tm_min c) (tm_sec c).

(* ---------- time.gmtime: the inverse, by division ---------- *)
(* the year of day number n: an estimate from the mean year length (146097 days = 400 years),
   which is at most one off, then corrected; spec: days_before_year y < n <= days_before_year (y+1) *)
Definition year_of_ordinal (n : Z) : Z :=
  let q := (400 * n) / 146097 in
  if n <=? days_before_year (q + 1) then q
  else if days_before_year (q + 2) <? n then q + 2
  else q + 1.
(* the month of day k (1-based) of year y: the last month that begins before it *)
Fixpoint month_search (ms : list Z) (y k : Z) : Z :=
  match ms with
  | [] => 1
  | m :: r => if days_before_month y m <? k then m else month_search r y k
  end.
Definition month_of (y k : Z) : Z := month_search [12; 11; 10; 9; 8; 7; 6; 5; 4; 3; 2] y k.
Definition civil_of_ordinal (n : Z) : Z * Z * Z :=
  let y := year_of_ordinal n in
  let k := n - days_before_year y in
  let m := month_of y k in
  (y, m, k - days_before_month y m).

Definition gmtime (t : Z) : struct_time :=
  let days := t / 86400 in
  let rem := t mod 86400 in
  let n := days + EPOCH_ORD in
  let '(y, m, d) := civil_of_ordinal n in
  {| tm_year := y; tm_mon := m; tm_mday := d;
     tm_hour := rem / 3600; tm_min := (rem mod 3600) / 60; tm_sec := rem mod 60;
     tm_wday := (n + 6) mod 7; tm_yday := n - days_before_year y; tm_isdst := 0 |}.

(* datetime.timetuple() of a naive datetime: the same fields, tm_isdst = -1 *)
Definition timetuple (t : Z) : struct_time :=
  let g := gmtime t in
  {| tm_year := tm_year g; tm_mon := tm_mon g; tm_mday := tm_mday g; tm_hour := tm_hour g; tm_min := tm_min g;
     tm_sec := tm_sec g; tm_wday := tm_wday g; tm_yday := tm_yday g; tm_isdst := -1 |}.

(* a normalised civil time, as gmtime produces them (year range not included) *)
Definition valid_date (y m d : Z) : Prop := 1 <= m <= 12 /\ 1 <= d <= days_in_month y m.
(* all but tm_isdst *)
Definition valid8 (c : struct_time) : Prop :=
  valid_date (tm_year c) (tm_mon c) (tm_mday c) /\
  0 <= tm_hour c < 24 /\ 0 <= tm_min c < 60 /\ 0 <= tm_sec c < 60 /\
  tm_wday c = (ordinal (tm_year c) (tm_mon c) (tm_mday c) + 6) mod 7 /\
  tm_yday c = days_before_month (tm_year c) (tm_mon c) + tm_mday c.
Definition valid_tm (c : struct_time) : Prop := valid8 c /\ tm_isdst c = 0.

(* ---------- characters ---------- *)
Open Scope N_scope.
(* the zero of each run of ten decimal digits (Unicode category Nd, Unicode 15.0 as in CPython 3.12):
   what \d matches and int() reads; checked against the interpreter on every run *)
Definition digit_zeros : list N :=
  [48; 1632; 1776; 1984; 2406; 2534; 2662; 2790; 2918; 3046; 3174; 3302; 3430; 3558; 3664; 3792; 3872; 4160; 4240;
   6112; 6160; 6470; 6608; 6784; 6800; 6992; 7088; 7232; 7248; 42528; 43216; 43264; 43472; 43504; 43600; 44016;
   65296; 66720; 68912; 69734; 69872; 69942; 70096; 70384; 70736; 70864; 71248; 71360; 71472; 71904; 72016; 72784;
   73040; 73120; 73552; 92768; 92864; 93008; 120782; 120792; 120802; 120812; 120822; 123200; 123632; 124144;
   125264; 130032].
Fixpoint digit_in (zs : list N) (c : N) : option Z :=
  match zs with
  | [] => None
  | z :: r => if (z <=? c) && (c <? z + 10) then Some (Z.of_N (c - z)) else digit_in r c
  end.
(* \d, with the value int() gives *)
Definition udigit (c : N) : option Z := digit_in digit_zeros c.
(* an ASCII class [lo-hi], with the value *)
Definition adigit (lo hi c : N) : option Z := if (lo <=? c) && (c <=? hi) then Some (Z.of_N (c - 48)) else None.
Definition is_udigit (c : N) : bool := match udigit c with Some _ => true | None => false end.

Definition c_dash : N := 45.   Definition c_colon : N := 58.   Definition c_dot : N := 46.
Definition c_T : N := 84.      Definition c_Z : N := 90.       Definition c_lf : N := 10.
Definition is_dash (c : N) : bool := c =? 45.
Definition is_colon (c : N) : bool := c =? 58.
Definition is_T (c : N) : bool := (c =? 84) || (c =? 116).      (* IGNORECASE *)
Definition is_Z (c : N) : bool := (c =? 90) || (c =? 122).

(* ---------- the fields of the strptime expression ---------- *)
Open Scope Z_scope.
Definition two (a b : option Z) : option Z :=
  match a, b with Some x, Some y => Some (10 * x + y) | _, _ => None end.
Definition orelse (a b : option Z) : option Z := match a with Some _ => a | None => b end.

(* %m: 1[0-2]|0[1-9]|[1-9] *)
Definition field_m (f : str) : option Z :=
  match f with
  | [a] => adigit 49 57 a
  | [a; b] => orelse (two (adigit 49 49 a) (adigit 48 50 b)) (two (adigit 48 48 a) (adigit 49 57 b))
  | _ => None
  end.
(* %d: 3[0-1]|[1-2]\d|0[1-9]|[1-9]| [1-9]   (int() skips the blank) *)
Definition field_d (f : str) : option Z :=
  match f with
  | [a] => adigit 49 57 a
  | [a; b] => orelse (two (adigit 51 51 a) (adigit 48 49 b))
             (orelse (two (adigit 49 50 a) (udigit b))
             (orelse (two (adigit 48 48 a) (adigit 49 57 b))
                     (if (a =? 32)%N then adigit 49 57 b else None)))
  | _ => None
  end.
(* %H: 2[0-3]|[0-1]\d|\d *)
Definition field_H (f : str) : option Z :=
  match f with
  | [a] => udigit a
  | [a; b] => orelse (two (adigit 50 50 a) (adigit 48 51 b)) (two (adigit 48 49 a) (udigit b))
  | _ => None
  end.
(* %M: [0-5]\d|\d *)
Definition field_M (f : str) : option Z :=
  match f with
  | [a] => udigit a
  | [a; b] => two (adigit 48 53 a) (udigit b)
  | _ => None
  end.
(* %S: 6[0-1]|[0-5]\d|\d *)
Definition field_S (f : str) : option Z :=
  match f with
  | [a] => udigit a
  | [a; b] => orelse (two (adigit 54 54 a) (adigit 48 49 b)) (two (adigit 48 53 a) (udigit b))
  | _ => None
  end.
(* %Y: \d\d\d\d *)
Definition field_Y (a b c d : N) : option Z :=
  match udigit a, udigit b, udigit c, udigit d with
  | Some x, Some y, Some z, Some w => Some (1000 * x + 100 * y + 10 * z + w)
  | _, _, _, _ => None
  end.

(* a field of one or two characters followed by its separator.  Every alternative of every field
   consists of digits (or blank + digit), no separator is one: the position of the separator fixes
   which alternatives can apply, so the backtracking of the matcher has a single outcome *)
Definition take_field (sep : N -> bool) (s : str) : option (str * str) :=
  match s with
  | a :: b :: r =>
      if sep b then Some ([a], r)
      else match r with
           | c :: r' => if sep c then Some ([a; b], r') else None
           | [] => None
           end
  | _ => None
  end.

Definition mk_parsed (y mo d h mi s : Z) : struct_time :=
  {| tm_year := y; tm_mon := mo; tm_mday := d; tm_hour := h; tm_min := mi; tm_sec := s;
     tm_wday := (ordinal y mo d + 6) mod 7; tm_yday := days_before_month y mo + d; tm_isdst := -1 |}.

(* time.strptime(s, TIME_FORMAT); None = ValueError *)
Definition strptime_iso (s : str) : option struct_time :=
  match s with
  | y1 :: y2 :: y3 :: y4 :: sep1 :: r1 =>
      match field_Y y1 y2 y3 y4 with
      | None => None
      | Some y =>
          if negb (is_dash sep1) then None else
          match take_field is_dash r1 with None => None | Some (fm, r2) =>
          match take_field is_T r2 with None => None | Some (fd, r3) =>
          match take_field is_colon r3 with None => None | Some (fH, r4) =>
          match take_field is_colon r4 with None => None | Some (fM, r5) =>
          match take_field is_Z r5 with None => None | Some (fS, r6) =>
          match r6 with _ :: _ => None | [] =>         (* unconverted data remains *)
          match field_m fm, field_d fd, field_H fH, field_M fM, field_S fS with
          | Some mo, Some d, Some h, Some mi, Some sec =>
              if (y <? 1) || (days_in_month y mo <? d) then None     (* datetime.date(): year 0, day out of range for month *)
              else Some (mk_parsed y mo d h mi sec)
          | _, _, _, _, _ => None
          end end end end end end end
      end
  | _ => None
  end.

(* TIME_FORMAT_WITH_FRAGMENT.match(s): group 1 when it matches *)
Definition P_digit (c : N) : bool := is_udigit c.
Definition P_is (k : N) (c : N) : bool := (c =? k)%N.
Definition fragment_shape : list (N -> bool) :=
  [P_digit; P_digit; P_digit; P_digit; P_is 45; P_digit; P_digit; P_is 45; P_digit; P_digit; P_is 84;
   P_digit; P_digit; P_is 58; P_digit; P_digit; P_is 58; P_digit; P_digit].
Fixpoint match_shape (ps : list (N -> bool)) (s : str) : option (str * str) :=
  match ps with
  | [] => Some ([], s)
  | p :: ps' => match s with
                | c :: r => if p c then match match_shape ps' r with Some (g, rest) => Some (c :: g, rest) | None => None end
                            else None
                | [] => None
                end
  end.
Fixpoint drop_udigits (s : str) : str :=
  match s with
  | c :: r => if is_udigit c then drop_udigits r else s
  | [] => []
  end.
(* optional dot + digits — greedy; giving digits back never helps, a digit is neither Z nor the end *)
Definition after_fraction (s : str) : str :=
  match s with
  | c :: r => if (c =? 46)%N then drop_udigits r else s
  | [] => []
  end.
(* Z?$ — the end, or one final line feed *)
Definition end_ok (s : str) : bool :=
  match s with
  | [] => true
  | [c] => ((c =? 90) || (c =? 10))%N
  | [c; d] => ((c =? 90) && (d =? 10))%N
  | _ => false
  end.
Definition fragment_group (s : str) : option str :=
  match match_shape fragment_shape s with
  | Some (g, rest) => if end_ok (after_fraction rest) then Some g else None
  | None => None
  end.

(* ---------- time_util.str_to_time ---------- *)
(* Ok None = the integer 0 that the code returns for a falsy text (None and the empty text alike) *)
Definition str_to_time (s : str) : result (option struct_time) :=
  match s with
  | [] => Ok None
  | _ =>
      match strptime_iso s with
      | Some c => Ok (Some (gmtime (timegm c)))
      | None =>
          match fragment_group s with
          | None => Err AttributeError                         (* elem is None: elem.groups() *)
          | Some g =>
              match strptime_iso (g ++ [c_Z]) with
              | Some c => Ok (Some (gmtime (timegm c)))
              | None => Err ValueError
              end
          end
      end
  end.

(* ---------- time_util.instant ---------- *)
Definition dchar (k : Z) : N := Z.to_N (48 + k).
Definition pad2 (k : Z) : str := [dchar (k / 10); dchar (k mod 10)].
(* %Y of this platform's strftime: no padding (years 1..9999; longer years are outside the stated range) *)
Definition year_text (y : Z) : str :=
  if y <? 10 then [dchar y]
  else if y <? 100 then [dchar (y / 10); dchar (y mod 10)]
  else if y <? 1000 then [dchar (y / 100); dchar (y / 10 mod 10); dchar (y mod 10)]
  else [dchar (y / 1000); dchar (y / 100 mod 10); dchar (y / 10 mod 10); dchar (y mod 10)].
Definition strftime_iso (c : struct_time) : str :=
  year_text (tm_year c) ++ [c_dash] ++ pad2 (tm_mon c) ++ [c_dash] ++ pad2 (tm_mday c) ++ [c_T] ++
  pad2 (tm_hour c) ++ [c_colon] ++ pad2 (tm_min c) ++ [c_colon] ++ pad2 (tm_sec c) ++ [c_Z].
(* instant(time_stamp=ts): a falsy time stamp means now *)
Definition instant (now ts : Z) : str := strftime_iso (gmtime (if ts =? 0 then now else ts)).
Definition instant_of (t : Z) : str := strftime_iso (gmtime t).

(* ---------- before / after / later_than ---------- *)
(* the argument as the callers pass it: None, a text, an integer *)
Inductive targ := ANone | AText (s : str) | AInt (z : Z).
Definition falsy (p : targ) : bool :=
  match p with ANone => true | AText [] => true | AInt 0 => true | _ => false end.

(* before(point): time.gmtime() <= point, on tuples *)
Definition before (now : Z) (p : targ) : result bool :=
  if falsy p then Ok true else
  match p with
  | ANone => Ok true
  | AText s => match str_to_time s with
               | Err e => Err e
               | Ok (Some c) => Ok (tuple_leb (gmtime now) c)
               | Ok None => Err TypeError         (* struct_time <= 0; not reachable, s is not empty *)
               end
  | AInt z => Ok (tuple_leb (gmtime now) (gmtime z))
  end.
Definition after (now : Z) (p : targ) : result bool :=
  if falsy p then Ok true else
  match before now p with Ok b => Ok (negb b) | Err e => Err e end.

(* what later_than holds after its conversions: None, the integer 0 (empty text), a tuple *)
Inductive tval := TNone | TZero | TTm (c : struct_time).
Definition convert (p : targ) : result tval :=
  match p with
  | ANone => Ok TNone
  | AText s => match str_to_time s with Err e => Err e | Ok None => Ok TZero | Ok (Some c) => Ok (TTm c) end
  | AInt z => Ok (TTm (gmtime z))
  end.
(* later_than(after, before): after is converted first *)
Definition later_than (a b : targ) : result bool :=
  match convert a with Err e => Err e | Ok va =>
  match convert b with Err e => Err e | Ok vb =>
  match vb, va with
  | TNone, _ => Ok true
  | _, TNone => Ok false
  | TZero, TZero => Ok true                 (* 0 >= 0 *)
  | TTm y, TTm x => Ok (tuple_geb x y)
  | _, _ => Err TypeError                   (* a tuple against the integer 0 *)
  end end end.

(* response.issue_instant_ok: lower < issued_at < upper with lower / upper from datetime.timetuple() *)
Definition issue_window (now slack : Z) (issued : struct_time) : bool :=
  tuple_ltb (timetuple (now - 86400 - slack)) issued && tuple_ltb issued (timetuple (now + 86400 + slack)).

(* ---------- observables for the correspondence ---------- *)
Definition show_tm (c : struct_time) : val := VL (map VZ (tm_list c)).
Definition show_parsed (o : option struct_time) : val := match o with Some c => show_tm c | None => VZ 0 end.
Definition show_bool_result (r : result bool) : val := show_result VB r.
Definition show_targ_of (o : option str) : targ := match o with None => ANone | Some s => AText s end.

Definition run_str_to_time (s : str) : val := show_result show_parsed (str_to_time s).
Definition run_str_to_time_opt (o : option str) : val := run_str_to_time (match o with Some s => s | None => [] end).   (* None is falsy as the empty text is *)
Definition run_strptime (s : str) : val := match strptime_iso s with Some c => show_tm c | None => VE ValueError end.
Definition run_gmtime (t : Z) : val := VL [show_tm (gmtime t); VZ (timegm (gmtime t)); VS (instant_of t)].
Definition run_timegm (c : Z * Z * Z * Z * Z * Z) : val :=
  let '(y, mo, d, h, mi, s) := c in VZ (timegm6 y mo d h mi s).
Definition run_instant (a : Z * Z) : val := VS (instant (fst a) (snd a)).
(* (now, point): before, after *)
Definition run_before_after (a : Z * targ) : val :=
  VL [show_bool_result (before (fst a) (snd a)); show_bool_result (after (fst a) (snd a))].
Definition run_later_than (a : targ * targ) : val := show_bool_result (later_than (fst a) (snd a)).
Definition run_digit_zeros (_ : unit) : val := VL (map (fun z => VZ (Z.of_N z)) digit_zeros).
(* (now, slack, text): the IssueInstant test on tuples *)
Definition run_issue_window (a : Z * Z * str) : val :=
  let '(now, slack, s) := a in
  match str_to_time s with
  | Ok (Some c) => VB (issue_window now slack c)
  | Ok None => VE TypeError
  | Err e => VE e
  end.
