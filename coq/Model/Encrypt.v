(* Model/Encrypt.v — C17.
   PART I (identity provider): Server._authn_response (server.py 387-496: pefim
   split, to_sign), Entity._response (entity.py 578-754: the early return,
   has_encrypt_cert_in_metadata and the two flag adjustments, the advice branch,
   sign-then-encrypt order, pre_encrypt_assertion, the final signing),
   Entity._encrypt_assertion (538-576: which certificates are tried, the loop
   that raises only when every one failed, and returns the message UNCHANGED
   when there is none), Entity.sign / signed_instance_factory (inside-out).
   XML is symbolic: a signature node records key and the exact tree it was
   computed over, an EncryptedData node records the public key and the
   plaintext subtree.
   PART II (service provider): the two decrypt loops of
   AuthnResponse.parse_assertion (response.py 939-1028) on a document TREE with
   EncryptedData nodes anywhere (response level, inside <Advice>, nested, stray),
   SecurityContext.decrypt_keys / the tool's node selection (first EncryptedData
   in document order; it either opens under a configured key or the text comes
   back unchanged), decrypt_assertions, find_encrypt_data*, the advice pass,
   and the re-serialisation order of samlp.Response children.  The per-assertion
   checks are Model/Response.v's check_assertion.
   Definitions only. *)
From PV Require Import Lib.Base Model.Status Model.Response.
Open Scope N_scope.

(* ====================================================================== *)
(* PART I — what the identity provider emits                              *)
(* ====================================================================== *)
Inductive xml :=
| El (name : str) (attrs : list (str * str)) (text : option str) (kids : list xml)
| SigN (key : N) (covers : xml)        (* ds:Signature made with [key] over the tree [covers] *)
| EncN (pub : N) (plain : xml).        (* xenc:EncryptedData for public key [pub] *)

(* every text and attribute value an observer of the bytes can read; a digest
   is (conservatively) taken to reveal the tree it was computed over *)
Fixpoint visible (t : xml) : list str :=
  match t with
  | El _ attrs text kids => map snd attrs ++ (match text with Some s => [s] | None => [] end) ++ flat_map visible kids
  | SigN _ c => visible c
  | EncN _ _ => []
  end.

(* public keys of all EncryptedData nodes, at any depth (also inside plaintexts) *)
Fixpoint enc_keys (t : xml) : list N :=
  match t with
  | El _ _ _ kids => flat_map enc_keys kids
  | SigN _ c => []
  | EncN k p => k :: enc_keys p
  end.

Record ident := { i_name_id : option str; i_attrs : list (str * list str) }.
Definition no_ident : ident := {| i_name_id := None; i_attrs := [] |}.

(* the encrypt_cert_* arguments: None / a falsy non-None value ('') / a certificate
   (its key, and whether the tool can use it) *)
Inductive cert_arg := CNone | CEmpty | CGiven (k : N) (usable : bool).

Record pubinfo := { p_rid : str; p_aid : str; p_advid : str; p_issuer : str; p_dest : str; p_irt : str;
                    p_sp : str; p_instant : str; p_nooa : str; p_session : str; p_classref : str }.

Record idp_args := {
  g_sign_response : bool; g_sign_assertion : bool;
  g_encrypt_assertion : bool; g_enc_advice : bool;      (* encrypt_assertion / encrypted_advice_attributes as passed *)
  g_pefim : bool; g_self_contained : bool;
  g_cert_assertion : cert_arg; g_cert_advice : cert_arg;
  g_md_certs : list (N * bool);                         (* the SP's encryption certificates in metadata: (key, usable) *)
  g_verify_assertion : option N; g_verify_advice : option N;   (* verify_encrypt_cert_* configured: a callable accepting exactly the certificate of that key *)
  g_idp_key : N;
  g_pub : pubinfo
}.

Definition txt (n : string) (s : str) : xml := El (E n) [] (Some s) [].
Definition opt_list {A} (o : option A) : list A := match o with Some a => [a] | None => [] end.

Definition attr_el (na : str * list str) : xml :=
  El (E "Attribute") [(E "Name", fst na); (E "NameFormat", E "urn:oasis:names:tc:SAML:2.0:attrname-format:uri")] None
     (map (fun v => El (E "AttributeValue") [] (Some v) []) (snd na)).
Definition attr_stmt (attrs : list (str * list str)) : list xml :=
  match attrs with [] => [] | _ => [El (E "AttributeStatement") [] None (map attr_el attrs)] end.
Definition conditions_el (p : pubinfo) : xml :=
  El (E "Conditions") [(E "NotBefore", p_instant p); (E "NotOnOrAfter", p_nooa p)] None
     [El (E "AudienceRestriction") [] None [txt "Audience" (p_sp p)]].

(* the assertion of a web-SSO answer; [advice] = children of its <Advice> *)
Definition main_assertion (p : pubinfo) (nid : option str) (advice : list xml) (attrs : list (str * list str)) : xml :=
  El (E "Assertion") [(E "Version", E "2.0"); (E "ID", p_aid p); (E "IssueInstant", p_instant p)] None
     ([txt "Issuer" (p_issuer p);
       El (E "Subject") [] None
          (map (fun n => El (E "NameID") [(E "Format", E "urn:oasis:names:tc:SAML:2.0:nameid-format:transient")] (Some n) []) (opt_list nid)
           ++ [El (E "SubjectConfirmation") [(E "Method", E "urn:oasis:names:tc:SAML:2.0:cm:bearer")] None
                  [El (E "SubjectConfirmationData") [(E "NotOnOrAfter", p_nooa p); (E "Recipient", p_dest p); (E "InResponseTo", p_irt p)] None []]]);
       conditions_el p]
      ++ (match advice with [] => [] | _ => [El (E "Advice") [] None advice] end)
      ++ [El (E "AuthnStatement") [(E "AuthnInstant", p_instant p); (E "SessionIndex", p_session p)] None
             [El (E "AuthnContext") [] None [txt "AuthnContextClassRef" (p_classref p)]]]
      ++ attr_stmt attrs).

(* the attribute-only assertion PEFIM puts into <Advice> (no issuer, no name id) *)
Definition advice_assertion (p : pubinfo) (attrs : list (str * list str)) : xml :=
  El (E "Assertion") [(E "Version", E "2.0"); (E "ID", p_advid p); (E "IssueInstant", p_instant p)] None
     ([El (E "Subject") [] None
          [El (E "SubjectConfirmation") [(E "Method", E "urn:oasis:names:tc:SAML:2.0:cm:bearer")] None
              [El (E "SubjectConfirmationData") [(E "NotOnOrAfter", p_nooa p)] None []]];
       conditions_el p] ++ attr_stmt attrs).

Definition response_el (p : pubinfo) (body : list xml) : xml :=
  El (E "Response") [(E "ID", p_rid p); (E "InResponseTo", p_irt p); (E "Version", E "2.0"); (E "IssueInstant", p_instant p);
                     (E "Destination", p_dest p)] None
     ([txt "Issuer" (p_issuer p);
       El (E "Status") [] None [El (E "StatusCode") [(E "Value", E "urn:oasis:names:tc:SAML:2.0:status:Success")] None []]]
      ++ body).

(* sign_statement on an element: the signature is computed over the element as it is NOW *)
Definition sign_el (key : N) (t : xml) : xml :=
  match t with
  | El n a tx kids => El n a tx (SigN key t :: kids)
  | other => other
  end.
Definition sign_if (b : bool) (key : N) (t : xml) : xml := if b then sign_el key t else t.

(* _encrypt_assertion: the certificates tried … *)
Definition certs_for (ca : cert_arg) (md : list (N * bool)) : list (N * bool) :=
  match ca with CGiven k u => [(k, u)] | _ => md end.
(* … and the loop: first usable one wins; an exception only if the loop ended after
   failures; no certificate at all -> Ok None = the message goes out UNENCRYPTED *)
Fixpoint cert_loop (cs : list (N * bool)) (failed : bool) : result (option N) :=
  match cs with
  | [] => if failed then Err (E "EncryptError") else Ok None
  | (k, true) :: _ => Ok (Some k)
  | (_, false) :: rest => cert_loop rest true
  end.
Definition encrypt_with (ca : cert_arg) (md : list (N * bool)) (t : xml) : result xml :=
  match cert_loop (certs_for ca md) false with
  | Err e => Err e
  | Ok (Some k) => Ok (El (E "EncryptedAssertion") [] None [EncN k t])
  | Ok None => Ok (El (E "EncryptedAssertion") [] None [t])
  end.

(* the main assertion: when the message is still an OBJECT at this point (not self-contained, nothing signed),
   CryptoBackendXmlSec1.encrypt_assertion applies pre_encrypt_assertion a second time, which empties the
   EncryptedAssertion again: the tool finds nothing to encrypt, whatever the certificate *)
Definition encrypt_main (is_text : bool) (ca : cert_arg) (md : list (N * bool)) (t : xml) : result xml :=
  if is_text then encrypt_with ca md t
  else match certs_for ca md with
       | [] => Ok (El (E "EncryptedAssertion") [] None [t])
       | _ => Err (E "EncryptError")
       end.

Definition is_cnone (c : cert_arg) : bool := match c with CNone => true | _ => false end.
Definition is_nil {A} (l : list A) : bool := match l with [] => true | _ => false end.

(* [fixed] = true: _response returns early (sign only) only when no advice encryption was asked for either, and
   signs to_sign at its end when nothing got encrypted (proposed_fix/C17-1); false: the code before that repair *)
Definition response_with (fixed : bool) (g : idp_args) (i : ident) : result xml :=
  let p := g_pub g in
  let key := g_idp_key g in
  (* Server._authn_response *)
  let enc_adv0 := g_enc_advice g || g_pefim g in
  let adv := if g_pefim g then [advice_assertion p (i_attrs i)] else [] in
  let main_attrs := if g_pefim g then [] else i_attrs i in
  let main (advice : list xml) := main_assertion p (i_name_id i) advice main_attrs in
  let has_cert := negb (is_nil (g_md_certs g)) in
  (* fix: 28208820 (found by C08): encryption asked for, no advice encryption, no certificate argument and no
     certificate in the SP's metadata => _authn_response itself switches encrypt_assertion off, so that a
     requested assertion signature is prepared here (Entity._response would silently not encrypt and not sign) *)
  let enc_req := if g_encrypt_assertion g && negb enc_adv0 && is_cnone (g_cert_assertion g) && negb has_cert
                 then false else g_encrypt_assertion g in
  let to_sign := negb enc_req && g_sign_assertion g in
  (* Entity._response *)
  let enc_adv := if negb has_cert && is_cnone (g_cert_advice g) then false else enc_adv0 in
  let enc_as := if negb has_cert && is_cnone (g_cert_assertion g) then false else enc_req in
  let adv_one := enc_adv && (List.length adv =? 1)%nat in
  let early := negb (g_sign_response g) && to_sign && negb enc_req && (if fixed then negb enc_adv0 else true) in
  if early then Ok (response_el p [sign_el key (main adv)]) else
  if enc_as || adv_one then
    (* advice branch: the advice assertion is signed (unless pefim), then encrypted *)
    match (if enc_adv && negb (is_nil adv) then
             match adv with
             | b :: _ => match encrypt_with (g_cert_advice g) (g_md_certs g) (sign_if (g_sign_assertion g && negb (g_pefim g)) key b) with
                         | Err e => Err e | Ok ea => Ok [ea] end
             | [] => Ok []
             end
           else Ok adv) with
    | Err e => Err e
    | Ok advice_kids =>
        if enc_as then
          (* the assertion is signed over its final content (advice already encrypted), then encrypted *)
          match encrypt_main (g_self_contained g || g_pefim g || g_sign_assertion g) (g_cert_assertion g) (g_md_certs g)
                             (sign_if (g_sign_assertion g) key (main advice_kids)) with
          | Err e => Err e
          | Ok ea => Ok (sign_if (g_sign_response g) key (response_el p [ea]))
          end
        else Ok (sign_if (g_sign_response g) key (response_el p [sign_if to_sign key (main advice_kids)]))
    end
  else
    if g_sign_response g then Ok (sign_el key (response_el p [sign_if to_sign key (main adv)]))
    else if fixed && to_sign then Ok (response_el p [sign_el key (main adv)])      (* nothing was encrypted after all *)
    else Ok (response_el p [main adv]).

(* Server.gather_authn_response_args: a configured verify_encrypt_cert_* callable must be handed a certificate and accept it *)
Definition cert_accepted (v : option N) (ca : cert_arg) : result unit :=
  match v with
  | None => Ok tt
  | Some k0 => match ca with
               | CGiven k true => if N.eqb k k0 then Ok tt else Err (E "CertificateError")
               | _ => Err (E "CertificateError")
               end
  end.
Definition gather (g : idp_args) : result unit :=
  match (if g_enc_advice g || g_pefim g then cert_accepted (g_verify_advice g) (g_cert_advice g) else Ok tt) with
  | Err e => Err e
  | Ok _ => if g_encrypt_assertion g then cert_accepted (g_verify_assertion g) (g_cert_assertion g) else Ok tt
  end.
(* Server.create_authn_response *)
Definition idp_build_with (fixed : bool) (g : idp_args) (i : ident) : result xml :=
  match gather g with Err e => Err e | Ok _ => response_with fixed g i end.

Definition idp_build := idp_build_with true.
Definition idp_build_before_fix := idp_build_with false.

(* what is asked for, in the property's words *)
Definition has_cert_for (ca : cert_arg) (g : idp_args) : Prop :=
  g_md_certs g <> [] \/ exists k u, ca = CGiven k u.
Definition vis (r : result xml) : result (list str) := match r with Ok t => Ok (visible t) | Err e => Err e end.

(* ---- observable compared with the bytes Server.create_authn_response emits ---- *)
Definition structural (n : str) : bool :=
  mem_str n [E "Response"; E "Assertion"; E "EncryptedAssertion"; E "Advice"].
(* occurrences of element [n] below [t], not entering nested assertions, advice or ciphertext *)
Fixpoint count_el (n : str) (t : xml) : Z :=
  match t with
  | El m _ _ kids =>
      if str_eqb m (E "Advice") || str_eqb m (E "Assertion") || str_eqb m (E "EncryptedAssertion") then 0%Z
      else ((if str_eqb m n then 1 else 0) + fold_right Z.add 0 (map (count_el n) kids))%Z
  | _ => 0%Z
  end.
Fixpoint shape (t : xml) : list val :=
  match t with
  | El n _ _ kids =>
      if structural n then
        [VL (VS n ::
             (if str_eqb n (E "Assertion")
              then [VZ (fold_right Z.add 0%Z (map (count_el (E "NameID")) kids)); VZ (fold_right Z.add 0%Z (map (count_el (E "AttributeValue")) kids))]
              else [])
             ++ flat_map shape kids)]
      else []
  | SigN k _ => [VL [VS (E "Signature"); VZ (Z.of_N k)]]
  | EncN k p => [VL (VS (E "Enc") :: VZ (Z.of_N k) :: shape p)]
  end.
Definition show_build (r : result xml) : val :=
  match r with Ok t => VL (shape t) | Err _ => VE (E "raised") end.

(* ====================================================================== *)
(* PART II — the service provider's decrypt loops on a document tree      *)
(* ====================================================================== *)
Open Scope Z_scope.

(* the children of <samlp:Response> that matter, as a tree.  [DAsrt a dirty advice ext]: an Assertion with
   Model.Response's view [a] of it (a_sig = what checking its signature yields on the message AS SENT), the
   children of its <Advice>, and its extension children (document order: advice, then ext);
   dirty = an EncryptedData inside it has been replaced by plaintext since it was sent (a signature over the
   element does not verify on such a text any more).  DEA = EncryptedAssertion, DOther = any other element,
   DEnc key plain = an EncryptedData for [key]. *)
Inductive dtree :=
| DAsrt (a : assertion) (dirty : bool) (advice : list dtree) (ext : list dtree)
| DEA (kids : list dtree)
| DOther (kids : list dtree)
| DEnc (key : N) (plain : dtree).

(* what the tool does with an EncryptedData no given key opens: xmlsec1 fails (the text comes back
   unchanged); PSkip = a tool that would go on to the next node (not what xmlsec1 does; kept as a what-if) *)
Inductive policy := PFail | PSkip.
Inductive ores (T : Type) := Opened (t : T) | Stuck | NoEnc.
Arguments Opened {T} t.
Arguments Stuck {T}.
Arguments NoEnc {T}.

Definition mem_N (k : N) (l : list N) : bool := existsb (N.eqb k) l.

(* one successful tool run: the FIRST EncryptedData in document order is replaced by its plaintext *)
Definition open_list_with (f : dtree -> ores dtree) : list dtree -> ores (list dtree) :=
  fix go (l : list dtree) : ores (list dtree) :=
    match l with
    | [] => NoEnc
    | x :: r => match f x with
                | Opened x' => Opened (x' :: r)
                | Stuck => Stuck
                | NoEnc => match go r with Opened r' => Opened (x :: r') | Stuck => Stuck | NoEnc => NoEnc end
                end
    end.
Fixpoint open_first (keys : list N) (pol : policy) (t : dtree) : ores dtree :=
  match t with
  | DEnc k p => if mem_N k keys then Opened p else match pol with PFail => Stuck | PSkip => NoEnc end
  | DAsrt a d adv ext =>
      match open_list_with (open_first keys pol) adv with
      | Opened adv' => Opened (DAsrt a true adv' ext)
      | Stuck => Stuck
      | NoEnc => match open_list_with (open_first keys pol) ext with
                 | Opened ext' => Opened (DAsrt a true adv ext') | Stuck => Stuck | NoEnc => NoEnc end
      end
  | DEA kids => match open_list_with (open_first keys pol) kids with Opened k' => Opened (DEA k') | Stuck => Stuck | NoEnc => NoEnc end
  | DOther kids => match open_list_with (open_first keys pol) kids with Opened k' => Opened (DOther k') | Stuck => Stuck | NoEnc => NoEnc end
  end.
Definition open_list (keys : list N) (pol : policy) : list dtree -> ores (list dtree) := open_list_with (open_first keys pol).

(* ---- pysaml2's parsed view of the text ---- *)
Definition is_enc (t : dtree) : bool := match t with DEnc _ _ => true | _ => false end.
Definition eas (kids : list dtree) : list (list dtree) :=
  flat_map (fun t => match t with DEA k => [k] | _ => [] end) kids.
Record asrt_view := { v_a : assertion; v_dirty : bool; v_advice : list dtree; v_ext : list dtree }.
Definition asrts (kids : list dtree) : list asrt_view :=
  flat_map (fun t => match t with DAsrt a d adv ext => [{| v_a := a; v_dirty := d; v_advice := adv; v_ext := ext |}] | _ => [] end) kids.
(* find_encrypt_data_assertion: some EncryptedAssertion still has an EncryptedData child *)
Definition ea_has_enc (k : list dtree) : bool := existsb is_enc k.
Definition some_ea_has_enc (kids : list dtree) : bool := existsb ea_has_enc (eas kids).
(* find_encrypt_data_assertion_list *)
Definition advice_has_enc (l : list asrt_view) : bool := existsb (fun v => some_ea_has_enc (v_advice v)) l.
(* find_encrypt_data(resp) *)
Definition find_encrypt_data (root : list dtree) : bool := some_ea_has_enc root || advice_has_enc (asrts root).
(* the assertions decrypt_assertions collects from the response-level EncryptedAssertions *)
Definition ea_asrts (root : list dtree) : list asrt_view := flat_map asrts (eas root).

(* checking a signature on the current text *)
Definition sig_now (v : asrt_view) : option (result unit) :=
  match a_sig (v_a v) with
  | None => None
  | Some r => Some (if v_dirty v then Err SignatureError else r)
  end.
(* decrypt_assertions(..., verified=False) *)
Fixpoint verify_views (l : list asrt_view) : result unit :=
  match l with
  | [] => Ok tt
  | v :: rest => match sig_now v with Some (Err e) => Err e | _ => verify_views rest end
  end.
Definition as_checked (v : asrt_view) : assertion :=      (* the element as _assertion(…, False) sees it *)
  let a := v_a v in
  {| a_id := a_id a; a_sig := sig_now v; a_authn := a_authn a; a_conditions := a_conditions a; a_has_subject := a_has_subject a;
     a_confirmations := a_confirmations a; a_name_id := a_name_id a |}.

(* ---- str(self.response): known children in schema order, extension elements last ---- *)
Definition reser_ea (k : list dtree) : list dtree :=
  (match rev (filter is_enc k) with e :: _ => [e] | [] => [] end) ++ filter (fun t => negb (is_enc t)) k.
Definition is_asrt (t : dtree) : bool := match t with DAsrt _ _ _ _ => true | _ => false end.
Definition is_ea (t : dtree) : bool := match t with DEA _ => true | _ => false end.
Fixpoint reser (t : dtree) : dtree :=
  match t with
  | DAsrt a d adv ext =>
      let adv' := map reser adv in
      DAsrt a d (filter is_asrt adv' ++ filter is_ea adv' ++ filter (fun x => negb (is_asrt x || is_ea x)) adv') ext
  | DEA k => DEA (reser_ea k)
  | other => other
  end.
Definition reserialize (root : list dtree) : list dtree :=
  let r := map reser root in
  filter is_asrt r ++ filter is_ea r ++ filter (fun x => negb (is_asrt x || is_ea x)) root.

(* ---- the loops: `while cond(resp) and text changed: text = decrypt_keys(text)` ----
   [fs]: for each decrypt_keys call, whether the tool FAILS on it (every invocation of that call returns
   nothing, so the text comes back unchanged); an exhausted list = no more faults *)
Definition pop (fs : list bool) : bool * list bool := match fs with [] => (false, []) | f :: r => (f, r) end.
Fixpoint dec_loop (fuel : nat) (cond : list dtree -> bool) (keys : list N) (pol : policy) (fs : list bool) (root : list dtree)
  : option (list dtree * list bool) :=
  match fuel with
  | O => None
  | S f =>
      if negb (cond root) then Some (root, fs) else
      let (fault, fs') := pop fs in
      match (if fault then NoEnc else open_list keys pol root) with
      | Opened root' => dec_loop f cond keys pol fs' root'
      | _ => Some (root, fs')
      end
  end.
Definition cond2 (root : list dtree) : bool := find_encrypt_data root || advice_has_enc (ea_asrts root).

Fixpoint count_enc (t : dtree) : nat :=
  match t with
  | DEnc _ p => S (count_enc p)
  | DAsrt _ _ adv ext => fold_right Nat.add O (map count_enc adv) + fold_right Nat.add O (map count_enc ext)
  | DEA k => fold_right Nat.add O (map count_enc k)
  | DOther k => fold_right Nat.add O (map count_enc k)
  end.
Definition fuel_for (root : list dtree) (fs : list bool) : nat :=
  S (S (fold_right Nat.add O (map count_enc root) + List.length fs)).

(* the advice pass: decrypt_assertions(advice.encrypted_assertion, verified=False) for every assertion in hand *)
Definition advice_views (v : asrt_view) : list asrt_view := flat_map asrts (eas (v_advice v)).
Fixpoint advice_pass (l : list asrt_view) : result unit :=
  match l with
  | [] => Ok tt
  | v :: rest => match verify_views (advice_views v) with Err e => Err e | Ok _ => advice_pass rest end
  end.
(* the advice assertions whose attributes get_identity merges for an assertion *)
Definition advice_ids (v : asrt_view) : list N := map (fun x => a_id (v_a x)) (asrts (v_advice v) ++ advice_views v).

Definition ids_of (l : list asrt_view) : list N := map (fun v => a_id (v_a v)) l.
Fixpoint nlist_eqb (a b : list N) : bool :=
  match a, b with
  | [], [] => true
  | x :: a', y :: b' => N.eqb x y && nlist_eqb a' b'
  | _, _ => false
  end.

Record tcfg := { t_keys : list N; t_pol : policy; t_fixed : bool }.

(* what the advice pass leaves in an assertion object: the assertions found inside the EncryptedAssertions of
   its <Advice> are appended to the plain ones, and when there were any ALL its EncryptedAssertions are dropped *)
Definition processed_advice (adv : list dtree) : list dtree :=
  match eas adv with
  | [] => adv
  | ks => let res := flat_map (filter is_asrt) ks in
          filter is_asrt adv ++ res ++ (match res with [] => filter is_ea adv | _ => [] end)
          ++ filter (fun x => negb (is_asrt x || is_ea x)) adv
  end.
(* on the retry a plain assertion is verified against the text as RECEIVED: fine for one that was there, while one
   that only surfaced from ciphertext (possible before proposed_fix/C17-2 only) is not found in that text *)
Definition processed_plain (orig : list N) (t : dtree) : dtree :=
  match t with
  | DAsrt a _ adv ext => DAsrt a (negb (mem_N (a_id a) orig)) (processed_advice adv) ext
  | other => other
  end.

(* AuthnResponse.parse_assertion on the tree.
   Inputs: [root0] = self.response as it is NOW (on the retry of Entity._parse_response it carries what the failed
   first attempt left behind), [again] = self.assertion is not None, [fs] fault schedule.
   Outputs: result; what a failure leaves behind (self.assertions, self.response, self.assertion); remaining faults.
   [t_fixed] = with proposed_fix/C17-2: after the second loop (which takes signatures for granted) the
   response-level assertions must still be the ones the verifying call saw, and the plain assertions the ones
   that were checked before decryption. *)
Record stage_out := { so_res : result st; so_residue : st; so_root : list dtree; so_again : bool; so_faults : list bool }.

Definition parse_t (tc : tcfg) (c : cfg) (irt : option str) (req : bool) (s : st) (root0 : list dtree) (again : bool) (fs : list bool) : stage_out :=
  let fail e again' fs' := {| so_res := Err e; so_residue := s; so_root := root0; so_again := again'; so_faults := fs' |} in
  let plain0 := asrts root0 in
  if negb ((List.length plain0 =? 1)%nat || (List.length (eas root0) =? 1)%nat || again) then fail (E "Exception") again fs else
  match check_assertions c irt req false false s (map as_checked plain0) with
  | Err e => fail e again fs      (* (a passed plain assertion before the failing one would set self.assertion; not tracked) *)
  | Ok s1 =>
      let again1 := again || negb (is_nil plain0) in
      if negb (find_encrypt_data root0) then
        {| so_res := Ok (push_all s1 (map v_a plain0)); so_residue := s; so_root := root0; so_again := again1; so_faults := fs |}
      else
      let text := reserialize root0 in
      match dec_loop (fuel_for text fs) find_encrypt_data (t_keys tc) (t_pol tc) fs text with
      | None => fail (E "OutOfFuel") again1 fs
      | Some (t1, fs1) =>
          let V := ea_asrts t1 in
          match verify_views V with
          | Err e => fail e again1 fs1
          | Ok _ =>
              match dec_loop (fuel_for t1 fs1) cond2 (t_keys tc) (t_pol tc) fs1 t1 with
              | None => fail (E "OutOfFuel") again1 fs1
              | Some (t2, fs2) =>
                  let W := ea_asrts t2 in
                  let plain2 := asrts t2 in
                  if t_fixed tc && negb (nlist_eqb (ids_of W) (ids_of V) && nlist_eqb (ids_of plain2) (ids_of plain0))
                  then fail SignatureError again1 fs2 else
                  match advice_pass (W ++ plain2) with
                  | Err e => fail e again1 fs2
                  | Ok _ =>
                      let wa := map v_a W in
                      (* self.response.assertion = resp.assertion happens here, before the decrypted ones are checked *)
                      let root_left := map (processed_plain (ids_of plain0)) (filter is_asrt t2) ++ filter (fun x => negb (is_asrt x)) root0 in
                      match check_assertions c irt req true true s1 wa with
                      | Err e =>
                          let sf := acc_after_failure c irt req true s1 wa in
                          {| so_res := Err e;
                             so_residue := {| came_from := came_from s; not_on_or_after := not_on_or_after s; session_nooa := session_nooa s;
                                              nid := nid s; acc := acc sf |};
                             so_root := root_left;
                             so_again := again1 || negb (Nat.eqb (List.length (acc sf)) (List.length (acc s1)));
                             so_faults := fs2 |}
                      | Ok s2 => {| so_res := Ok (push_all s2 (map v_a plain2)); so_residue := s; so_root := root_left; so_again := true;
                                    so_faults := fs2 |}
                      end
                  end
              end
          end
      end
  end.

(* ---- Entity._parse_response around an arbitrary assertion stage that threads a state X
        (Model.Response.parse_response is the instance X = unit, see Proofs) ---- *)
Definition verify_x {X} (stage : st -> X -> result st * X) (c : cfg) (s : st) (r : response) (x : X) : result (option st) * X :=
  if asynch c && version_is_20 (r_version r) &&
     (match r_destination r, dest_regex_set c, return_addrs c with Some _, false, None => true | _, _, _ => false end)
  then (Err (E "TypeError"), x) else
  match verify_core (verify_in_of c r) with
  | Err e => (Err e, x)
  | Ok None => (Ok None, x)
  | Ok (Some _) => match stage s x with
                   | (Err e, x') => (Err e, x')
                   | (Ok s', x') => (Ok (Some s'), x')
                   end
  end.

Definition parse_response_x {X} (stage : bool -> st -> X -> result st * X) (residue : bool -> st -> X -> st)
           (c : cfg) (r : response) (x0 : X) : result outcome :=
  let first := loads c true r in
  let stage1 : result (st * bool) :=
    match first with
    | Ok s => Ok (s, true)
    | Err e => if is_sigver_error e then
                 (if wrs c then Err e
                  else match loads c false r with Ok s => Ok (s, false) | Err e' => Err e' end)
               else Err e
    end in
  match stage1 with
  | Err e => Err e
  | Ok (s, response_is_signed) =>
      if negb (r_valid_instance r) then Err (E "AttributeError") else
      let stage2 : result (option st * bool) :=
        match verify_x (stage true) c s r x0 with
        | (Ok x, _) => Ok (x, true)
        | (Err e, x1) => if is_signature_error e then
                           (if was c then Err e
                            else match verify_x (stage false) c (residue true s x0) r x1 with
                                 | (Ok x, _) => Ok (x, false)
                                 | (Err e', _) => Err e'
                                 end)
                         else Err e
        end in
      match stage2 with
      | Err e => Err e
      | Ok (None, _) => Err (E "AttributeError")
      | Ok (Some s', assertions_are_signed) =>
          if waors c && negb response_is_signed && negb assertions_are_signed then Err (E "SigverError")
          else Ok {| o_assertions := acc s';
                     o_name_id := nid s';
                     o_came_from := came_from s';
                     o_nooa := if session_nooa s' >? 0 then session_nooa s' else not_on_or_after s';
                     o_irt := r_irt r |}
      end
  end.

(* the whole SP run on a tree document: [r] carries the envelope (its r_assertions / r_encrypted are replaced).
   Threaded state: fault schedule, self.response's children, self.assertion is not None *)
Definition env_of (r : response) (root : list dtree) : response :=
  {| r_sig := r_sig r; r_valid_instance := r_valid_instance r; r_irt := r_irt r; r_version := r_version r; r_ver_lt2 := r_ver_lt2 r;
     r_destination := r_destination r; r_issue_instant := r_issue_instant r; r_status := r_status r;
     r_assertions := map as_checked (asrts root); r_encrypted := [] |}.
Definition tstate := (list bool * list dtree * bool)%type.
Definition stage_t (tc : tcfg) (c : cfg) (irt : option str) (req : bool) (s : st) (x : tstate) : result st * tstate :=
  match x with (fs, root, again) =>
    let o := parse_t tc c irt req s root again fs in (so_res o, (so_faults o, so_root o, so_again o)) end.
Definition residue_t (tc : tcfg) (c : cfg) (irt : option str) (req : bool) (s : st) (x : tstate) : st :=
  match x with (fs, root, again) => so_residue (parse_t tc c irt req s root again fs) end.
Definition parse_response_t (tc : tcfg) (c : cfg) (r : response) (root : list dtree) (fs : list bool) : result outcome :=
  parse_response_x (stage_t tc c (r_irt r)) (residue_t tc c (r_irt r)) c (env_of r root) (fs, root, false).

(* advice assertions whose attributes a fault-free run merges into the identity *)
Definition plain_advice_ids (l : list asrt_view) : list N := flat_map (fun v => ids_of (asrts (v_advice v))) l.
Definition advice_merged (tc : tcfg) (root : list dtree) (read : list N) : list N :=
  let only (f : asrt_view -> list N) (v : asrt_view) := if mem_N (a_id (v_a v)) read then f v else [] in
  if negb (find_encrypt_data root) then flat_map (only (fun v => ids_of (asrts (v_advice v)))) (asrts root) else
  let text := reserialize root in
  match dec_loop (fuel_for text []) find_encrypt_data (t_keys tc) (t_pol tc) [] text with
  | None => []
  | Some (t1, _) => match dec_loop (fuel_for t1 []) cond2 (t_keys tc) (t_pol tc) [] t1 with
                    | None => []
                    | Some (t2, _) => flat_map (only advice_ids) (ea_asrts t2 ++ asrts t2)
                    end
  end.

(* what C17 compares of an accepted run: which assertions are read (duplicates that the retry leaves in
   self.assertions removed), the name identifier; validity times / came_from belong to C04 / C05 *)
Fixpoint dedupe (l : list N) (seen : list N) : list N :=
  match l with
  | [] => []
  | x :: r => if mem_N x seen then dedupe r seen else x :: dedupe r (x :: seen)
  end.
Definition show_read (o : outcome) : val :=
  VL [VL (map (fun n => VZ (Z.of_N n)) (dedupe (o_assertions o) [])); show_option VS (o_name_id o)].
Definition show_pipeline_run (c : cfg) (r : response) : val :=
  match parse_response c r with Err _ => VE (E "rejected") | Ok o => show_read o end.

Definition show_tree_run (tc : tcfg) (c : cfg) (r : response) (root : list dtree) (fs : list bool) : val :=
  match parse_response_t tc c r root fs with
  | Err _ => VE (E "rejected")
  | Ok o => VL [show_read o;
                match fs with [] => VL (map (fun n => VZ (Z.of_N n)) (dedupe (advice_merged tc root (o_assertions o)) [])) | _ => VL [] end]
  end.
