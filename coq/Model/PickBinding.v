(* Model/PickBinding.v — Entity.response_args / Entity.pick_binding
   (entity.py:250-364), mdstore.destinations, InMemoryMetaData.service
   (mdstore.py:548-585), MetadataStore.service (mdstore.py:976-994) and the
   per-service wrappers assertion_consumer_service / single_logout_service /
   manage_name_id_service / attribute_consuming_service (mdstore.py:1078-1112).
   Definitions only. *)
From PV Require Import Lib.Base.
Open Scope N_scope.

(* ------------------------------------------------------------------ *)
(* constants                                                           *)
(* ------------------------------------------------------------------ *)
Definition B_POST     : str := s2l "urn:oasis:names:tc:SAML:2.0:bindings:HTTP-POST".
Definition B_REDIRECT : str := s2l "urn:oasis:names:tc:SAML:2.0:bindings:HTTP-Redirect".
Definition B_ARTIFACT : str := s2l "urn:oasis:names:tc:SAML:2.0:bindings:HTTP-Artifact".
Definition B_SOAP     : str := s2l "urn:oasis:names:tc:SAML:2.0:bindings:SOAP".

Definition E_Attribute   : str := s2l "AttributeError".
Definition E_Key         : str := s2l "KeyError".
Definition E_Type        : str := s2l "TypeError".
Definition E_SAML        : str := s2l "SAMLError".
Definition E_Unsupported : str := s2l "UnsupportedBinding".
Definition E_UnknownEnt  : str := s2l "UnknownSystemEntity".

(* ------------------------------------------------------------------ *)
(* metadata, reduced to what pick_binding reads                        *)
(* ------------------------------------------------------------------ *)
(* one endpoint dict of a role descriptor.  A field that is None here is a
   key that is absent from the dict (reading it raises KeyError) *)
Record service := {
  sv_type     : str;            (* key under which the descriptor lists it, e.g. assertion_consumer_service *)
  sv_binding  : option str;
  sv_location : option str;
  sv_index    : option str;
  sv_default  : option str      (* isDefault: carried, never read by pick_binding *)
}.
Definition descriptor := list service.        (* one <SPSSODescriptor> … : its endpoint lists, in order *)
Record entity := {
  en_id    : str;
  en_roles : list (str * list descriptor)     (* spsso_descriptor -> [descriptor; …] *)
}.
Definition source := list entity.             (* InMemoryMetaData.entity *)
Definition mdstore := list source.            (* MetadataStore.metadata.values(), insertion order *)

Fixpoint find_entity (s : source) (eid : str) : option entity :=
  match s with
  | [] => None
  | e :: s' => if str_eqb (en_id e) eid then Some e else find_entity s' eid
  end.

Fixpoint find_role (rs : list (str * list descriptor)) (k : str) : option (list descriptor) :=
  match rs with
  | [] => None
  | (k', ds) :: rs' => if str_eqb k' k then Some ds else find_role rs' k
  end.

Definition of_type (sname : str) (d : descriptor) : list service :=
  filter (fun sv => str_eqb (sv_type sv) sname) d.

(* what a service() call hands back *)
Inductive sres :=
| SNone                         (* None: entity or role unknown to this source *)
| SList (l : list service)      (* list of endpoint dicts (possibly empty) *)
| SDict.                        (* binding was falsy: a non-empty dict binding -> [srv] *)

Definition sres_truthy (r : sres) : bool :=
  match r with SNone => false | SList [] => false | SList _ => true | SDict => true end.

Definition py_truthy (s : str) : bool := match s with [] => false | _ => true end.

(* `for srv in srvs: if srv["binding"] == binding: res.append(srv)` *)
Fixpoint filter_binding (srvs : list service) (binding : str) : result (list service) :=
  match srvs with
  | [] => Ok []
  | sv :: rest =>
      match sv_binding sv with
      | None => Err E_Key
      | Some b =>
          match filter_binding rest binding with
          | Err e => Err e
          | Ok l => Ok (if str_eqb b binding then sv :: l else l)
          end
      end
  end.

(* InMemoryMetaData.service(entity_id, typ, service, binding) *)
Definition src_service (s : source) (eid typ sname binding : str) : result sres :=
  match find_entity s eid with
  | None => Ok SNone                                    (* KeyError -> None *)
  | Some e =>
      match find_role (en_roles e) typ with
      | None => Ok SNone                                (* KeyError -> None *)
      | Some descs =>
          let srvs := List.concat (map (of_type sname) descs) in
          match srvs with
          | [] => Ok (SList [])                         (* `if not srvs: return srvs` *)
          | _ =>
              if py_truthy binding then
                match filter_binding srvs binding with
                | Err e => Err e
                | Ok l => Ok (SList l)
                end
              else
                (* dict by binding; a service without the key raises KeyError
                   inside the except handler *)
                if forallb (fun sv => match sv_binding sv with Some _ => true | None => false end) srvs
                then Ok SDict else Err E_Key
          end
      end
  end.

(* MetadataStore.service *)
Fixpoint store_service_from (md : mdstore) (known : bool) (eid typ sname binding : str) : result sres :=
  match md with
  | [] => if known then Err E_Unsupported else Err E_UnknownEnt
  | s :: rest =>
      match src_service s eid typ sname binding with
      | Err e => Err e
      | Ok r =>
          if sres_truthy r then Ok r
          else match r with
               | SNone => store_service_from rest known eid typ sname binding
               | _ => store_service_from rest true eid typ sname binding
               end
      end
  end.
Definition store_service (md : mdstore) := store_service_from md false.

(* the services response_args asks for *)
Inductive svc := ACS | SLO | MNI | AttrCS.
Definition svc_name (s : svc) : str :=
  match s with
  | ACS => s2l "assertion_consumer_service"
  | SLO => s2l "single_logout_service"
  | MNI => s2l "manage_name_id_service"
  | AttrCS => s2l "attribute_consuming_service"
  end.
Definition svc_eqb (a b : svc) : bool :=
  match a, b with ACS, ACS | SLO, SLO | MNI, MNI | AttrCS, AttrCS => true | _, _ => false end.

Definition DESCR : str := s2l "_descriptor".
(* the descriptor key a wrapper looks under: assertion_consumer_service and
   attribute_consuming_service ignore their third argument *)
Definition role_key (s : svc) (descr_type : str) : str :=
  match s with
  | ACS | AttrCS => s2l "spsso_descriptor"
  | SLO | MNI => descr_type ++ DESCR
  end.

(* getattr(self.metadata, service)(entity_id, binding, descr_type); binding
   and descr_type are never None on this path *)
Definition sfunc (md : mdstore) (s : svc) (eid binding descr_type : str) : result sres :=
  store_service md eid (role_key s descr_type) (svc_name s) binding.

(* ------------------------------------------------------------------ *)
(* requests                                                            *)
(* ------------------------------------------------------------------ *)
(* getattr(obj, name): the attribute does not exist (AttributeError) or holds
   a value that may be None *)
Inductive attr := Missing | Has (v : option str).

Inductive msgkind :=
| KAuthn | KLogout | KAttrQuery | KManageNameID
| KSoapOnly        (* AssertionIDRequest, ArtifactResolve, NameIDMappingRequest *)
| KOther.          (* anything else: AuthnQuery, AuthzDecisionQuery, … *)

Record request := {
  rq_kind    : msgkind;
  rq_issuer  : option (option str);  (* None: no issuer; Some None: issuer.text is None *)
  rq_pbind   : attr;                 (* request.protocol_binding *)
  rq_url     : attr;                 (* getattr(request, "<service>_url")   *)
  rq_index   : attr                  (* getattr(request, "<service>_index") *)
}.

(* what the samlp classes look like: AuthnRequest has all three attributes,
   every other message class none of them *)
Definition class_shape (r : request) : Prop :=
  match rq_kind r with
  | KAuthn => rq_pbind r <> Missing /\ rq_url r <> Missing /\ rq_index r <> Missing
  | _ => rq_pbind r = Missing /\ rq_url r = Missing /\ rq_index r = Missing
  end.

(* str.strip(): the code points for which Python's str.isspace() holds *)
Definition is_space (c : N) : bool :=
  ((9 <=? c) && (c <=? 13)) || ((28 <=? c) && (c <=? 32)) || (c =? 133) || (c =? 160) ||
  (c =? 5760) || ((8192 <=? c) && (c <=? 8202)) || (c =? 8232) || (c =? 8233) ||
  (c =? 8239) || (c =? 8287) || (c =? 12288).
Fixpoint lstrip (s : str) : str :=
  match s with
  | c :: s' => if is_space c then lstrip s' else s
  | [] => []
  end.
Definition strip (s : str) : str := rev (lstrip (rev (lstrip s))).

(* request.issuer.text.strip() *)
Definition request_entity (r : request) : result str :=
  match rq_issuer r with
  | Some (Some t) => Ok (strip t)
  | _ => Err E_Attribute
  end.

Definition opt_truthy (o : option str) : bool :=
  match o with Some s => py_truthy s | None => false end.

(* ------------------------------------------------------------------ *)
(* configuration                                                       *)
(* ------------------------------------------------------------------ *)
Record config := {
  cf_is_sp     : bool;                       (* self.entity_type == "sp" *)
  cf_preferred : list (svc * list str)       (* self.config.preferred_binding *)
}.
Fixpoint preferred (p : list (svc * list str)) (s : svc) : result (list str) :=
  match p with
  | [] => Err E_Key
  | (s', l) :: p' => if svc_eqb s' s then Ok l else preferred p' s
  end.
Definition SRPA := [B_SOAP; B_REDIRECT; B_POST; B_ARTIFACT].
Definition PRA  := [B_POST; B_REDIRECT; B_ARTIFACT].
Definition RPA  := [B_REDIRECT; B_POST; B_ARTIFACT].
Definition default_preferred : list (svc * list str) :=
  [(SLO, SRPA); (MNI, SRPA); (ACS, PRA); (AttrCS, RPA)].

Definition default_descr (c : config) (descr_type : str) : str :=
  if py_truthy descr_type then descr_type
  else if cf_is_sp c then s2l "idpsso" else s2l "spsso".

(* ------------------------------------------------------------------ *)
(* pick_binding                                                        *)
(* ------------------------------------------------------------------ *)
(* the `_url` / `_index` reads.  [both = true] is the code as it stands (after
   the repair, fix: 05de9b7d in /repo): the two attributes are read
   independently,
       _url = getattr(request, "%s_url", None); _index = getattr(request, "%s_index", None)
   [both = false] is the code BEFORE that repair:
       try: _url = getattr(request, "%s_url")
       except AttributeError:
           _url = None
           try: _index = getattr(request, "%s_index")
           except AttributeError: pass
   kept so that the refutation of the index clause stays visible. *)
Definition read_url_index (both : bool) (r : request) : option str * option str :=
  match rq_url r with
  | Has u =>
      (u, if both then match rq_index r with Has i => i | Missing => None end else None)
  | Missing =>
      (None, match rq_index r with Has i => i | Missing => None end)
  end.

(* for srv in srvs: if srv["location"] == _url: return *)
Fixpoint find_url (srvs : list service) (u : str) : result bool :=
  match srvs with
  | [] => Ok false
  | sv :: rest =>
      match sv_location sv with
      | None => Err E_Key
      | Some l => if str_eqb l u then Ok true else find_url rest u
      end
  end.

(* for srv in srvs: if srv["index"] == _index: return binding, srv["location"] *)
Fixpoint find_index (srvs : list service) (i : str) : result (option str) :=
  match srvs with
  | [] => Ok None
  | sv :: rest =>
      match sv_index sv with
      | None => Err E_Key
      | Some j =>
          if str_eqb j i then
            match sv_location sv with None => Err E_Key | Some l => Ok (Some l) end
          else find_index rest i
      end
  end.

(* destinations(srvs) = [s["location"] for s in srvs] *)
Fixpoint destinations (srvs : list service) : result (list str) :=
  match srvs with
  | [] => Ok []
  | sv :: rest =>
      match sv_location sv with
      | None => Err E_Key
      | Some l => match destinations rest with Err e => Err e | Ok ls => Ok (l :: ls) end
      end
  end.

(* the body of the loop for one binding, given a truthy service() result.
   Ok None = nothing returned, go on with the next binding *)
Definition try_binding (r : sres) (url idx : option str) : result (option str) :=
  match r with
  | SNone => Ok None
  | SDict => Err E_Type             (* iterating a dict yields its keys; key["location"] *)
  | SList srvs =>
      if opt_truthy url then
        match url with
        | Some u => match find_url srvs u with
                    | Err e => Err e
                    | Ok true => Ok (Some u)
                    | Ok false => Ok None
                    end
        | None => Ok None
        end
      else if opt_truthy idx then
        match idx with
        | Some i => find_index srvs i
        | None => Ok None
        end
      else
        match destinations srvs with
        | Err e => Err e
        | Ok (d :: _) => Ok (Some d)
        | Ok [] => Err (s2l "IndexError")
        end
  end.

Fixpoint pb_loop (md : mdstore) (s : svc) (eid descr : str) (url idx : option str)
         (bindings : list str) : result (str * str) :=
  match bindings with
  | [] => Err E_SAML                          (* "Unknown entity or unsupported bindings" *)
  | b :: rest =>
      match sfunc md s eid b descr with
      | Err e => if str_eqb e E_Unsupported then pb_loop md s eid descr url idx rest else Err e
      | Ok r =>
          if sres_truthy r then
            match try_binding r url idx with
            | Err e => Err e
            | Ok (Some d) => Ok (b, d)
            | Ok None => pb_loop md s eid descr url idx rest
            end
          else pb_loop md s eid descr url idx rest
      end
  end.

(* the list of bindings the loop walks: the argument, else the request's
   ProtocolBinding, else the configured preference for the service *)
Definition binding_list (c : config) (s : svc) (bindings : option (list str))
           (req : option request) : result (list str) :=
  match bindings with
  | Some l => Ok l
  | None =>
      match req with
      | Some r =>
          match rq_pbind r with
          | Missing => Err E_Attribute
          | Has pb => if opt_truthy pb
                      then Ok (match pb with Some b => [b] | None => [] end)
                      else preferred (cf_preferred c) s
          end
      | None => preferred (cf_preferred c) s
      end
  end.

(* Entity.pick_binding(service, bindings, descr_type, request, entity_id).
   A SamlBase instance is always truthy. *)
Definition pick_binding_with (both : bool) (c : config) (md : mdstore) (s : svc)
           (bindings : option (list str)) (descr_type : str)
           (req : option request) (entity_id : str) : result (str * str) :=
  do eid <- (match req with
             | Some r => if py_truthy entity_id then Ok entity_id else request_entity r
             | None => Ok entity_id
             end);
  do bl <- binding_list c s bindings req;
  let descr := default_descr c descr_type in
  let ui := match req with Some r => read_url_index both r | None => (None, None) end in
  pb_loop md s eid descr (fst ui) (snd ui) bl.

Definition pick_binding := pick_binding_with true.
Definition pick_binding_before_fix := pick_binding_with false.

(* ------------------------------------------------------------------ *)
(* response_args                                                       *)
(* ------------------------------------------------------------------ *)
(* Ok None: no "binding"/"destination" keys in the result *)
Definition response_args_with (both : bool) (c : config) (md : mdstore) (r : request)
           (bindings : option (list str)) (descr_type : str) : result (option (str * str)) :=
  (* the isinstance chain: which service, which descr_type, and the reads of
     message.issuer.text it makes on the way *)
  do sd <- (match rq_kind r with
            | KAuthn =>
                match rq_issuer r with
                | None => Err E_Attribute
                | Some _ => Ok (Some ACS, s2l "spsso")
                end
            | KLogout => Ok (Some SLO, descr_type)
            | KAttrQuery =>
                match rq_issuer r with
                | None => Err E_Attribute
                | Some _ => Ok (Some AttrCS, s2l "spsso")
                end
            | KManageNameID => Ok (Some MNI, descr_type)
            | KSoapOnly => Ok (None, descr_type)
            | KOther => Err E_SAML
            end);
  let is_soap_only :=
    match bindings with
    | Some [b] => str_eqb b B_SOAP
    | _ => false
    end in
  if is_soap_only then Ok (Some (B_SOAP, []))
  else match fst sd with
       | None => Ok None
       | Some s =>
           match pick_binding_with both c md s bindings (default_descr c (snd sd)) (Some r) [] with
           | Err e => Err e
           | Ok bd => Ok (Some bd)
           end
       end.

Definition response_args := response_args_with true.
Definition response_args_before_fix := response_args_with false.

(* ------------------------------------------------------------------ *)
(* what the property talks about                                       *)
(* ------------------------------------------------------------------ *)
(* the metadata registers, for entity [eid] under role key [role], an endpoint
   of service [s] with this binding and this location *)
Definition registered_sv (md : mdstore) (eid role : str) (s : svc) (sv : service) : Prop :=
  exists src e descs d,
    In src md /\ In e src /\ en_id e = eid /\ In (role, descs) (en_roles e) /\
    In d descs /\ In sv d /\ sv_type sv = svc_name s.
Definition registered (md : mdstore) (eid role : str) (s : svc) (b loc : str) : Prop :=
  exists sv, registered_sv md eid role s sv /\ sv_binding sv = Some b /\ sv_location sv = Some loc.

Definition entity_known (md : mdstore) (eid : str) : Prop :=
  exists src e, In src md /\ In e src /\ en_id e = eid.

(* the service and role response_args consults for a message *)
Definition kind_service (k : msgkind) : option svc :=
  match k with
  | KAuthn => Some ACS | KLogout => Some SLO | KAttrQuery => Some AttrCS
  | KManageNameID => Some MNI | _ => None
  end.
Definition kind_role (c : config) (k : msgkind) (descr_type : str) : str :=
  match k with
  | KAuthn | KAttrQuery => s2l "spsso_descriptor"
  | _ => default_descr c descr_type ++ DESCR
  end.

Definition soap_only (bindings : option (list str)) : Prop := bindings = Some [B_SOAP].

(* every endpoint dict has binding and location (what parsed, valid metadata gives) *)
Definition sv_complete (sv : service) : bool :=
  match sv_binding sv, sv_location sv with Some _, Some _ => true | _, _ => false end.

(* ------------------------------------------------------------------ *)
(* observables for the correspondence harness                          *)
(* ------------------------------------------------------------------ *)
Definition show_bd (bd : str * str) : val := VL [VS (fst bd); VS (snd bd)].
Definition show_ra (r : result (option (str * str))) : val :=
  show_result (show_option show_bd) r.
Definition show_pb (r : result (str * str)) : val := show_result show_bd r.

Definition idp_config (p : list (svc * list str)) : config := {| cf_is_sp := false; cf_preferred := p |}.
Definition sp_config (p : list (svc * list str)) : config := {| cf_is_sp := true; cf_preferred := p |}.

(* compact constructors used by generated cases *)
Definition mk_sv (t : svc) (b l : str) (i d : option str) : service :=
  {| sv_type := svc_name t; sv_binding := Some b; sv_location := Some l; sv_index := i; sv_default := d |}.
Definition mk_sp (eid : str) (descs : list descriptor) : entity :=
  {| en_id := eid; en_roles := match descs with [] => [] | _ => [(s2l "spsso_descriptor", descs)] end |}.
Definition mk_req (k : msgkind) (iss : option (option str)) (pb url idx : attr) : request :=
  {| rq_kind := k; rq_issuer := iss; rq_pbind := pb; rq_url := url; rq_index := idx |}.

(* The property only distinguishes answered-to / refused: every exception class
   is compared as Reject ([coarse]); the exact classes ([run_ra_x], [run_pb_x])
   are available for diagnosis. *)
Definition coarse (v : val) : val := match v with VE _ => VE (s2l "Reject") | _ => v end.

(* one correspondence case: (config, metadata, request, bindings, descr_type) *)
Definition ra_case := (config * mdstore * request * option (list str) * str)%type.
Definition run_ra_x (c : ra_case) : val :=
  match c with (cf, md, r, bs, dt) => show_ra (response_args cf md r bs dt) end.
Definition run_ra (c : ra_case) : val := coarse (run_ra_x c).
(* pick_binding called directly: (config, metadata, service, bindings, descr_type, request, entity_id) *)
Definition pb_case := (config * mdstore * svc * option (list str) * str * option request * str)%type.
Definition run_pb_x (c : pb_case) : val :=
  match c with (cf, md, s, bs, dt, r, eid) => show_pb (pick_binding cf md s bs dt r eid) end.
Definition run_pb (c : pb_case) : val := coarse (run_pb_x c).
