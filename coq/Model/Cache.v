(* Model/Cache.v — the SP session cache (cache.py: Cache.set/get/reset/delete/
   get_identity/entities/receivers/active/subjects), the Population wrappers
   (population.py), the two time tests it uses (time_util.after / before =
   not_on_or_after) and the key function ident.code / ident.decode.

   State = the Python dict / shelf exactly as it is used:
     subject key (code name_id) -> (entity id -> (not_on_or_after, info))
   both levels insertion ordered association lists.  Strings are UTF-8 byte
   lists.  Definitions and show_* observables only. *)
From PV Require Import Lib.Base Model.Codec.
From PV Require Model.Ident.
Open Scope N_scope.

(* ---------- Python dicts as insertion-ordered association lists ---------- *)
Section Alist.
  Context {V : Type}.
  Fixpoint alookup (k : str) (l : list (str * V)) : option V :=
    match l with
    | [] => None
    | (k', v) :: r => if str_eqb k k' then Some v else alookup k r
    end.
  (* d[k] = v : replaces in place, appends a new key at the end *)
  Fixpoint aset (k : str) (v : V) (l : list (str * V)) : list (str * V) :=
    match l with
    | [] => [(k, v)]
    | (k', v') :: r => if str_eqb k k' then (k', v) :: r else (k', v') :: aset k v r
    end.
  (* del d[k] *)
  Definition adel (k : str) (l : list (str * V)) : list (str * V) :=
    filter (fun kv => negb (str_eqb k (fst kv))) l.
End Alist.

(* ---------- name identifiers and the key function (ident.py) ---------- *)
(* the five ATTR fields; the empty string stands for None / "" (code() tests `if val`) *)
Record nameid := { nq : str; spnq : str; fmt : str; spid : str; txt : str }.
Definition no_nid : nameid := {| nq := []; spnq := []; fmt := []; spid := []; txt := [] |}.

Definition COMMA : N := 44.
Definition SLASH : N := 47.
(* urllib quote() with its default safe='/' *)
Definition quote_id_byte (b : N) : str := if b =? SLASH then [SLASH] else quote_byte false b.
Definition quote_id (bs : str) : str := flat_map quote_id_byte bs.

Definition code_field (i : N) (v : str) : list str :=
  match v with [] => [] | _ => [(48 + i) :: EQ :: quote_id v] end.
Definition code_parts (n : nameid) : list str :=
  code_field 0 (nq n) ++ code_field 1 (spnq n) ++ code_field 2 (fmt n) ++ code_field 3 (spid n) ++ code_field 4 (txt n).
Definition code (n : nameid) : str := join_with COMMA (code_parts n).

Definition set_field (n : nameid) (i : N) (v : str) : nameid :=
  match i with
  | 0 => {| nq := v; spnq := spnq n; fmt := fmt n; spid := spid n; txt := txt n |}
  | 1 => {| nq := nq n; spnq := v; fmt := fmt n; spid := spid n; txt := txt n |}
  | 2 => {| nq := nq n; spnq := spnq n; fmt := v; spid := spid n; txt := txt n |}
  | 3 => {| nq := nq n; spnq := spnq n; fmt := fmt n; spid := v; txt := txt n |}
  | 4 => {| nq := nq n; spnq := spnq n; fmt := fmt n; spid := spid n; txt := v |}
  | _ => n
  end.
Definition has_char (c : N) (s : str) : bool := existsb (N.eqb c) s.
Definition KeyError : str := s2l "KeyError".
Definition ValueError : str := s2l "ValueError".
Definition TypeError : str := s2l "TypeError".
Definition ToOld : str := s2l "ToOld".

(* decode() IS Model/Ident.v's decode (the model C18 ties to ident.py: part.split("="), int() with sign and
   several digits, negative indexes into ATTR, every failure of setattr swallowed, ValueError for two "="),
   read into this file's record: an absent / empty attribute is the empty string *)
Definition od (o : option str) : str := match Ident.tr o with Some v => v | None => [] end.
Definition of_ident (n : Ident.nameid) : nameid :=
  {| nq := od (Ident.n_nq n); spnq := od (Ident.n_spnq n); fmt := od (Ident.n_fmt n);
     spid := od (Ident.n_sppid n); txt := od (Ident.n_text n) |}.
Definition decode (s : str) : result nameid :=
  match Ident.decode s with Ok m => Ok (of_ident m) | Err e => Err e end.

(* HISTORY: the decoder this file had before it imported Ident.decode - int() for ONE digit only (all that
   code() writes); anything else treated as the swallowed failure.  Equal to decode on every key code() writes,
   different elsewhere (Props/Glue.v Glue_ident_decode_one_digit_witness) *)
Definition decode_part_one_digit (acc : result nameid) (part : str) : result nameid :=
  match acc with
  | Err e => Err e
  | Ok n =>
      match split_first EQ part [] with
      | None => Ok n
      | Some (i, v) =>
          if has_char EQ v then Err ValueError
          else match i with
               | [d] => if (48 <=? d) && (d <=? 52) then Ok (set_field n (d - 48) (unquote v)) else Ok n
               | _ => Ok n
               end
      end
  end.
Definition decode_one_digit (s : str) : result nameid := fold_left decode_part_one_digit (split_on COMMA s []) (Ok no_nid).

(* ---------- time tests (time_util.py) ---------- *)
(* a not_on_or_after value: 0 / None / "" are falsy; an int or a SAML time
   string denotes a whole second *)
Inductive stamp := Falsy | At (z : Z).
(* before(point) = not_on_or_after(point) = valid(point): `if not point: True`, else now <= point *)
Definition t_before (now : Z) (p : stamp) : bool :=
  match p with Falsy => true | At z => (now <=? z)%Z end.
(* after(point): `if not point: True`, else not before(point) *)
Definition t_after (now : Z) (p : stamp) : bool :=
  match p with Falsy => true | At z => negb (t_before now (At z)) end.

(* ---------- stored information ---------- *)
Definition ava := list (str * list str).                 (* attribute name -> values *)
Record info := {
  i_ava : option ava;              (* the "ava" key, when present *)
  i_nid : option str;              (* the "name_id" key: always a string once stored *)
  i_other : list (str * str)       (* every other key, values opaque *)
}.
Definition empty_info : info := {| i_ava := None; i_nid := None; i_other := [] |}.
Definition info_empty (i : info) : bool :=                (* `not info` *)
  match i_ava i, i_nid i, i_other i with None, None, [] => true | _, _, _ => false end.

(* what a caller hands to set(): name_id may be a NameID object or already a string *)
Inductive nid_in := NidAbsent | NidObject | NidString (s : str).
Record info_in := { in_ava : option ava; in_nid : nid_in; in_other : list (str * str) }.
(* set(): info = dict(info); a non-string name_id is replaced by code(name_id ARGUMENT) *)
Definition store_info (key : str) (i : info_in) : info :=
  {| i_ava := in_ava i;
     i_nid := match in_nid i with NidAbsent => None | NidObject => Some key | NidString s => Some s end;
     i_other := in_other i |}.

Definition entry := (stamp * info)%type.
Definition sources := list (str * entry).
Definition state := list (str * sources).
Definition init : state := [].

(* what get() hands out: a copy with name_id decoded *)
Record info_out := { o_ava : option ava; o_nid : option nameid; o_other : list (str * str) }.
Inductive get_res := GKeyError | GValueError | GOld | GNone | GInfo (i : info_out).

Definition get (now : Z) (s : state) (k e : str) (check : bool) : get_res :=
  match alookup k s with
  | None => GKeyError
  | Some srcs =>
      match alookup e srcs with
      | None => GKeyError
      | Some (ts, i) =>
          if check && t_after now ts then GOld
          else match i_nid i with
               | Some c =>
                   match decode c with
                   | Err _ => GValueError
                   | Ok n => GInfo {| o_ava := i_ava i; o_nid := Some n; o_other := i_other i |}
                   end
               | None =>
                   if info_empty i then GNone
                   else GInfo {| o_ava := i_ava i; o_nid := None; o_other := i_other i |}
               end
      end
  end.

(* list(set(old) | set(vals)): a duplicate-free list; its order is unspecified in Python *)
Definition dedup (l : list str) : list str :=
  fold_left (fun acc x => if mem_str x acc then acc else acc ++ [x]) l [].
Definition merge_one (res : ava) (kv : str * list str) : ava :=
  match alookup (fst kv) res with
  | Some old => aset (fst kv) (dedup (old ++ snd kv)) res
  | None => res ++ [kv]                     (* res[key] = vals : the stored list itself *)
  end.
Definition merge_ava (res a : ava) : ava := fold_left merge_one a res.

Fixpoint gi_loop (now : Z) (s : state) (k : str) (check : bool) (ents : list str)
         (res : ava) (old : list str) : result (ava * list str) :=
  match ents with
  | [] => Ok (res, old)
  | e :: rest =>
      match get now s k e check with
      | GKeyError => Err KeyError
      | GValueError => Err ValueError
      | GOld | GNone => gi_loop now s k check rest res (old ++ [e])
      | GInfo i =>
          match o_ava i with
          | None => Err KeyError                   (* info["ava"] *)
          | Some a => gi_loop now s k check rest (merge_ava res a) old
          end
      end
  end.
(* entities = None or [] means: every source of the subject *)
Definition get_identity (now : Z) (s : state) (k : str) (ents : list str) (check : bool)
  : result (ava * list str) :=
  match ents with
  | [] => match alookup k s with
          | None => Ok ([], [])
          | Some srcs => gi_loop now s k check (map fst srcs) [] []
          end
  | _ => gi_loop now s k check ents [] []
  end.

Definition active (now : Z) (s : state) (k e : str) : bool :=
  match alookup k s with
  | None => false
  | Some srcs =>
      match alookup e srcs with
      | None => false
      | Some (ts, i) => if info_empty i then false else t_before now ts
      end
  end.

Definition do_set (s : state) (k e : str) (ent : entry) : state :=
  let srcs := match alookup k s with Some x => x | None => [] end in
  aset k (aset e ent srcs) s.

Fixpoint decode_all (ks : list str) : result (list nameid) :=
  match ks with
  | [] => Ok []
  | k :: r => match decode k with
              | Err e => Err e
              | Ok n => match decode_all r with Err e => Err e | Ok l => Ok (n :: l) end
              end
  end.

(* ---------- operations and their results ---------- *)
Inductive op :=
| OSet (n : nameid) (e : str) (i : info_in) (ts : stamp)
| OReset (n : nameid) (e : str)
| ODelete (n : nameid)                                  (* also Population.remove_person *)
| OGet (n : nameid) (e : str) (check : bool)            (* also Population.get_info_from *)
| OIdent (n : nameid) (ents : list str) (check : bool)  (* also Population.get_identity *)
| OEntities (n : nameid)                                (* receivers / issuers_of_info / sources *)
| OActive (n : nameid) (e : str)
| OSubjects
| OStale (n : nameid) (srcs : list str)                 (* Population.stale_sources_for_person *)
| OEntityId (n : nameid) (e : str) (check : bool).      (* Population.get_entityid *)

(* Population.add_information_about_person: issuer popped, the rest (with the
   NameID object under name_id) stored under the issuer with its not_on_or_after *)
Definition OAdd (n : nameid) (issuer : str) (a : ava) (ts : stamp) (other : list (str * str)) : op :=
  OSet n issuer {| in_ava := Some a; in_nid := NidObject; in_other := other |} ts.

Inductive out :=
| RNone
| RExn (e : str)
| RInfo (i : info_out)
| RIdent (res : ava) (old : list str)
| RList (l : list str)
| RBool (b : bool)
| RSubjects (l : list nameid)
| RNid (n : nameid)
| REmptyStr.

Definition is_read (o : op) : bool :=
  match o with OSet _ _ _ _ | OReset _ _ | ODelete _ => false | _ => true end.
(* the subject an operation is about *)
Definition op_key (o : op) : option str :=
  match o with
  | OSet n _ _ _ | OReset n _ | ODelete n | OGet n _ _ | OIdent n _ _ | OEntities n
  | OActive n _ | OStale n _ | OEntityId n _ _ => Some (code n)
  | OSubjects => None
  end.

Definition step (now : Z) (s : state) (o : op) : state * out :=
  match o with
  | OSet n e i ts => let k := code n in (do_set s k e (ts, store_info k i), RNone)
  | OReset n e => (do_set s (code n) e (Falsy, empty_info), RNone)      (* set(name_id, entity_id, {}, 0) *)
  | ODelete n =>
      let k := code n in
      match alookup k s with
      | None => (s, RExn KeyError)
      | Some _ => (adel k s, RNone)
      end
  | OGet n e c =>
      (s, match get now s (code n) e c with
          | GKeyError => RExn KeyError | GValueError => RExn ValueError
          | GOld => RExn ToOld | GNone => RNone | GInfo i => RInfo i
          end)
  | OIdent n ents c =>
      (s, match get_identity now s (code n) ents c with
          | Ok (r, o) => RIdent r o
          | Err x => RExn x
          end)
  | OEntities n =>
      (s, match alookup (code n) s with
          | None => RExn KeyError
          | Some srcs => RList (map fst srcs)
          end)
  | OActive n e => (s, RBool (active now s (code n) e))
  | OSubjects =>
      (s, match decode_all (map fst s) with Ok l => RSubjects l | Err x => RExn x end)
  | OStale n srcs =>
      let k := code n in
      (s, match srcs with
          | [] => match alookup k s with
                  | None => RExn KeyError
                  | Some l => RList (filter (fun e => negb (active now s k e)) (map fst l))
                  end
          | _ => RList (filter (fun e => negb (active now s k e)) srcs)
          end)
  | OEntityId n e c =>
      (* try: get(...)["name_id"]  except (KeyError, ValueError): "" *)
      (s, match get now s (code n) e c with
          | GKeyError | GValueError => REmptyStr
          | GOld => RExn ToOld
          | GNone => RExn TypeError
          | GInfo i => match o_nid i with Some nid => RNid nid | None => REmptyStr end
          end)
  end.

(* a history: every operation with the clock reading at which it runs *)
Fixpoint run (s : state) (h : list (Z * op)) : state * list out :=
  match h with
  | [] => (s, [])
  | (now, o) :: r =>
      let (s1, x) := step now s o in
      let (s2, xs) := run s1 r in (s2, x :: xs)
  end.
Definition final (s : state) (h : list (Z * op)) : state := fst (run s h).

(* ---------- observables (canonical: Python set / dict order is not compared) ---------- *)
Fixpoint str_leb (a b : str) : bool :=
  match a, b with
  | [], _ => true
  | _ :: _, [] => false
  | x :: a', y :: b' => if x <? y then true else if y <? x then false else str_leb a' b'
  end.
Fixpoint strs_leb (a b : list str) : bool :=
  match a, b with
  | [], _ => true
  | _ :: _, [] => false
  | x :: a', y :: b' => if str_eqb x y then strs_leb a' b' else str_leb x y
  end.
Fixpoint insert_by {A} (leb : A -> A -> bool) (x : A) (l : list A) : list A :=
  match l with
  | [] => [x]
  | y :: r => if leb x y then x :: l else y :: insert_by leb x r
  end.
Definition sort_by {A} (leb : A -> A -> bool) (l : list A) : list A := fold_right (insert_by leb) [] l.
Definition sort_strs := sort_by str_leb.

Definition show_strs (l : list str) : val := VL (map VS (sort_strs l)).
Definition show_ava (a : ava) : val :=
  VL (map (fun kv : str * list str => VL [VS (fst kv); show_strs (snd kv)])
          (sort_by (fun x y : str * list str => str_leb (fst x) (fst y)) a)).
Definition nid_fields (n : nameid) : list str := [nq n; spnq n; fmt n; spid n; txt n].
Definition show_nid (n : nameid) : val := VL (map VS (nid_fields n)).
Definition show_other (l : list (str * str)) : val :=
  VL (map (fun kv : str * str => VL [VS (fst kv); VS (snd kv)])
          (sort_by (fun x y : str * str => str_leb (fst x) (fst y)) l)).
Definition show_info (i : info_out) : val :=
  VL [show_option show_ava (o_ava i); show_option show_nid (o_nid i); show_other (o_other i)].
Definition show_out (o : out) : val :=
  match o with
  | RNone => VNone
  | RExn e => VE e
  | RInfo i => show_info i
  | RIdent r old => VL [show_ava r; show_strs old]
  | RList l => show_strs l
  | RBool b => VB b
  | RSubjects l => VL (map (fun f => VL (map VS f)) (sort_by strs_leb (map nid_fields l)))
  | RNid n => show_nid n
  | REmptyStr => VS []
  end.

(* correspondence entry points.
   show_history: the result of every operation of a history run from the empty cache.
   show_after: run the (mutating) prefix, report the result of its last operation,
   then the results of queries (in blocks, one per subject) put to the resulting state. *)
Definition show_history (h : list (Z * op)) : val := VL (map show_out (snd (run init h))).
Definition show_blocks (s : state) (blocks : list (list (Z * op))) : val :=
  VL (map (fun b => VL (map show_out (snd (run s b)))) blocks).
Definition show_after (c : list (Z * op) * list (list (Z * op))) : val :=
  let (s, outs) := run init (fst c) in
  VL [show_out (last outs RNone); show_blocks s (snd c)].
(* long histories: after every operation, the results of all the queries (in blocks, one per subject) *)
Fixpoint show_steps (s : state) (h : list (Z * op)) (queries : Z -> list (list (Z * op))) : list val :=
  match h with
  | [] => []
  | (now, o) :: r =>
      let (s1, x) := step now s o in
      VL [show_out x; show_blocks s1 (queries now)] :: show_steps s1 r queries
  end.
Definition show_long (c : list (Z * op) * (Z -> list (list (Z * op)))) : val := VL (show_steps init (fst c) (snd c)).

(* ---------- the abstract specification the theorems refine to ---------- *)
(* what the cache holds for (subject key, source) *)
Definition entry_of (s : state) (k e : str) : option entry :=
  match alookup k s with None => None | Some srcs => alookup e srcs end.

(* specification state: a plain function; a write replaces one cell, delete
   clears a subject's row, everything else leaves it alone *)
Definition aspec := str -> str -> option entry.
Definition upd (f : aspec) (k e : str) (x : entry) : aspec :=
  fun k' e' => if str_eqb k' k && str_eqb e' e then Some x else f k' e'.
Definition spec_step (f : aspec) (o : op) : aspec :=
  match o with
  | OSet n e i ts => upd f (code n) e (ts, store_info (code n) i)
  | OReset n e => upd f (code n) e (Falsy, empty_info)
  | ODelete n => fun k' e' => if str_eqb k' (code n) then None else f k' e'
  | _ => f
  end.
Definition spec_of (h : list (Z * op)) : aspec :=
  fold_left (fun f no => spec_step f (snd no)) h (fun _ _ => None).

(* a source contributes to get_identity iff the code's own tests let it through:
   not (checking and after(not_on_or_after)) and info non-empty *)
Definition contributes (now : Z) (check : bool) (ent : entry) : bool :=
  negb (check && t_after now (fst ent)) && negb (info_empty (snd ent)).
(* value v is listed under attribute a *)
Definition has_val (a v : str) (res : ava) : Prop := exists l, alookup a res = Some l /\ In v l.
