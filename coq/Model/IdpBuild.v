(* Model/IdpBuild.v — C08: what the IdP asserts is what the SP reads.

   1. TEXT level: what xml.etree.ElementTree writes for character data and
      attribute values (_escape_cdata, _escape_attrib) and what an XML 1.0
      parser reads back (the five predefined entity references, numeric
      character references, end-of-line handling, attribute-value
      normalisation), an element tree, its serialisation as ElementTree
      writes it (_serialize_xml, short empty elements) and a one-pass XML
      reader (tokenizer + tree builder) for the element/attribute/text subset.
   2. ATTRIBUTE conversion: attribute_converter.py  AttributeConverter.from_dict
      / to_ / ava_from / lcd_ava_from, from_local, list_to_local, over the
      regenerated attribute maps (Gen/AttrMaps.v); str.strip; ASCII str.lower.
      (list_to_local / ava_from follow proposed_fix/C08-2 and C08-3; the code
      before them is kept as the ..._before_fix definitions.)
   3. BUILD: Server.create_authn_response -> gather_authn_response_args ->
      _authn_response -> setup_assertion -> Assertion.construct ->
      Entity._response (which elements get signed / encrypted, in which
      order), Policy.get for lifetime / name_form; the message as the parsed
      view of Model/Response.v plus its payload, and as an XML tree.
   4. READ: Model.Response.parse_response on that view + AuthnResponse
      .get_identity / name_id / issuer() / authn_info() / session_info().

   Definitions only. *)
From PV Require Import Lib.Base Model.Status Model.Response Model.Sigver Model.CertSelect Model.Codec Gen.AttrMaps Gen.StatusTable.
Open Scope N_scope.

(* ====================================================================== *)
(* 1. text level                                                          *)
(* ====================================================================== *)

(* XML 1.0 Char *)
Definition xml_char (c : N) : bool :=
  (c =? 9) || (c =? 10) || (c =? 13) || ((32 <=? c) && (c <=? 55295)) ||
  ((57344 <=? c) && (c <=? 65533)) || ((65536 <=? c) && (c <=? 1114111)).

(* ElementTree._escape_cdata : & < >  (character by character: the three
   successive str.replace calls never touch each other's output) *)
Definition esc_text_char (c : N) : str :=
  if c =? 38 then s2l "&amp;" else if c =? 60 then s2l "&lt;" else if c =? 62 then s2l "&gt;" else [c].
Definition escape_cdata (s : str) : str := flat_map esc_text_char s.

(* ElementTree._escape_attrib : & < > double-quote CR LF TAB *)
Definition esc_attr_char (c : N) : str :=
  if c =? 38 then s2l "&amp;" else if c =? 60 then s2l "&lt;" else if c =? 62 then s2l "&gt;"
  else if c =? 34 then s2l "&quot;" else if c =? 13 then s2l "&#13;" else if c =? 10 then s2l "&#10;"
  else if c =? 9 then s2l "&#09;" else [c].
Definition escape_attrib (s : str) : str := flat_map esc_attr_char s.

(* --- reading: references --- *)
Definition is_digit (c : N) : bool := (48 <=? c) && (c <=? 57).
Fixpoint dec_value (s : str) (acc : N) : option N :=
  match s with
  | [] => Some acc
  | c :: r => if is_digit c then dec_value r (acc * 10 + (c - 48)) else None
  end.
Fixpoint hex_value (s : str) (acc : N) : option N :=
  match s with
  | [] => Some acc
  | c :: r => match hexval c with Some d => hex_value r (acc * 16 + d) | None => None end
  end.
(* the text between '&' and ';' -> the character it stands for *)
Definition decode_ref (name : str) : option N :=
  if str_eqb name (s2l "amp") then Some 38
  else if str_eqb name (s2l "lt") then Some 60
  else if str_eqb name (s2l "gt") then Some 62
  else if str_eqb name (s2l "quot") then Some 34
  else if str_eqb name (s2l "apos") then Some 39
  else match name with
       | 35 :: 120 :: (_ :: _) as h => match hex_value h 0 with Some n => if xml_char n then Some n else None | None => None end
       | 35 :: (_ :: _) as d => match dec_value d 0 with Some n => if xml_char n then Some n else None | None => None end
       | _ => None                                      (* undefined entity: not well-formed *)
       end.

(* one pass over raw character data / a raw attribute value.
   state: UNorm | URef buf (inside a reference, buf reversed) | UCr (just saw a literal CR) *)
Inductive ustate := UNorm | URef (buf : str) | UCr.

(* attr = true : attribute-value normalisation (literal TAB / LF / CR become a space, CR LF one space)
   attr = false: end-of-line handling (CR LF and CR become LF) *)
Definition eol (attr : bool) : N := if attr then 32 else 10.

Fixpoint unesc (attr : bool) (st : ustate) (s : str) (out : str) : option str :=
  match s with
  | [] => match st with URef _ => None | _ => Some (rev out) end
  | c :: r =>
      match st with
      | URef buf =>
          if c =? 59 then match decode_ref (rev buf) with Some n => unesc attr UNorm r (n :: out) | None => None end
          else if (c =? 38) || (c =? 60) then None
          else unesc attr (URef (c :: buf)) r out
      | UCr =>
          if c =? 10 then unesc attr UNorm r out               (* CR LF : the LF is dropped *)
          else if c =? 13 then unesc attr UCr r (eol attr :: out)
          else if c =? 38 then unesc attr (URef []) r out
          else if c =? 60 then None
          else if attr && ((c =? 9)) then unesc attr UNorm r (32 :: out)
          else unesc attr UNorm r (c :: out)
      | UNorm =>
          if c =? 13 then unesc attr UCr r (eol attr :: out)
          else if c =? 38 then unesc attr (URef []) r out
          else if c =? 60 then None                             (* '<' never appears raw *)
          else if attr && ((c =? 9) || (c =? 10)) then unesc attr UNorm r (32 :: out)
          else unesc attr UNorm r (c :: out)
      end
  end.
(* the CDATA-section-close delimiter must not appear literally in character data *)
Fixpoint has_sub (p s : str) : bool :=
  match s with
  | [] => false
  | _ :: r => match strip_prefix p s with Some _ => true | None => has_sub p r end
  end.
Definition CDEND : str := s2l "]]>".
Definition unescape_text (s : str) : option str := if has_sub CDEND s then None else unesc false UNorm s [].
Definition unescape_attr (s : str) : option str := unesc true UNorm s [].

(* what survives of character data: CR LF -> LF, CR -> LF *)
Fixpoint norm_eol (s : str) : str :=
  match s with
  | [] => []
  | 13 :: r => 10 :: norm_eol (match r with 10 :: r' => r' | _ => r end)
  | c :: r => c :: norm_eol r
  end.

(* --- element trees (no mixed content: text only before the first child) --- *)
Inductive xml := Node (tag : str) (attrs : list (str * str)) (text : str) (kids : list xml).

Definition x_tag (t : xml) := match t with Node g _ _ _ => g end.
Definition x_attrs (t : xml) := match t with Node _ a _ _ => a end.
Definition x_text (t : xml) := match t with Node _ _ x _ => x end.
Definition x_kids (t : xml) := match t with Node _ _ _ k => k end.

Definition ser_attr (kv : str * str) : str := 32 :: fst kv ++ 61 :: 34 :: escape_attrib (snd kv) ++ [34].
Definition ser_attrs (l : list (str * str)) : str := flat_map ser_attr l.

(* ElementTree._serialize_xml with short_empty_elements *)
Fixpoint serialise (t : xml) : str :=
  match t with
  | Node tag attrs text kids =>
      let body := escape_cdata text ++ flat_map serialise kids in
      match text, kids with
      | [], [] => 60 :: tag ++ ser_attrs attrs ++ s2l " />"
      | _, _ => 60 :: tag ++ ser_attrs attrs ++ 62 :: body ++ 60 :: 47 :: tag ++ [62]
      end
  end.
Definition ser_list (l : list xml) : str := flat_map serialise l.

(* the structure of a tree: tags, nesting, attribute NAMES - no values *)
Inductive shape := Shape (tag : str) (attr_names : list str) (kids : list shape).
Fixpoint skeleton (t : xml) : shape :=
  match t with Node tag attrs _ kids => Shape tag (map fst attrs) (map skeleton kids) end.

(* --- tokenizer --- *)
Inductive token :=
| TOpen (tag : str) (attrs : list (str * str))
| TEmpty (tag : str) (attrs : list (str * str))
| TClose (tag : str)
| TText (s : str).

Definition is_ws (c : N) : bool := (c =? 32) || (c =? 9) || (c =? 10) || (c =? 13).
Definition is_alpha (c : N) : bool := ((65 <=? c) && (c <=? 90)) || ((97 <=? c) && (c <=? 122)).
(* names as ElementTree writes them: prefix:local over letters digits _ - . *)
Definition name_start (c : N) : bool := is_alpha c || (c =? 95).
Definition name_char (c : N) : bool := is_alpha c || is_digit c || (c =? 95) || (c =? 45) || (c =? 46) || (c =? 58).
Definition name_ok (s : str) : bool :=
  match s with [] => false | c :: r => name_start c && forallb name_char r end.

Inductive tstate :=
| SContent (buf : str)
| SLt
| SCloseName (buf : str)
| SCloseWs (tag : str)
| SOpenName (buf : str)
| SAttrs (tag : str) (attrs : list (str * str))          (* after whitespace *)
| SAfterVal (tag : str) (attrs : list (str * str))       (* right after a closing quote *)
| SSlash (tag : str) (attrs : list (str * str))
| SAttrName (tag : str) (attrs : list (str * str)) (buf : str)
| SAttrNameWs (tag : str) (attrs : list (str * str)) (name : str)
| SEq (tag : str) (attrs : list (str * str)) (name : str)
| SAttrVal (tag : str) (attrs : list (str * str)) (name : str) (buf : str).

Definition flush (buf : str) (out : list token) : option (list token) :=
  match buf with
  | [] => Some out
  | _ => match unescape_text (rev buf) with Some t => Some (TText t :: out) | None => None end
  end.

Definition has_key (k : str) (l : list (str * str)) : bool := existsb (fun kv => str_eqb k (fst kv)) l.

Definition tstep (st : tstate) (c : N) (out : list token) : option (tstate * list token) :=
  match st with
  | SContent buf =>
      if c =? 60 then match flush buf out with Some out' => Some (SLt, out') | None => None end
      else Some (SContent (c :: buf), out)
  | SLt =>
      if c =? 47 then Some (SCloseName [], out)
      else if name_start c then Some (SOpenName [c], out)
      else None                                  (* comments, PIs, CDATA sections, DOCTYPE: outside the subset *)
  | SCloseName buf =>
      if c =? 62 then (if name_ok (rev buf) then Some (SContent [], TClose (rev buf) :: out) else None)
      else if is_ws c then (if name_ok (rev buf) then Some (SCloseWs (rev buf), out) else None)
      else if (match buf with [] => name_start c | _ => name_char c end) then Some (SCloseName (c :: buf), out)
      else None
  | SCloseWs tag =>
      if c =? 62 then Some (SContent [], TClose tag :: out)
      else if is_ws c then Some (SCloseWs tag, out) else None
  | SOpenName buf =>
      if c =? 62 then Some (SContent [], TOpen (rev buf) [] :: out)
      else if c =? 47 then Some (SSlash (rev buf) [], out)
      else if is_ws c then Some (SAttrs (rev buf) [], out)
      else if name_char c then Some (SOpenName (c :: buf), out)
      else None
  | SAttrs tag attrs =>
      if c =? 62 then Some (SContent [], TOpen tag (rev attrs) :: out)
      else if c =? 47 then Some (SSlash tag attrs, out)
      else if is_ws c then Some (SAttrs tag attrs, out)
      else if name_start c then Some (SAttrName tag attrs [c], out)
      else None
  | SAfterVal tag attrs =>
      if c =? 62 then Some (SContent [], TOpen tag (rev attrs) :: out)
      else if c =? 47 then Some (SSlash tag attrs, out)
      else if is_ws c then Some (SAttrs tag attrs, out)
      else None                                  (* attributes must be separated by white space *)
  | SSlash tag attrs =>
      if c =? 62 then Some (SContent [], TEmpty tag (rev attrs) :: out) else None
  | SAttrName tag attrs buf =>
      if c =? 61 then (if has_key (rev buf) attrs then None else Some (SEq tag attrs (rev buf), out))   (* duplicate attribute: not well-formed *)
      else if is_ws c then (if has_key (rev buf) attrs then None else Some (SAttrNameWs tag attrs (rev buf), out))
      else if name_char c then Some (SAttrName tag attrs (c :: buf), out)
      else None
  | SAttrNameWs tag attrs name =>
      if c =? 61 then Some (SEq tag attrs name, out) else if is_ws c then Some (SAttrNameWs tag attrs name, out) else None
  | SEq tag attrs name =>
      if c =? 34 then Some (SAttrVal tag attrs name [], out)               (* ElementTree always writes double quotes *)
      else if is_ws c then Some (SEq tag attrs name, out) else None
  | SAttrVal tag attrs name buf =>
      if c =? 34 then
        match unescape_attr (rev buf) with
        | Some v => Some (SAfterVal tag ((name, v) :: attrs), out)
        | None => None
        end
      else Some (SAttrVal tag attrs name (c :: buf), out)
  end.

Fixpoint tsteps (st : tstate) (s : str) (out : list token) : option (tstate * list token) :=
  match s with
  | [] => Some (st, out)
  | c :: r => match tstep st c out with Some (st', out') => tsteps st' r out' | None => None end
  end.

Definition tokenize (s : str) : option (list token) :=
  match tsteps (SContent []) s [] with
  | Some (SContent buf, out) => match flush buf out with Some out' => Some (rev out') | None => None end
  | _ => None
  end.

(* --- tree builder: a stack of open elements --- *)
Record frame := { f_tag : str; f_attrs : list (str * str); f_text : str; f_kids : list xml (* reversed *) }.
Definition close_frame (f : frame) : xml := Node (f_tag f) (f_attrs f) (f_text f) (rev (f_kids f)).
Definition add_kid (f : frame) (k : xml) : frame :=
  {| f_tag := f_tag f; f_attrs := f_attrs f; f_text := f_text f; f_kids := k :: f_kids f |}.
Definition all_ws (s : str) : bool := forallb is_ws s.

(* [done]: the document element once it is closed *)
Fixpoint build (toks : list token) (stack : list frame) (done : option xml) : option xml :=
  match toks with
  | [] => match stack with [] => done | _ => None end
  | tk :: rest =>
      match done with
      | Some _ => match tk with TText s => if all_ws s then build rest stack done else None | _ => None end
      | None =>
          match tk with
          | TOpen tag attrs => build rest ({| f_tag := tag; f_attrs := attrs; f_text := []; f_kids := [] |} :: stack) None
          | TEmpty tag attrs =>
              match stack with
              | [] => build rest [] (Some (Node tag attrs [] []))
              | f :: up => build rest (add_kid f (Node tag attrs [] []) :: up) None
              end
          | TText s =>
              match stack with
              | [] => if all_ws s then build rest [] None else None
              | f :: up =>
                  match f_kids f, f_text f with
                  | [], [] => build rest ({| f_tag := f_tag f; f_attrs := f_attrs f; f_text := s; f_kids := [] |} :: up) None
                  | _, _ => None                      (* mixed content: outside the subset *)
                  end
              end
          | TClose tag =>
              match stack with
              | [] => None
              | f :: up =>
                  if str_eqb tag (f_tag f) then
                    match up with
                    | [] => build rest [] (Some (close_frame f))
                    | p :: up' => build rest (add_kid p (close_frame f) :: up') None
                    end
                  else None
              end
          end
      end
  end.

Definition xml_parse (s : str) : option xml :=
  if forallb xml_char s then
    match tokenize s with Some toks => build toks [] None | None => None end
  else None.

(* well-formed trees the serialiser is given: proper names, no duplicate attribute, legal characters *)
Fixpoint nodup_keys (l : list (str * str)) : bool :=
  match l with [] => true | kv :: r => negb (has_key (fst kv) r) && nodup_keys r end.
Fixpoint wf_xml (t : xml) : bool :=
  match t with
  | Node tag attrs text kids =>
      name_ok tag && forallb (fun kv => name_ok (fst kv) && forallb xml_char (snd kv)) attrs && nodup_keys attrs &&
      forallb xml_char text && forallb wf_xml kids
  end.
Fixpoint norm_xml (t : xml) : xml :=
  match t with Node tag attrs text kids => Node tag attrs (norm_eol text) (map norm_xml kids) end.

(* ====================================================================== *)
(* 2. attribute conversion                                                *)
(* ====================================================================== *)

(* str.lower() on the ASCII range (see ASSUMPTIONS: attribute names outside ASCII are fixed by lower) *)
Definition lower (s : str) : str := map lower_ascii s.

(* str.strip(): remove str.isspace() characters at both ends (py_space is regenerated) *)
Definition is_space (c : N) : bool := existsb (N.eqb c) py_space.
Fixpoint lstrip (s : str) : str :=
  match s with [] => [] | c :: r => if is_space c then lstrip r else s end.
Definition strip (s : str) : str := rev (lstrip (rev (lstrip s))).

(* Python dict built from an item list: the LAST item with a key wins *)
Fixpoint dict_get (k : str) (l : list (str * str)) : option str :=
  match l with
  | [] => None
  | (k', v) :: r => match dict_get k r with Some v' => Some v' | None => if str_eqb k k' then Some v else None end
  end.

(* AttributeConverter after from_dict: keys of both directions lower-cased *)
Record conv := { c_nf : str; c_to : list (str * str); c_fro : list (str * str) }.
Definition lower_keys (l : list (str * str)) : list (str * str) := map (fun kv => (lower (fst kv), snd kv)) l.
Definition from_dict (m : str * list (str * str) * list (str * str)) : conv :=
  match m with (ident, to, fro) => {| c_nf := ident; c_to := lower_keys to; c_fro := lower_keys fro |} end.
(* ac_factory(): one converter per map, in order *)
Definition default_acs : list conv := map from_dict attr_maps.

(* an AttributeValue: text, or one NameID extension element (eduPersonTargetedID), or one extension element
   of the assertion namespace that is not a NameID (AOther: an attribute-less Audience element; to_ never
   builds one - it is there to say how the reader treats extension elements other than NameID) *)
Inductive aval := AText (s : str) | ANameID (fmt : str) (s : str) | AOther (s : str).
Record attribute := { at_name : str; at_format : option str; at_friendly : option str; at_values : list aval }.

Definition EPTID_OID : str := s2l "urn:oid:1.3.6.1.4.1.5923.1.1.1.10".
Definition EPTID : str := s2l "eduPersonTargetedID".

Definition identity := list (str * list str).          (* a dict: keys pairwise different, insertion order *)

(* AttributeConverter.to_ for one item *)
Definition to_attr (c : conv) (kv : str * list str) : attribute :=
  let unmapped := {| at_name := fst kv; at_format := Some NAME_FORMAT_URI (* saml.Attribute default *);
                     at_friendly := None; at_values := map AText (snd kv) |} in
  match dict_get (lower (fst kv)) (c_to c) with
  | Some name =>
      match name with
      | [] => unmapped                                                     (* `if name:` *)
      | _ => {| at_name := name; at_format := Some (c_nf c); at_friendly := Some (fst kv);
                at_values := if str_eqb name EPTID_OID then map (ANameID NAMEID_FORMAT_PERSISTENT) (snd kv)
                             else map AText (snd kv) |}
      end
  | None => unmapped
  end.

(* from_local: the FIRST converter with that name format; None when there is none *)
Fixpoint from_local (acs : list conv) (ava : identity) (name_format : str) : option (list attribute) :=
  match acs with
  | [] => None
  | c :: r => if str_eqb (c_nf c) name_format then Some (map (to_attr c) ava) else from_local r ava name_format
  end.

(* what the application reads for one value *)
Inductive rval :=
| RStr (s : str)
| RNameID (fmt : option str) (value : option str)      (* {'NameID': {'format': .., 'value': ..}} *)
| ROther (value : option str).                         (* {'Audience': {'value': ..}} *)

Definition truthy (s : str) : option str := match s with [] => None | _ => Some s end.

(* AttributeConverter.ava_from, one value (after proposed_fix/C08-3): a NameID extension element under the
   local name eduPersonTargetedID is read as its trimmed text - '' when it has none, which is how to_()
   sends an empty value; under any other name as {'NameID': {'format': .., 'value': ..}} *)
Definition read_value (local : str) (v : aval) : rval :=
  match v with
  | AText s => RStr (strip s)                            (* '' when there is no text *)
  | ANameID fmt s =>
      if str_eqb local EPTID then RStr (strip s)
      else match s with
           | [] => RNameID (truthy fmt) None
           | _ => RNameID (truthy fmt) (Some (strip s))
           end
  | AOther s =>                                          (* not a NameID: its text only under eduPersonTargetedID and only if it has one *)
      match s with
      | [] => ROther None
      | _ => if str_eqb local EPTID then RStr (strip s) else ROther (Some (strip s))
      end
  end.

(* AttributeConverter.ava_from (allow_unknown = False): None = KeyError *)
Definition ava_from (c : conv) (a : attribute) : option (str * list rval) :=
  match dict_get (lower (strip (at_name a))) (c_fro c) with
  | Some local => Some (local, map (read_value local) (at_values a))
  | None => None
  end.
(* lcd_ava_from *)
Definition lcd_ava_from (a : attribute) : str * list rval :=
  (strip (at_name a), map (fun v => match v with AText s => RStr (strip s) | ANameID _ _ | AOther _ => RStr [] end) (at_values a)).

(* list_to_local (after proposed_fix/C08-2): acsd[name_format] = EVERY converter registered for that name
   format, in ac_factory order (the order from_local looks at them) *)
Definition convs_for (nf : str) (acs : list conv) : list conv := filter (fun c => str_eqb nf (c_nf c)) acs.
(* ... asked in turn; the first that knows the name answers; None = the KeyError of the last one *)
Fixpoint first_known (cs : list conv) (a : attribute) : option (str * list rval) :=
  match cs with
  | [] => None
  | c :: r => match ava_from c a with Some kv => Some kv | None => first_known r a end
  end.

Definition ava := list (str * list rval).
(* ava[key].extend(val) / ava[key] = val *)
Fixpoint ava_add (k : str) (vs : list rval) (d : ava) : ava :=
  match d with
  | [] => [(k, vs)]
  | (k', vs') :: r => if str_eqb k k' then (k', vs' ++ vs) :: r else (k', vs') :: ava_add k vs r
  end.

(* one round of list_to_local's loop: Some (key, values) or skipped *)
(* an Attribute parsed without NameFormat keeps the constructor default of saml.Attribute: the uri format *)
Definition parsed_format (a : attribute) : str := match at_format a with Some nf => nf | None => NAME_FORMAT_URI end.
Definition read_attr (acs : list conv) (allow_unknown : bool) (a : attribute) : option (str * list rval) :=
  match convs_for (parsed_format a) acs with
  | [] =>
      if str_eqb (parsed_format a) NAME_FORMAT_UNSPECIFIED || allow_unknown
      then Some (lcd_ava_from a) else None
  | cs =>
      match first_known cs a with
      | Some kv => Some kv
      | None => if allow_unknown then Some (lcd_ava_from a) else None
      end
  end.

Fixpoint list_to_local_from (acs : list conv) (allow_unknown : bool) (attrs : list attribute) (d : ava) : ava :=
  match attrs with
  | [] => d
  | a :: r => list_to_local_from acs allow_unknown r
                (match read_attr acs allow_unknown a with Some (k, vs) => ava_add k vs d | None => d end)
  end.
Definition list_to_local (acs : list conv) (allow_unknown : bool) (attrs : list attribute) : ava :=
  list_to_local_from acs allow_unknown attrs [].

(* --- before the repairs proposed_fix/C08-2 and C08-3 ---
   C08-3: ava_from returned the NameID text only `if attr == eduPersonTargetedID and ex.text`: an EMPTY
          eduPersonTargetedID value came back as the dictionary {'NameID': {'format': ...}}
   C08-2: acsd = dict((a.name_format, a) for a in acs) kept only the LAST converter of a name format while
          from_local converts with the FIRST: names only the first one knows were sent but never delivered *)
Definition read_value_before_fix (local : str) (v : aval) : rval :=
  match v with
  | AText s => RStr (strip s)
  | ANameID fmt s =>
      match s with
      | [] => RNameID (truthy fmt) None
      | _ => if str_eqb local EPTID then RStr (strip s) else RNameID (truthy fmt) (Some (strip s))
      end
  | AOther s =>
      match s with
      | [] => ROther None
      | _ => if str_eqb local EPTID then RStr (strip s) else ROther (Some (strip s))
      end
  end.
Definition ava_from_before_fix (c : conv) (a : attribute) : option (str * list rval) :=
  match dict_get (lower (strip (at_name a))) (c_fro c) with
  | Some local => Some (local, map (read_value_before_fix local) (at_values a))
  | None => None
  end.
Fixpoint acsd_get_before_fix (nf : str) (acs : list conv) : option conv :=
  match acs with
  | [] => None
  | c :: r => match acsd_get_before_fix nf r with Some c' => Some c' | None => if str_eqb nf (c_nf c) then Some c else None end
  end.
Definition read_attr_before_fix (acs : list conv) (allow_unknown : bool) (a : attribute) : option (str * list rval) :=
  match acsd_get_before_fix (parsed_format a) acs with
  | Some c =>
      match ava_from_before_fix c a with
      | Some kv => Some kv
      | None => if allow_unknown then Some (lcd_ava_from a) else None
      end
  | None =>
      if str_eqb (parsed_format a) NAME_FORMAT_UNSPECIFIED || allow_unknown
      then Some (lcd_ava_from a) else None
  end.
Fixpoint list_to_local_from_before_fix (acs : list conv) (allow_unknown : bool) (attrs : list attribute) (d : ava) : ava :=
  match attrs with
  | [] => d
  | a :: r => list_to_local_from_before_fix acs allow_unknown r
                (match read_attr_before_fix acs allow_unknown a with Some (k, vs) => ava_add k vs d | None => d end)
  end.
Definition list_to_local_before_fix (acs : list conv) (allow_unknown : bool) (attrs : list attribute) : ava :=
  list_to_local_from_before_fix acs allow_unknown attrs [].

(* --- the attribute statement as an XML tree and back --- *)
Definition P_SAML : str := s2l "ns1:".                    (* prefix ElementTree gives the assertion namespace in a Response *)
Definition T (local : string) : str := P_SAML ++ s2l local.
Definition A (n : string) : str := s2l n.

Definition value_xml (v : aval) : xml :=
  match v with
  | AText s => Node (T "AttributeValue") [(A "xsi:type", A "xs:string"); (A "xmlns:xs", XS_NAMESPACE)] s []
  | ANameID fmt s => Node (T "AttributeValue") [] [] [Node (T "NameID") [(A "Format", fmt)] s []]
  | AOther s => Node (T "AttributeValue") [] [] [Node (T "Audience") [] s []]
  end.
Definition opt_attr (n : string) (v : option str) : list (str * str) :=
  match v with Some s => [(A n, s)] | None => [] end.
Definition attribute_xml (a : attribute) : xml :=
  Node (T "Attribute") ((A "Name", at_name a) :: opt_attr "NameFormat" (at_format a) ++ opt_attr "FriendlyName" (at_friendly a))
       [] (map value_xml (at_values a)).
Definition attr_statement_xml (l : list attribute) : xml := Node (T "AttributeStatement") [] [] (map attribute_xml l).

(* Assertion.construct: the statement is left out when it has no attribute *)
Definition statement_xml_opt (l : list attribute) : option xml :=
  match l with [] => None | _ => Some (attr_statement_xml l) end.

(* harvest: SamlBase.harvest_element_tree for Attribute / AttributeValue / NameID *)
Definition get_attr (k : str) (l : list (str * str)) : option str :=
  (fix go l := match l with [] => None | (k', v) :: r => if str_eqb k k' then Some v else go r end) l.
Definition value_of_xml (t : xml) : aval :=
  match x_kids t with
  | Node tag attrs text _ :: _ =>
      if str_eqb tag (T "NameID") then ANameID (match get_attr (A "Format") attrs with Some f => f | None => [] end) text
      else if str_eqb tag (T "Audience") then AOther text
      else AText (x_text t)
  | [] => AText (x_text t)
  end.
Definition attribute_of_xml (t : xml) : attribute :=
  {| at_name := match get_attr (A "Name") (x_attrs t) with Some n => n | None => [] end;
     at_format := get_attr (A "NameFormat") (x_attrs t);
     at_friendly := get_attr (A "FriendlyName") (x_attrs t);
     at_values := map value_of_xml (filter (fun k => str_eqb (x_tag k) (T "AttributeValue")) (x_kids t)) |}.
Definition attrs_of_statement_xml (t : xml) : list attribute :=
  map attribute_of_xml (filter (fun k => str_eqb (x_tag k) (T "Attribute")) (x_kids t)).

(* ====================================================================== *)
(* 3. build                                                                *)
(* ====================================================================== *)
Open Scope Z_scope.

(* Policy.get(attribute, sp_entity_id, default): the SP's own section, else the
   "default" section; a value of None anywhere gives the built-in default.
   sec = None: no such section or the key is not in it; Some None: key present with value None *)
Record layered (V : Type) := { l_any : bool (* restrictions configured at all *);
                               l_sp : option (option V); l_default : option (option V) }.
Arguments l_any {V}. Arguments l_sp {V}. Arguments l_default {V}.
Definition policy_get {V} (p : layered V) (builtin : V) : V :=
  if negb (l_any p) then builtin else
  match l_sp p with
  | Some v => match v with Some x => x | None => builtin end
  | None => match l_default p with Some (Some x) => x | _ => builtin end
  end.

Record nameid := { n_text : str; n_format : option str; n_spq : option str; n_nq : option str }.

Record idp := {
  i_entity_id : str;
  i_acs : list conv;
  i_name_form : layered str;               (* policy "name_form" *)
  i_lifetime : layered Z;                  (* policy "lifetime", in seconds *)
  i_sign_response : option bool;           (* service/idp options used when the caller passes None *)
  i_sign_assertion : option bool;
  i_encrypt_assertion : option bool;
  i_key : N;                               (* the key it signs with (= the certificate in its metadata) *)
  i_now : Z
}.

Record args := {
  g_identity : identity;
  g_name_id : nameid;
  g_class_ref : option str; g_authn_auth : option str; g_authn_instant : option Z;
  g_irt : str; g_destination : str; g_sp : str;
  g_sign_response : option bool; g_sign_assertion : option bool; g_encrypt_assertion : option bool;
  g_encrypt_cert : option N;               (* encrypt_cert_assertion handed in by the caller *)
  g_self_contained : bool;                 (* encrypt_assertion_self_contained *)
  g_session_nooa : option Z
}.

(* what the IdP knows of the SP: the SP's generated metadata *)
Record sp_md := { m_enc_certs : list N }.  (* certs(sp, "any", "encryption") *)

Definition eff (a c : option bool) : bool :=
  match a with Some b => b | None => match c with Some b => b | None => false end end.

Record wire := { w_rsig : bool; w_asig : bool; w_enc : option N (* certificate encrypted for *) }.

(* _authn_response + Entity._response: who is signed, is the assertion encrypted.
   Encryption happens only when a certificate is at hand; the assertion is
   signed whenever that was asked (inside the ciphertext when encrypted). *)
Definition enc_cert (m : sp_md) (a : args) (ea : bool) : option N :=
  if ea then match g_encrypt_cert a with
             | Some c => Some c
             | None => match m_enc_certs m with c :: _ => Some c | [] => None end
             end
  else None.
Definition sign_encrypt (i : idp) (m : sp_md) (a : args) : wire :=
  let sr := eff (g_sign_response a) (i_sign_response i) in
  let sa := eff (g_sign_assertion a) (i_sign_assertion i) in
  let ea := eff (g_encrypt_assertion a) (i_encrypt_assertion i) in
  {| w_rsig := sr; w_asig := sa; w_enc := enc_cert m a ea |}.

(* before the repair (proposed_fix/C08-1): _authn_response prepares the
   assertion signature only `if not encrypt_assertion`, Entity._response signs it
   only when it really encrypts - asked to encrypt for an SP without an
   encryption certificate the assertion went out in the clear AND unsigned *)
Definition sign_encrypt_before_fix (i : idp) (m : sp_md) (a : args) : wire :=
  let sr := eff (g_sign_response a) (i_sign_response i) in
  let sa := eff (g_sign_assertion a) (i_sign_assertion i) in
  let ea := eff (g_encrypt_assertion a) (i_encrypt_assertion i) in
  let enc := enc_cert m a ea in
  {| w_rsig := sr; w_asig := match enc with Some _ => sa | None => sa && negb ea end; w_enc := enc |}.

Definition name_form (i : idp) : str := policy_get (i_name_form i) NAME_FORMAT_URI.
Definition lifetime (i : idp) : Z := policy_get (i_lifetime i) 3600.

(* the payload of the one assertion *)
Record payload := {
  p_issuer : str;
  p_name_id : nameid;
  p_attributes : list attribute;          (* [] : no AttributeStatement *)
  p_authn : option (option (str * option str) * Z)
     (* AuthnStatement: AuthnContext (class ref, authenticating authority) if any, and AuthnInstant *)
}.
Definition has_authn (a : args) : bool :=
  match g_class_ref a, g_authn_auth a with
  | None, None => false
  | Some [], None | None, Some [] | Some [], Some [] => false       (* `authn_auth or authn_class or ...` on empty strings *)
  | _, _ => true
  end.
Definition build_payload (i : idp) (a : args) : payload :=
  {| p_issuer := i_entity_id i;
     p_name_id := g_name_id a;
     p_attributes := match from_local (i_acs i) (g_identity a) (name_form i) with Some l => l | None => [] end;
     p_authn := if has_authn a then
                  Some (match g_class_ref a with
                        | Some ((_ :: _) as cls) => Some (cls, match g_authn_auth a with Some [] => None | x => x end)
                        | _ => None          (* authn_statement(): without a class ref no AuthnContext is built at all *)
                        end,
                        match g_authn_instant a with Some 0 | None => i_now i | Some t => t end)
                else None |}.

(* the value-carrying parts of the assertion as XML *)
Definition nameid_xml (n : nameid) : xml :=
  Node (T "NameID") (opt_attr "NameQualifier" (n_nq n) ++ opt_attr "SPNameQualifier" (n_spq n) ++ opt_attr "Format" (n_format n)) (n_text n) [].
Definition authn_context_xml (p : payload) : option xml :=
  match p_authn p with
  | Some (Some (cls, auth), _) =>
      Some (Node (T "AuthnContext") [] []
              (Node (T "AuthnContextClassRef") [] cls [] ::
               match auth with Some x => [Node (T "AuthenticatingAuthority") [] x []] | None => [] end))
  | _ => None
  end.
Definition issuer_xml (p : payload) : xml :=
  Node (T "Issuer") [(A "Format", s2l "urn:oasis:names:tc:SAML:2.0:nameid-format:entity")] (p_issuer p) [].
(* Issuer, NameID, AuthnContext, AttributeStatement of the built assertion *)
Definition payload_xml (p : payload) : list xml :=
  issuer_xml p :: nameid_xml (p_name_id p) ::
  (match authn_context_xml p with Some x => [x] | None => [] end) ++
  (match statement_xml_opt (p_attributes p) with Some x => [x] | None => [] end).

(* what the IdP's generated metadata says about its keys (entity_descriptor of a
   configuration with a cert_file): one role with a signing KeyDescriptor *)
Definition generated_idp_md (eid : str) (key : N) : mdstore :=
  [(eid, [[{| kd_use := Some SIGNING; kd_certs := [key] |}]])].

(* the SP's own configuration as far as signatures / decryption are concerned *)
Record sp_keys := { k_md : mdstore;          (* its metadata store (the IdP's generated metadata loaded) *)
                    k_only_md : bool;
                    k_dec : list N }.          (* certificates it holds the private key of *)

Definition verdict (k : sp_keys) (i : idp) : result unit :=
  check_signature true (k_md k) (Some (strip (i_entity_id i))) (k_only_md k) [i_key i] (i_key i).

Definition built_assertion (i : idp) (a : args) (k : sp_keys) (signed : bool) : assertion :=
  let nooa := i_now i + lifetime i in
  {| a_id := 1%N;
     a_sig := if signed then Some (verdict k i) else None;
     a_authn := if has_authn a then [g_session_nooa a] else [];
     a_conditions := Some {| k_empty := false; k_nb := Some (i_now i); k_nooa := Some nooa;
                             k_audiences := [[strip (g_sp a)]]; k_unknown_condition := false |};
     a_has_subject := true;
     a_confirmations := [{| c_method := Bearer;
                            c_data := Some {| d_address := None; d_address_valid := true; d_nooa := Some nooa; d_nb := None;
                                              d_irt := Some (g_irt a); d_recipient := Some (g_destination a) |} |}];
     a_name_id := Some (n_text (g_name_id a)) |}.

Definition success_status : status_view := {| st_code := Some (Code (Some STATUS_SUCCESS) None); st_msg := false |}.

(* the message as the SP's parser delivers it *)
Definition built_view (w : wire) (i : idp) (a : args) (k : sp_keys) : response :=
  let asr := built_assertion i a k (w_asig w) in
  {| r_sig := if w_rsig w then Some (verdict k i) else None;
     r_valid_instance := true;
     r_irt := Some (g_irt a);
     r_version := Some V20; r_ver_lt2 := Some false;
     r_destination := match g_destination a with [] => None | d => Some d end;
     r_issue_instant := i_now i;
     r_status := Some success_status;
     r_assertions := match w_enc w with Some _ => [] | None => [asr] end;
     r_encrypted := match w_enc w with
                    | Some c => [{| e_opens := memN c (k_dec k); e_inner := asr |}]
                    | None => [] end |}.

(* ====================================================================== *)
(* 4. read                                                                 *)
(* ====================================================================== *)
Record app_view := {
  v_name_id : option nameid;              (* AuthnResponse.name_id *)
  v_ava : ava;                            (* .ava *)
  v_irt : option str;                     (* .in_response_to *)
  v_issuer : str;                         (* .issuer() *)
  v_authn : list (str * list str * Z);    (* .authn_info() *)
  v_nooa : Z;                             (* .session_info()["not_on_or_after"] *)
  v_came_from : option str
}.

Record sp := { s_cfg : cfg; s_keys : sp_keys; s_acs : list conv; s_allow_unknown : bool }.

Definition read_authn (p : payload) : list (str * list str * Z) :=
  match p_authn p with
  | Some (Some (cls, auth), t) => [(cls, match auth with Some x => [x] | None => [] end, t)]
  | _ => []                                                  (* no AuthnContext: nothing reported *)
  end.

(* the SP reads the (only) assertion it accepted *)
Definition read (s : sp) (issuer : str) (p : payload) (r : response) : result app_view :=
  match parse_response (s_cfg s) r with
  | Err e => Err e
  | Ok o =>
      let accepted := match o_assertions o with [] => false | _ => true end in
      Ok {| v_name_id := match o_name_id o with Some _ => Some (p_name_id p) | None => None end;
            v_ava := if accepted then list_to_local (s_acs s) (s_allow_unknown s) (p_attributes p) else [];
            v_irt := o_irt o;
            v_issuer := strip issuer;
            v_authn := if accepted then read_authn p else [];
            v_nooa := o_nooa o;
            v_came_from := o_came_from o |}
  end.

(* Entity._response with encrypt_assertion_self_contained = False moves the assertion into the
   EncryptedAssertion itself; unless signing the assertion has meanwhile turned the message into
   text, sigver.encrypt_assertion does the move a second time on the now assertion-less response
   object: the tool finds nothing to encrypt - EncryptError, nothing is built *)
Definition build_fails (w : wire) (a : args) : bool :=
  match w_enc w with Some _ => negb (g_self_contained a) && negb (w_asig w) | None => false end.
Definition roundtrip_with (se : idp -> sp_md -> args -> wire) (i : idp) (m : sp_md) (s : sp) (a : args) : result app_view :=
  if build_fails (se i m a) a then Err (s2l "EncryptError") else
  read s (i_entity_id i) (build_payload i a) (built_view (se i m a) i a (s_keys s)).
Definition roundtrip := roundtrip_with sign_encrypt.
Definition roundtrip_before_fix := roundtrip_with sign_encrypt_before_fix.

(* ====================================================================== *)
(* observables                                                             *)
(* ====================================================================== *)
Definition show_ostr (o : option str) : val := show_option VS o.
Definition show_rval (v : rval) : val :=
  match v with
  | RStr s => VS s
  | RNameID f x => VL [VS (s2l "NameID"); show_ostr f; show_ostr x]
  | ROther x => VL [VS (s2l "Audience"); VNone; show_ostr x]
  end.
(* dict order is not an observable: sort by key *)
Fixpoint str_leb (a b : str) : bool :=
  match a, b with
  | [], _ => true
  | _ :: _, [] => false
  | x :: a', y :: b' => if (x <? y)%N then true else if (y <? x)%N then false else str_leb a' b'
  end.
Fixpoint insert_kv {V} (kv : str * V) (l : list (str * V)) : list (str * V) :=
  match l with
  | [] => [kv]
  | h :: r => if str_leb (fst kv) (fst h) then kv :: l else h :: insert_kv kv r
  end.
Definition sort_kv {V} (l : list (str * V)) : list (str * V) := fold_right insert_kv [] l.
Definition show_ava (d : ava) : val :=
  VL (map (fun kv => VL [VS (fst kv); VL (map show_rval (snd kv))]) (sort_kv d)).
Definition show_attribute (a : attribute) : val :=
  VL [VS (at_name a); show_ostr (at_format a); show_ostr (at_friendly a);
      VL (map (fun v => match v with AText s => VS s | ANameID f s => VL [VS f; VS s] | AOther s => VL [VS (s2l "Audience"); VS s; VNone] end) (at_values a))].
Definition show_attributes (o : option (list attribute)) : val := show_option (fun l => VL (map show_attribute l)) o.
Definition show_nameid (n : nameid) : val := VL [VS (n_text n); show_ostr (n_format n); show_ostr (n_spq n); show_ostr (n_nq n)].
Definition show_view (v : app_view) : val :=
  VL [show_option show_nameid (v_name_id v); show_ava (v_ava v); show_ostr (v_irt v); VS (v_issuer v);
      VL (map (fun x => VL [VS (fst (fst x)); VL (map VS (snd (fst x))); VZ (snd x)]) (v_authn v));
      VZ (v_nooa v); show_ostr (v_came_from v)].
Definition show_roundtrip (r : result app_view) : val :=
  match r with Ok v => show_view v | Err _ => VE (s2l "rejected") end.
Definition show_wire (w : wire) : val := VL [VB (w_rsig w); VB (w_asig w); VB (match w_enc w with Some _ => true | None => false end)].

Fixpoint show_xml (t : xml) : val :=
  match t with
  | Node tag attrs text kids =>
      VL [VS tag; VL (map (fun kv => VL [VS (fst kv); VS (snd kv)]) attrs); VS text; VL (map show_xml kids)]
  end.
Definition show_parse_xml (o : option xml) : val := show_option show_xml o.
(* canonical form for comparison with a namespace-aware reader: attributes sorted, namespace declarations and xsi: attributes dropped *)
(* namespace declarations and xsi: typing attributes (xsi:type / xsi:nil) are not asserted values *)
Definition is_xmlns (k : str) : bool :=
  match strip_prefix (s2l "xmlns") k with Some _ => true | None =>
  match strip_prefix (s2l "xsi:") k with Some _ => true | None => false end end.
Fixpoint show_xml_canon (t : xml) : val :=
  match t with
  | Node tag attrs text kids =>
      VL [VS tag; VL (map (fun kv => VL [VS (fst kv); VS (snd kv)]) (sort_kv (filter (fun kv => negb (is_xmlns (fst kv))) attrs)));
          VS text; VL (map show_xml_canon kids)]
  end.
Definition show_payload_xml (p : payload) : val := VL (map show_xml_canon (payload_xml p)).

Definition show_opt_str (o : option str) : val := show_option VS o.
(* a whole (one-element) document around the raw text: illegal characters make it unreadable *)
Definition unescape_text_doc (s : str) : option str := if forallb xml_char s then unescape_text s else None.
Definition unescape_attr_doc (s : str) : option str := if forallb xml_char s then unescape_attr s else None.
