(* Model/Client.v — the long-lived service-provider client around the response pipeline:

   (1) where the three signature options come from:
       Config.setattr / Config.getattr / Config.load_special / Config.load (config.py),
       for EVERY configuration class (SPConfig: def_context = sp, the generic Config:
       def_context = empty string, IdPConfig: idp), and the option resolution of
       client_base.Base.__init__ (explicit value, else the default; the string true);
   (2) the client as a state-passing machine: operations are
       SetOpts  (the application assigns client.want_* — also: another client with
                 other options working on the SAME SecurityContext), and
       Parse    (Saml2Client.parse_authn_request_response on one message);
       the state is what the objects keep between calls (the resolved options,
       the Population cache of accepted subjects, the identifiers and signature
       values the SecurityContext has been shown so far).
   Definitions only.  Model/Response.v is the per-message pipeline. *)
From PV Require Import Lib.Base Model.Status Model.Response.
Open Scope Z_scope.

(* ---------------------------------------------------------------- configuration *)
(* a value in the configuration dictionary *)
Inductive cv := CNone | CBool (b : bool) | CStr (s : str).

(* the attribute a (context, option) pair is stored under: plain name when the context is
   the empty string, else _<context>_<name>  (Config.setattr / Config.getattr) *)
Definition attr_key (context name : str) : str :=
  match context with
  | [] => name
  | _ => List.app (E "_") (List.app context (List.app (E "_") name))
  end.

Definition store := list (str * cv).          (* newest first; a missing attribute reads as None *)
Definition setattr (st : store) (context name : str) (v : cv) : store := (attr_key context name, v) :: st.
Fixpoint read (st : store) (k : str) : cv :=
  match st with
  | [] => CNone
  | (k', v) :: rest => if str_eqb k k' then v else read rest k
  end.
(* Config.getattr(attr, context=None): context None means self.context (= def_context after load) *)
Definition getattr (def_context : str) (st : store) (name : str) (context : option str) : cv :=
  read st (attr_key (match context with None => def_context | Some c => c end) name).

(* load_special: the strings true / false become booleans *)
Definition norm (v : cv) : cv :=
  match v with
  | CStr s => if str_eqb s (E "true") then CBool true else if str_eqb s (E "false") then CBool false else v
  | _ => v
  end.
Definition section := list (str * cv).        (* one service section of the dictionary, in dict order *)
Fixpoint load_special (st : store) (typ : str) (cnf : section) : store :=
  match cnf with
  | [] => st
  | (arg, v) :: rest => load_special (setattr st typ arg (norm v)) typ rest
  end.
(* Config.load: for typ in [aa; idp; sp; pdp; aq]: the section when the dictionary has it *)
Definition ROLES : list str := [E "aa"; E "idp"; E "sp"; E "pdp"; E "aq"].
Fixpoint find_section (typ : str) (service : list (str * section)) : option section :=
  match service with
  | [] => None
  | (t, s) :: rest => if str_eqb typ t then Some s else find_section typ rest
  end.
Definition load (service : list (str * section)) : store :=
  fold_left (fun st typ => match find_section typ service with Some s => load_special st typ s | None => st end) ROLES [].

(* Base.__init__: val = config.getattr(attr, sp); None -> default; the string true -> True; later uses test truth *)
Definition truthy (v : cv) : bool :=
  match v with CNone => false | CBool b => b | CStr [] => false | CStr _ => true end.
Definition resolve (def_context : str) (st : store) (name : str) (default : bool) : bool :=
  match getattr def_context st name (Some (E "sp")) with
  | CNone => default
  | v => truthy v
  end.

Record opts := { o_wrs : bool; o_was : bool; o_waors : bool }.
Definition WRS := E "want_response_signed".
Definition WAS := E "want_assertions_signed".
Definition WAORS := E "want_assertions_or_response_signed".
Definition client_opts (def_context : str) (service : list (str * section)) : opts :=
  let st := load service in
  {| o_wrs := resolve def_context st WRS true;
     o_was := resolve def_context st WAS false;
     o_waors := resolve def_context st WAORS false |}.

(* ---------------------------------------------------------------- the client over time *)
Definition with_opts (o : opts) (c : cfg) : cfg :=
  {| entity_id := entity_id c; return_addrs := return_addrs c;
     wrs := o_wrs o; was := o_was o; waors := o_waors o;
     allow_unsolicited := allow_unsolicited c; dest_regex_set := dest_regex_set c; dest_regex_match := dest_regex_match c;
     slack := slack c; now := now c; asynch := asynch c; outstanding := outstanding c; conv_info := conv_info c;
     test_mode := test_mode c |}.

(* what is on the wire beside the parsed content: the identifiers and signature values *)
Record wire := { w_rid : str; w_sigvals : list N }.

Record client := {
  cl_opts : opts;
  cl_users : list str;                 (* Population: subjects whose information was stored *)
  cl_seen : list wire                  (* everything this client / SecurityContext was shown so far *)
}.
Definition new_client (def_context : str) (service : list (str * section)) : client :=
  {| cl_opts := client_opts def_context service; cl_users := []; cl_seen := [] |}.

Inductive op :=
| SetOpts (o : opts)
| Parse (w : wire) (c : cfg) (r : response).    (* c: the call context; its three option fields are NOT read *)

Definition parse_on (cl : client) (c : cfg) (r : response) : result outcome :=
  parse_response (with_opts (cl_opts cl) c) r.

Definition apply_op (cl : client) (o : op) : client * option (result outcome) :=
  match o with
  | SetOpts o' => ({| cl_opts := o'; cl_users := cl_users cl; cl_seen := cl_seen cl |}, None)
  | Parse w c r =>
      let res := parse_on cl c r in
      let users := match res, r_encrypted r with
                   | Ok out, [] => match o_name_id out with Some n => n :: cl_users cl | None => cl_users cl end
                   | _, _ => cl_users cl
                   end in
      ({| cl_opts := cl_opts cl; cl_users := users; cl_seen := w :: cl_seen cl |}, Some res)
  end.

(* the verdicts of the Parse operations, in order *)
Fixpoint run_ops (cl : client) (ops : list op) : list (result outcome) :=
  match ops with
  | [] => []
  | o :: rest => let (cl', v) := apply_op cl o in
                 match v with Some res => res :: run_ops cl' rest | None => run_ops cl' rest end
  end.
Fixpoint state_after (cl : client) (ops : list op) : client :=
  match ops with
  | [] => cl
  | o :: rest => state_after (fst (apply_op cl o)) rest
  end.

(* the options in force after a prefix of operations: the last SetOpts, else the initial ones *)
Fixpoint opts_after (o0 : opts) (ops : list op) : opts :=
  match ops with
  | [] => o0
  | SetOpts o' :: rest => opts_after o' rest
  | Parse _ _ _ :: rest => opts_after o0 rest
  end.
Fixpoint parses (ops : list op) : nat :=
  match ops with
  | [] => O
  | SetOpts _ :: rest => parses rest
  | Parse _ _ _ :: rest => S (parses rest)
  end.

(* ---- observable for the correspondence check: configuration class + dictionary + history -> verdicts *)
Definition show_history (x : (str * list (str * section)) * list op) : val :=
  VL (map show_accept (run_ops (new_client (fst (fst x)) (snd (fst x))) (snd x))).

(* ---- compact form for the correspondence check: several (chunks of) sessions over one pool of messages;
   a step names a message by its position in the pool.  Nothing but a decoder in front of show_history. *)
Inductive step := SSet (o : opts) | SParse (i : nat).
Definition ops_of (c : cfg) (pool : list (wire * response)) (steps : list step) : list op :=
  flat_map (fun s => match s with
                     | SSet o => [SetOpts o]
                     | SParse i => match nth_error pool i with Some (w, r) => [Parse w c r] | None => [] end
                     end) steps.
Definition show_sessions (x : (cfg * list (wire * response)) * list ((str * list (str * section)) * list step)) : val :=
  VL (map (fun s => show_history (fst s, ops_of (fst (fst x)) (snd (fst x)) (snd s))) (snd x)).
