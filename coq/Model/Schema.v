(* Model/Schema.v — the generic SamlBase parse / serialise engine over table rows
   (saml2_tophat/__init__.py: create_class_from_element_tree, harvest_element_tree,
   _convert_element_tree_to_member, _convert_element_attribute_to_member,
   _add_members_to_element_tree, _to_element_tree, become_child_element_of,
   ExtensionElement capture) and saml.AttributeValueBase's overrides.
   Rows come from Gen/SchemaTables.v (regenerated on every run).  Definitions
   and show_* observables only. *)
From PV Require Import Lib.Base.
Open Scope N_scope.

(* ---------------------------------------------------------------- tables *)
Record child_row := CR { c_tagkey : N; c_member : N; c_cls : option N; c_islist : bool }.
Inductive atype := TN (s : str) | TC (cls : N) | TNone.
Record attr_row := AR { a_xml : N; a_member : N; a_type : atype; a_req : bool }.
Record vtype := VT { v_base : str; v_enum : option (list str); v_member : option str; v_maxlen : option Z }.
Record class_row := KR {
  k_id : N;                                   (* class id = index in the schema *)
  k_qtag : N;                                 (* {c_namespace}c_tag, interned *)
  k_children : list child_row;                (* c_children, dict order *)
  k_attrs : list attr_row;                    (* c_attributes, dict order *)
  k_order : list N;                           (* c_child_order *)
  k_card : list (N * (option Z * option Z));  (* c_cardinality: member -> (min, max) *)
  k_vtype : option vtype;                     (* c_value_type *)
  k_missing : list N;                         (* declared members that do NOT exist after __init__() *)
  k_defaults : list (N * str);                (* attribute members __init__ presets to a non-None value *)
  k_over : list str;                          (* overridden parse/serialise methods, Owner.method *)
  k_verify : str;                             (* owner of an overriding verify(), or empty *)
  k_init_ok : bool }.                         (* cls() without arguments works *)
Definition schema := list class_row.

Definition find_row (S : schema) (c : N) : option class_row := find (fun r => k_id r =? c) S.

(* ------------------------------------------------------------ trees, objects *)
Inductive xtree := X (tag : N) (attrs : list (N * str)) (text : option str) (kids : list xtree).
Definition xtag (x : xtree) : N := match x with X t _ _ _ => t end.

(* a Python element object.  attrs: attribute members that are not None;
   kids: (member, child) in member-list order - a list member holds all its
   entries, a single-valued member at most one; INone is Python's None where an
   element object was expected (create_class_from_element_tree on a foreign tag) *)
Inductive inst :=
| INone
| I (cls : N) (attrs : list (N * str)) (text : option str) (kids : list (N * inst))
    (xattrs : list (N * str)) (xelems : list xtree).

(* ---------------------------------------------------------------- helpers *)
Definition memN (x : N) (l : list N) : bool := existsb (N.eqb x) l.
Fixpoint nodupN (l : list N) : bool :=
  match l with [] => true | x :: l' => negb (memN x l') && nodupN l' end.
Fixpoint alookup {A} (k : N) (l : list (N * A)) : option A :=
  match l with [] => None | (k', v) :: l' => if k' =? k then Some v else alookup k l' end.
Fixpoint aset {A} (k : N) (v : A) (l : list (N * A)) : list (N * A) :=
  match l with
  | [] => [(k, v)]
  | (k', v') :: l' => if k' =? k then (k, v) :: l' else (k', v') :: aset k v l'
  end.
Definition adel {A} (k : N) (l : list (N * A)) : list (N * A) := filter (fun p => negb (fst p =? k)) l.
Definition dict_of {A} (l : list (N * A)) : list (N * A) := fold_left (fun d kv => aset (fst kv) (snd kv) d) l [].
Definition kids_of {A} (m : N) (l : list (N * A)) : list A := map snd (filter (fun p => fst p =? m) l).
Fixpoint sequence {A} (l : list (result A)) : result (list A) :=
  match l with
  | [] => Ok []
  | r :: l' => match r with Err e => Err e | Ok a => match sequence l' with Err e => Err e | Ok b => Ok (a :: b) end end
  end.
Definition is_some {A} (o : option A) : bool := match o with Some _ => true | None => false end.
Fixpoint last_opt {A} (l : list A) : option A :=
  match l with [] => None | [x] => Some x | _ :: l' => last_opt l' end.

Definition ATTRIBUTE_ERROR : str := s2l "AttributeError".
Definition VALUE_ERROR : str := s2l "ValueError".
Definition TYPE_ERROR : str := s2l "TypeError".
(* the model refuses to answer (never a Python exception name): reached only on
   tables the model does not cover; wf_row excludes every such row *)
Definition MODEL_DOMAIN : str := s2l "model-domain".

Definition child_members (r : class_row) : list N := map c_member (k_children r).
Definition attr_members (r : class_row) : list N := map a_member (k_attrs r).
Definition declared_members (r : class_row) : list N := child_members r ++ attr_members r.
(* SamlBase._get_all_c_children_with_order *)
Definition order_of (r : class_row) : list N :=
  match k_order r with [] => child_members r | o => o end.

Inductive okind := OGeneric | OAttrValue | OUnknown.
Definition AV_OVER : list str :=
  [s2l "saml.AttributeValueBase.harvest_element_tree"; s2l "saml.AttributeValueBase.set_text";
   s2l "saml.AttributeValueBase.__setattr__"].
Fixpoint strs_eqb (a b : list str) : bool :=
  match a, b with
  | [], [] => true
  | x :: a', y :: b' => str_eqb x y && strs_eqb a' b'
  | _, _ => false
  end.
Definition over_kind (r : class_row) : okind :=
  match k_over r with
  | [] => OGeneric
  | o => if strs_eqb o AV_OVER then OAttrValue else OUnknown
  end.

(* ------------------------------------------------------------- serialise *)
(* getattr(self, m) does not raise *)
Definition has_member {A} (r : class_row) (attrs : list (N * str)) (kids : list (N * A)) (m : N) : bool :=
  negb (memN m (k_missing r)) || memN m (map fst attrs) || memN m (map fst kids).

Definition ser_member (r : class_row) (attrs : list (N * str)) (skids : list (N * result xtree)) (m : N)
  : result (list xtree) :=
  if negb (has_member r attrs skids m) then Err ATTRIBUTE_ERROR
  else match alookup m attrs with
       | Some _ => Err ATTRIBUTE_ERROR          (* a str has no become_child_element_of *)
       | None => sequence (kids_of m skids)
       end.

Definition known_attrs (r : class_row) (attrs : list (N * str)) : list (N * str) :=
  flat_map (fun a => match alookup (a_member a) attrs with Some v => [(a_xml a, v)] | None => [] end) (k_attrs r).

Definition ser_node (r : class_row) (attrs : list (N * str)) (text : option str)
           (skids : list (N * result xtree)) (xattrs : list (N * str)) (xelems : list xtree) : result xtree :=
  if negb (nodupN (declared_members r)) then Err MODEL_DOMAIN else
  match sequence (map (ser_member r attrs skids) (order_of r)) with
  | Err e => Err e
  | Ok ks =>
      if existsb (fun a => negb (has_member r attrs skids (a_member a))) (k_attrs r) then Err ATTRIBUTE_ERROR
      else Ok (X (k_qtag r) (dict_of (known_attrs r attrs ++ xattrs)) text (List.concat ks ++ xelems))
  end.

Fixpoint serialise (S : schema) (i : inst) : result xtree :=
  match i with
  | INone => Err ATTRIBUTE_ERROR
  | I c attrs text kids xattrs xelems =>
      match find_row S c with
      | None => Err MODEL_DOMAIN
      | Some r => ser_node r attrs text (map (fun p => let '(m, k) := p in (m, serialise S k)) kids) xattrs xelems
      end
  end.

(* ----------------------------------------------------------------- parse *)
(* AttributeValueBase.set_text: text -> python value of the xsd type -> text *)
Definition lower_ascii (s : str) : str := map (fun c => if (65 <=? c) && (c <=? 90) then c + 32 else c) s.
Definition is_digit (c : N) : bool := (48 <=? c) && (c <=? 57).
Fixpoint strip_zeros (s : str) : str :=
  match s with 48 :: s' => strip_zeros s' | _ => s end.
(* int(text) then str(): only the plain grammar [+-]?[0-9]+ is modelled, anything
   else counts as a ValueError (python also accepts blanks, underscores and
   non-ASCII digits: the generators stay away from those) *)
Definition conv_int (s : str) : option str :=
  let '(neg, ds) := match s with 45 :: d => (true, d) | 43 :: d => (false, d) | d => (false, d) end in
  match ds with
  | [] => None
  | _ => if forallb is_digit ds then
           match strip_zeros ds with
           | [] => Some [48]
           | n => Some (if neg then 45 :: n else n)
           end
         else None
  end.
Inductive conv := CvOk (t : str) | CvValueError | CvUnmodelled.
Definition av_conv (ty t : str) : conv :=
  if mem_str ty [s2l "string"; s2l "base64Binary"; s2l "anyType"] then CvOk t
  else if mem_str ty [s2l "integer"; s2l "short"; s2l "int"; s2l "long"] then
    match conv_int t with Some t' => CvOk t' | None => CvValueError end
  else if str_eqb ty (s2l "boolean") then
    let l := lower_ascii t in
    if str_eqb l (s2l "true") || str_eqb l (s2l "false") then CvOk l else CvValueError
  else if mem_str ty [s2l "float"; s2l "double"] then CvUnmodelled
  else if str_eqb ty [] then CvOk []
  else CvValueError.
Definition av_known_type (ty : str) : bool :=
  mem_str ty [s2l "string"; s2l "integer"; s2l "short"; s2l "int"; s2l "long"; s2l "float"; s2l "double";
              s2l "boolean"; s2l "base64Binary"; s2l "anyType"; []].
Fixpoint split_colon (s : str) : option (str * str) :=      (* s.split(':', 1) when ':' in s *)
  match s with
  | [] => None
  | c :: s' => if c =? 58 then Some ([], s')
               else match split_colon s' with Some (a, b) => Some (c :: a, b) | None => None end
  end.
Definition starts_xs (s : str) : bool := match s with 120 :: 115 :: 58 :: _ => true | _ => false end.
Definition XS_NAMESPACE : str := s2l "http://www.w3.org/2001/XMLSchema".

Section Parse.
  (* interned names of xsi:nil, xsi:type, xmlns:xs (Gen/SchemaTables.v: x_xsi_nil ...) *)
  Variables (NIL TYPE XMLNS_XS : N).

  (* one child of the document, already handed to the recursive parser *)
  Definition pkid := (N * (N -> result inst) * xtree)%type.
  Definition pk_tag (p : pkid) : N := fst (fst p).
  Definition pk_parse (p : pkid) : N -> result inst := snd (fst p).
  Definition pk_tree (p : pkid) : xtree := snd p.

  Definition find_child (r : class_row) (t : N) : option child_row := find (fun ch => c_tagkey ch =? t) (k_children r).

  (* _convert_element_tree_to_member on one child: Some (tag key, object) or None = extension element *)
  Definition classify (r : class_row) (p : pkid) : result (option (N * inst)) :=
    match find_child r (pk_tag p) with
    | None => Ok None
    | Some ch =>
        if c_islist ch && memN (c_member ch) (k_missing r) then Err ATTRIBUTE_ERROR   (* getattr(self, member) *)
        else match c_cls ch with
             | None => Err ATTRIBUTE_ERROR                (* None.c_namespace *)
             | Some c' => match pk_parse p c' with Err e => Err e | Ok x => Ok (Some (c_tagkey ch, x)) end
             end
    end.

  Definition select (ch : child_row) (cl : list (option (N * inst))) : list (N * inst) :=
    let l := flat_map (fun o => match o with
                                | Some (t, x) => if t =? c_tagkey ch then [x] else []
                                | None => [] end) cl in
    if c_islist ch then map (fun x => (c_member ch, x)) l      (* append *)
    else match last_opt l with                                  (* setattr: the last one wins *)
         | Some (I c a t k xa xe) => [(c_member ch, I c a t k xa xe)]
         | _ => []
         end.

  Definition parse_attrs (r : class_row) (attrs : list (N * str)) : list (N * str) :=
    flat_map (fun a => match alookup (a_xml a) attrs with
                       | Some v => [(a_member a, v)]
                       | None => match alookup (a_member a) (k_defaults r) with
                                 | Some d => [(a_member a, d)]
                                 | None => [] end
                       end) (k_attrs r).
  Definition foreign_attrs (r : class_row) (attrs : list (N * str)) : list (N * str) :=
    filter (fun p => negb (memN (fst p) (map a_xml (k_attrs r)))) attrs.
  Definition foreign_kids (r : class_row) (pk : list pkid) : list xtree :=
    map pk_tree (filter (fun p => negb (memN (pk_tag p) (map c_tagkey (k_children r)))) pk).

  (* the text step of AttributeValueBase.harvest_element_tree / set_text / set_type *)
  Definition av_text (c : N) (attrs' : list (N * str)) (kids : list (N * inst)) (xa0 : list (N * str))
             (xelems : list xtree) (text : option str) : result inst :=
    match text with
    | Some (ch :: t0) =>
        let t := ch :: t0 in
        let ty := match alookup TYPE xa0 with Some (a :: b) => a :: b | _ => s2l "string" end in
        let '(ns, tn) := match split_colon ty with
                         | Some (a, b) => (a, b)
                         | None => ((if av_known_type ty then s2l "xs" else []), ty)
                         end in
        match av_conv tn t with
        | CvUnmodelled => Err MODEL_DOMAIN
        | CvValueError => Err VALUE_ERROR
        | CvOk t' =>
            let typ := match ns with [] => tn | _ => ns ++ 58 :: tn end in
            let xa1 := aset TYPE typ (adel NIL xa0) in
            let xa2 := if starts_xs typ then aset XMLNS_XS XS_NAMESPACE xa1 else xa1 in
            Ok (I c attrs' (Some t') kids xa2 xelems)
        end
    | _ => Ok (I c attrs' (Some []) kids xa0 xelems)
    end.

  Definition parse_node (S : schema) (c : N) (tag : N) (attrs : list (N * str)) (text : option str)
             (pk : list pkid) : result inst :=
    match find_row S c with
    | None => Err MODEL_DOMAIN
    | Some r =>
        if negb (tag =? k_qtag r) then Ok INone
        else if negb (k_init_ok r) then Err TYPE_ERROR
        else if negb (nodupN (declared_members r)) then Err MODEL_DOMAIN
        else
          match sequence (map (classify r) pk) with
          | Err e => Err e
          | Ok cl =>
              let kids := flat_map (fun ch => select ch cl) (k_children r) in
              let xelems := foreign_kids r pk in
              let attrs' := parse_attrs r attrs in
              let xattrs := foreign_attrs r attrs in
              match over_kind r with
              | OGeneric => Ok (I c attrs' text kids xattrs xelems)
              | OAttrValue =>
                  av_text c attrs' kids (fold_left (fun d kv => aset (fst kv) (snd kv) d) xattrs [(NIL, s2l "true")])
                          xelems text
              | OUnknown => Err MODEL_DOMAIN
              end
          end
    end.

  Fixpoint parse (S : schema) (c : N) (x : xtree) {struct x} : result inst :=
    match x with
    | X tag attrs text kids =>
        parse_node S c tag attrs text (map (fun k => (xtag k, fun c' => parse S c' k, k)) kids)
    end.
End Parse.

(* --------------------------------------------------------------- wf_schema *)
Definition optN_eqb (a b : option N) : bool :=
  match a, b with Some x, Some y => x =? y | None, None => true | _, _ => false end.

Definition child_ok (S : schema) (ch : child_row) : bool :=
  match c_cls ch with
  | None => false
  | Some c' => match find_row S c' with Some r' => k_qtag r' =? c_tagkey ch | None => false end
  end.
Definition subsetN (a b : list N) : bool := forallb (fun x => memN x b) a.

Definition wf_row (S : schema) (r : class_row) : bool :=
  forallb (child_ok S) (k_children r)                              (* tag key = the child class's qualified tag *)
  && nodupN (map c_tagkey (k_children r))
  && nodupN (declared_members r)                                   (* member names unique, attributes disjoint from children *)
  && nodupN (order_of r) && subsetN (order_of r) (child_members r) (* c_child_order is a permutation of the child members *)
  && subsetN (child_members r) (order_of r)
  && nodupN (map a_xml (k_attrs r))
  && match k_missing r with [] => true | _ => false end            (* every member exists after __init__ *)
  && k_init_ok r
  && match over_kind r with OUnknown => false | _ => true end      (* no other parse/serialise override *)
  && match over_kind r with OAttrValue => match k_children r, k_attrs r with [], [] => true | _, _ => false end | _ => true end.

Definition wf_schema (S : schema) : bool := forallb (wf_row S) S.

(* why a row is not wf: (member or 0, reason code) - for reports only; reason
   1 tag key differs from the child class's tag, 2 placeholder child class None,
   3 member missing after __init__, 4 duplicate member, 5 child order is not a
   permutation, 6 other *)
Definition row_defects (S : schema) (r : class_row) : list (N * N) :=
  flat_map (fun ch => match c_cls ch with
                      | None => [(c_member ch, 2)]
                      | Some _ => if child_ok S ch then [] else [(c_member ch, 1)] end) (k_children r)
  ++ map (fun m => (m, 3)) (k_missing r)
  ++ (if nodupN (declared_members r) then [] else [(0, 4)])
  ++ (if nodupN (order_of r) && subsetN (order_of r) (child_members r) && subsetN (child_members r) (order_of r) then [] else [(0, 5)])
  ++ (if nodupN (map c_tagkey (k_children r)) && nodupN (map a_xml (k_attrs r)) && k_init_ok r
         && match over_kind r with OUnknown => false | _ => true end
         && match over_kind r with OAttrValue => match k_children r, k_attrs r with [], [] => true | _, _ => false end | _ => true end
      then [] else [(0, 6)]).

Definition bad_rows (S : schema) : list N := map k_id (filter (fun r => negb (wf_row S r)) S).
Definition bad_members (S : schema) : list (N * (N * N)) :=
  flat_map (fun r => map (fun d => (k_id r, d)) (row_defects S r)) S.

(* ELEMENT_BY_TAG[tag] is a class with that local tag and ELEMENT_FROM_STRING[tag] builds the same class *)
Definition maps_ok (local_tag : list N) (maps : list (N * (option N * option N) * (bool * bool))) : bool :=
  forallb (fun m : N * (option N * option N) * (bool * bool) => let '(t, (by_tag, from_str), (inb, inf)) := m in
             (if inb then match by_tag with Some c => nth (N.to_nat c) local_tag 0 =? t | None => false end else true)
             && (if inf then is_some from_str else true)
             && (if inb && inf then optN_eqb by_tag from_str else true)) maps.

(* ------------------------------------------------------------------ wf_inst *)
Definition cls_of (i : inst) : option N := match i with INone => None | I c _ _ _ _ _ => Some c end.
Definition find_child_by_member (r : class_row) (m : N) : option child_row := find (fun ch => c_member ch =? m) (k_children r).

(* AttributeValue objects as the constructor / the parser leave them *)
Definition av_ok (NIL TYPE XMLNS_XS : N) (text : option str) (xattrs : list (N * str)) : bool :=
  match text with
  | Some [] => match xattrs with (n, _) :: _ => n =? NIL | [] => false end
  | Some t =>
      negb (memN NIL (map fst xattrs))
      && match alookup TYPE xattrs with
         | Some ty =>
             match split_colon ty with
             | Some (c0 :: ns', tn) =>
                 match av_conv tn t with CvOk t' => str_eqb t' t | _ => false end
                 && (if starts_xs ty then match alookup XMLNS_XS xattrs with Some v => str_eqb v XS_NAMESPACE | None => false end else true)
             | _ => false
             end
         | None => false
         end
  | None => false
  end.

Section WfInst.
  Variables (NIL TYPE XMLNS_XS : N).
  Fixpoint wf_inst (S : schema) (i : inst) : bool :=
    match i with
    | INone => false
    | I c attrs text kids xattrs xelems =>
        match find_row S c with
        | None => false
        | Some r =>
            wf_row S r
            && nodupN (map fst attrs) && subsetN (map fst attrs) (attr_members r)
            && forallb (fun d => is_some (alookup (fst d) attrs)) (k_defaults r)
            && forallb (fun p => let '(m, k) := p in
                          match find_child_by_member r m with
                          | Some ch => optN_eqb (c_cls ch) (cls_of k) && wf_inst S k
                          | None => false end) kids
            && forallb (fun ch => c_islist ch || (List.length (kids_of (c_member ch) kids) <=? 1)%nat) (k_children r)
            && nodupN (map fst xattrs)
            && forallb (fun p => negb (memN (fst p) (map a_xml (k_attrs r)))) xattrs
            && forallb (fun x => negb (memN (xtag x) (map c_tagkey (k_children r)))) xelems
            && match over_kind r with OAttrValue => av_ok NIL TYPE XMLNS_XS text xattrs | _ => true end
        end
    end.
End WfInst.

(* the conditions of wf_inst that are about the OBJECT only (no wf_row): the class is in
   the schema, attribute members are declared ones (each at most once, the ones __init__
   presets are set), every child sits under a declared child member and is an object of
   that member's class, a single-valued member holds at most one child, extension
   attributes / elements do not collide with the class's own names, AttributeValue objects
   are as constructor / parser leave them.  Over a schema with wf_schema S = true this is
   all the round-trip theorem asks of an instance (Schema_lemmas.obj_ok_wf_inst). *)
Section ObjOk.
  Variables (NIL TYPE XMLNS_XS : N).
  Fixpoint obj_ok (S : schema) (i : inst) : bool :=
    match i with
    | INone => false
    | I c attrs text kids xattrs xelems =>
        match find_row S c with
        | None => false
        | Some r =>
            nodupN (map fst attrs) && subsetN (map fst attrs) (attr_members r)
            && forallb (fun d => is_some (alookup (fst d) attrs)) (k_defaults r)
            && forallb (fun p => let '(m, k) := p in
                          match find_child_by_member r m with
                          | Some ch => optN_eqb (c_cls ch) (cls_of k) && obj_ok S k
                          | None => false end) kids
            && forallb (fun ch => c_islist ch || (List.length (kids_of (c_member ch) kids) <=? 1)%nat) (k_children r)
            && nodupN (map fst xattrs)
            && forallb (fun p => negb (memN (fst p) (map a_xml (k_attrs r)))) xattrs
            && forallb (fun x => negb (memN (xtag x) (map c_tagkey (k_children r)))) xelems
            && match over_kind r with OAttrValue => av_ok NIL TYPE XMLNS_XS text xattrs | _ => true end
        end
    end.
End ObjOk.

(* the object cls() without arguments: the attribute members __init__ presets, nothing
   else; an AttributeValue starts as empty text with xsi:nil=true *)
Definition fresh_inst (NIL : N) (r : class_row) : inst :=
  match over_kind r with
  | OAttrValue => I (k_id r) [] (Some []) [] [(NIL, s2l "true")] []
  | _ => I (k_id r) (k_defaults r) None [] [] []
  end.

(* the canonical representative parse produces: attributes in table order,
   children grouped by member in c_children order; nothing is dropped *)
Definition norm_attrs (r : class_row) (attrs : list (N * str)) : list (N * str) :=
  flat_map (fun a => match alookup (a_member a) attrs with Some v => [(a_member a, v)] | None => [] end) (k_attrs r).
Fixpoint norm (S : schema) (i : inst) : inst :=
  match i with
  | INone => INone
  | I c attrs text kids xattrs xelems =>
      match find_row S c with
      | None => i
      | Some r =>
          let nk := map (fun p => let '(m, k) := p in (m, norm S k)) kids in
          I c (norm_attrs r attrs) text
            (flat_map (fun ch => map (fun x => (c_member ch, x)) (kids_of (c_member ch) nk)) (k_children r))
            xattrs xelems
      end
  end.

(* ------------------------------------------------------------- observables *)
Definition show_pairs (l : list (N * str)) : val := VL (map (fun p => VL [VZ (Z.of_N (fst p)); VS (snd p)]) l).
Definition show_text (t : option str) : val := match t with Some s => VS s | None => VNone end.
Fixpoint show_xtree (x : xtree) : val :=
  match x with
  | X t a tx k => VL [VZ (Z.of_N t); show_pairs a; show_text tx; VL (map show_xtree k)]
  end.
(* an object is observed the way python observes it: getattr per table row *)
Fixpoint show_inst (S : schema) (i : inst) : val :=
  match i with
  | INone => VNone
  | I c attrs text kids xattrs xelems =>
      match find_row S c with
      | None => VE MODEL_DOMAIN
      | Some r =>
          let sk := map (fun p => let '(m, k) := p in (m, show_inst S k)) kids in
          VL [VZ (Z.of_N c);
              VL (map (fun a => match alookup (a_member a) attrs with Some v => VS v | None => VNone end) (k_attrs r));
              show_text text;
              VL (map (fun ch => VL (kids_of (c_member ch) sk)) (k_children r));
              show_pairs xattrs;
              VL (map show_xtree xelems)]
      end
  end.
