(* C02, encrypted advice: the SP run on a document TREE whose (plain or encrypted) assertion carries an
   <Advice> with EncryptedAssertion elements.  The run itself is Model.Encrypt.parse_response_t (property C17's
   model of AuthnResponse.parse_assertion: both decrypt loops, decrypt_assertions, the advice pass
   decrypt_assertions(advice.encrypted_assertion, decr_text, issuer) which verifies every signature it meets,
   and the retry skeleton of Entity._parse_response); nothing is modelled a second time.  Here: the fault-free
   instance C02 observes, and the vocabulary of C02's statement on trees.  Definitions only. *)
From PV Require Import Lib.Base Model.Status Model.Response Model.Encrypt.

(* the run without tool faults *)
Definition parse_advice_run (tc : tcfg) (c : cfg) (r : response) (root : list dtree) : result outcome :=
  parse_response_t tc c r root [].

Definition show_advice_run (tc : tcfg) (c : cfg) (r : response) (root : list dtree) : val :=
  match parse_advice_run tc c r root with
  | Err _ => VE (E "rejected")
  | Ok o => show_read o
  end.

(* the text after both decrypt loops of parse_assertion, as the code computes it from self.response ([root]),
   given the fault schedule [fs] of the tool *)
Definition decrypted (tc : tcfg) (root : list dtree) (fs : list bool) : option (list dtree) :=
  let text := reserialize root in
  match dec_loop (fuel_for text fs) find_encrypt_data (t_keys tc) (t_pol tc) fs text with
  | None => None
  | Some (t1, fs1) => match dec_loop (fuel_for t1 fs1) cond2 (t_keys tc) (t_pol tc) fs1 t1 with
                      | None => None
                      | Some (t2, _) => Some t2
                      end
  end.

(* the advice assertions decrypt_assertions(advice.encrypted_assertion, decr_text, issuer) is called on: the content
   of every EncryptedAssertion in the <Advice> of every assertion in hand (decrypted ones first, then the plain ones) *)
Definition advice_read (t2 : list dtree) : list asrt_view := flat_map advice_views (ea_asrts t2 ++ asrts t2).

(* a signature that is present and does not verify on the text in hand *)
Definition sig_bad (v : asrt_view) : bool := match sig_now v with Some (Err _) => true | _ => false end.

(* the document an attempt of Entity._parse_response works on: the first attempt (assertion signatures forced
   on) sees the response as received; the retry, made only when the first one failed and
   want_assertions_signed is off, sees what the first one left in self.response, with the remaining faults *)
Definition attempt_document (tc : tcfg) (c : cfg) (r : response) (root : list dtree) (fs : list bool)
           (root' : list dtree) (fs' : list bool) : Prop :=
  (root' = root /\ fs' = fs) \/
  (was c = false /\
   exists rq s0 e, loads c rq (env_of r root) = Ok s0 /\
     so_res (parse_t tc c (r_irt r) true s0 root false fs) = Err e /\
     root' = so_root (parse_t tc c (r_irt r) true s0 root false fs) /\
     fs' = so_faults (parse_t tc c (r_irt r) true s0 root false fs)).
