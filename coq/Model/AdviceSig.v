(* C02, encrypted advice: the SP run on a document TREE whose (plain or encrypted) assertion carries an
   <Advice> with EncryptedAssertion elements.  The run itself is Model.Encrypt.parse_response_t (property C17's
   model of AuthnResponse.parse_assertion: both decrypt loops, decrypt_assertions, the advice pass
   decrypt_assertions(advice.encrypted_assertion, decr_text, issuer) which verifies every signature it meets,
   and the retry skeleton of Entity._parse_response); nothing is modelled a second time.  Here: the fault-free
   instance C02 observes, and the vocabulary of C02's statement on trees.  Definitions only. *)
From PV Require Import Lib.Base Model.Status Model.Response Model.Encrypt.

(* the run without tool faults *)
Definition parse_advice_run (tc : tcfg) (c : cfg) (r : response) (root : list dtree) : result outcome :=
  parse_response_t tc c r root [].

Definition show_advice_run (tc : tcfg) (c : cfg) (r : response) (root : list dtree) : val :=
  match parse_advice_run tc c r root with
  | Err _ => VE (E "rejected")
  | Ok o => show_read o
  end.
