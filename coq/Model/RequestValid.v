(* Model/RequestValid.v - C10: the schema-validity input of Model/Request.v is no longer a bit classified by the
   harness.  A received request document comes WITH the instance tree <msgtype>_from_string makes of it (Model/Schema.v
   inst: class, attribute members with their values - an attribute written X="" is the member with the EMPTY value,
   text, children, extension attributes / elements), and d_valid is COMPUTED from it by the C13 model of
   validate.valid_instance (Model/Validate.v) over the schema tables regenerated from the working tree
   (Gen/SchemaTables.v).  So `a required attribute is present but empty`, at the root or at any depth, is inside the
   model: attr_check raises MustValueError on `a_req a && negb (truthy value)`. *)
From PV Require Import Lib.Base Model.Sigver Model.CertSelect Model.Xmlsec Model.Schema Model.Validate Model.Request
  Gen.SchemaTables.
Open Scope N_scope.

(* validate.valid_instance(message) over the tables of the working tree; prim = the primitive lexical validators *)
Definition vi (prim : str -> str -> bool) (i : inst) : result unit :=
  valid_instance prim validator_keys actual_schema x_xsi_nil m_subject m_attribute_statement m_statement m_authn_statement
    m_authz_decision_statement m_one_time_use m_proxy_restriction m_authn_context_decl m_authn_context_decl_ref
    m_address m_dns_name i.
Definition vi_ok (prim : str -> str -> bool) (i : inst) : bool := match vi prim i with Ok _ => true | Err _ => false end.

(* the document whose validity is what valid_instance says of its instance tree *)
Definition judged (prim : str -> str -> bool) (i : inst) (d : reqdoc) : reqdoc :=
  Build_reqdoc (d_tree d) (d_version d) (d_destination d) (d_issue_instant d) (vi_ok prim i) (d_issuer d) (d_embedded d) (d_opts d).
Definition wire_judged (prim : str -> str -> bool) (i : inst) (w : wire) : wire :=
  match w with
  | WFail => WFail
  | WText NotXml => WText NotXml
  | WText (Xml d) => WText (Xml (judged prim i d))
  | WSoap (SoapPart d) => WSoap (SoapPart (judged prim i d))
  | WSoap s => WSoap s
  end.

(* Entity._parse_request on a text whose document parses to instance tree [i] *)
Definition parse_request_v (pre fixd : bool) (prim : str -> str -> bool) (c : rcfg) (k : kind) (b : binding) (w : wire) (i : inst)
  : result (option reqdoc) := parse_request pre fixd c k b (wire_judged prim i w).
Definition parse_request_v_now := parse_request_v PRECHECK_IN_FORCE F16_FIXED.

(* one long-lived receiver, messages with their instance trees *)
Definition opv := (kind * binding * wire * inst)%type.
Definition judge_op (prim : str -> str -> bool) (o : opv) : op :=
  match o with (k, b, w, i) => (k, b, wire_judged prim i w) end.
Definition run_history_v (pre fixd : bool) (prim : str -> str -> bool) (c : rcfg) (ops : list opv) : list (op * reqdoc) :=
  run_history pre fixd c (map (judge_op prim) ops) [].

(* vocabulary: node [j] holds a required attribute that is missing or EMPTY *)
Definition required_missing_or_empty (j : inst) : Prop :=
  match j with
  | INone => False
  | I c attrs _ _ _ _ =>
      exists r a, find_row actual_schema c = Some r /\ In a (k_attrs r) /\ a_req a = true /\
                  (alookup (a_member a) attrs = None \/ alookup (a_member a) attrs = Some [])
  end.
(* executable: the required attribute members of the class of [j] that are missing or empty *)
Definition empty_required_members (j : inst) : list N :=
  match j with
  | INone => []
  | I c attrs _ _ _ _ =>
      match find_row actual_schema c with
      | None => []
      | Some r => map a_member (filter (fun a => a_req a && negb (Validate.truthy (alookup (a_member a) attrs))) (k_attrs r))
      end
  end.

Definition show_v (r : result (option reqdoc)) : val := show_coarse r.
