(* Model/Response.v — the service provider's response pipeline:
   Entity._parse_response (entity.py 1087-1218), AuthnResponse.loads / _loads /
   _postamble / verify / _verify / parse_assertion / _assertion /
   authn_statement_ok / condition_ok / get_subject / _bearer_confirmed /
   verify_recipient / verify_attesting_entity / session_info (response.py),
   for_me, validate_on_or_after / validate_before (validate.py), later_than
   (time_util.py).

   Input is the PARSED message (what samlp.response_from_string + valid_instance
   deliver), with every signature's check outcome (the result of
   SecurityContext._check_signature for that element, see Model/Sigver.v and
   Model/Xmlsec.v) and every time attribute already converted to seconds.
   Responses carrying <Advice> are outside this model.  Definitions only. *)
From PV Require Import Lib.Base Model.Status.
Open Scope Z_scope.

Definition E (s : string) : str := s2l s.

(* ---- configuration of the SP and of this call ---- *)
Record conv := { ci_entity_id : option str; ci_remote_addr : option str }.
Record cfg := {
  entity_id : str;
  return_addrs : option (list str);       (* own ACS endpoints for the binding; None when there is none *)
  wrs : bool; was : bool; waors : bool;   (* want_response_signed / want_assertions_signed / want_assertions_or_response_signed *)
  allow_unsolicited : bool;
  dest_regex_set : bool; dest_regex_match : bool;   (* valid_destination_regex and re.search's verdict on Destination *)
  slack : Z; now : Z;
  asynch : bool;                          (* browser binding (POST/Redirect) = true; SOAP/PAOS = false *)
  outstanding : list (str * str);         (* request id -> came_from *)
  conv_info : option conv;
  test_mode : bool                        (* AuthnResponse.test : lax conditions *)
}.

(* ---- parsed message ---- *)
Record conf_data := {
  d_address : option str; d_address_valid : bool;     (* valid_address raises NotValid when false *)
  d_nooa : option Z; d_nb : option Z;
  d_irt : option str; d_recipient : option str
}.
Inductive method := Bearer | HolderOfKey (has_keyinfo : bool) | SenderVouches | OtherMethod.
Record confirmation := { c_method : method; c_data : option conf_data }.
Record conditions := {
  k_empty : bool;                         (* not conditions.keyswv() *)
  k_nb : option Z; k_nooa : option Z;
  k_audiences : list (list str);          (* one list of (stripped) Audience texts per AudienceRestriction *)
  k_unknown_condition : bool              (* an extra <Condition> whose xsi:type is missing / unknown *)
}.
Record assertion := {
  a_id : N;                               (* which assertion this is (identity payload) *)
  a_sig : option (result unit);           (* None: unsigned; Some r: signed, r = outcome of _check_signature on it *)
  a_authn : list (option Z);              (* AuthnStatements: SessionNotOnOrAfter of each *)
  a_conditions : option conditions;
  a_has_subject : bool;
  a_confirmations : list confirmation;
  a_name_id : option str
}.
Record enc_assertion := { e_opens : bool; e_inner : assertion }.   (* e_opens: some configured key decrypts it *)
Record response := {
  r_sig : option (result unit);
  r_valid_instance : bool;                (* valid_instance(response) passes *)
  r_irt : option str;                     (* InResponseTo *)
  r_version : option str; r_ver_lt2 : option bool;
  r_destination : option str;
  r_issue_instant : Z;                    (* IssueInstant in seconds (valid_instance guarantees it parses) *)
  r_status : option status_view;
  r_assertions : list assertion;
  r_encrypted : list enc_assertion
}.

(* ---- exception classes ---- *)
Definition SignatureError := E "SignatureError".
Definition is_sigver_error (e : str) : bool :=
  mem_str e [E "SigverError"; E "SignatureError"; E "XmlsecError"; E "MissingKey"; E "DecryptError"; E "EncryptError";
             E "BadSignature"; E "CertificateError"; E "CertificateTooOld"].
Definition is_signature_error (e : str) : bool := str_eqb e SignatureError.

Definition lookup_str (k : str) (l : list (str * str)) : option str :=
  (fix go l := match l with [] => None | (k', v) :: r => if str_eqb k k' then Some v else go r end) l.

(* ---- time checks (validate.py / time_util.py) ---- *)
Definition validate_on_or_after (c : cfg) (t : option Z) : result (option Z) :=
  match t with
  | None => Ok None                                            (* returns False *)
  | Some nooa => if now c >? nooa + slack c then Err (E "ResponseLifetimeExceed") else Ok (Some nooa)
  end.
Definition validate_before (c : cfg) (t : option Z) : result unit :=
  match t with
  | None => Ok tt
  | Some nb => if nb >? now c + slack c then Err (E "ToEarly") else Ok tt
  end.
(* later_than(after, before): before None -> True; after None -> False; after >= before *)
Definition later_than (after before : option Z) : bool :=
  match before, after with
  | None, _ => true
  | Some _, None => false
  | Some b, Some a => a >=? b
  end.

(* ---- audience (for_me) ----
   every AudienceRestriction has to list me; a restriction without audiences imposes nothing *)
Definition for_me (k : conditions) (me : str) : bool :=
  forallb (fun auds => match auds with [] => true | _ => mem_str me auds end) (k_audiences k).

(* before the two repairs (fix: commits in /repo; see known_findings.json "fixed"):
   any one restriction sufficed, and the test was skipped under allow_unsolicited *)
Definition for_me_before_fix (k : conditions) (me : str) : bool :=
  match k_audiences k with
  | [] => true
  | rs => existsb (fun auds => mem_str me auds) rs
  end.

(* mutable part of AuthnResponse that the checks read and write *)
Record st := { came_from : option str; not_on_or_after : Z; session_nooa : Z;
               nid : option str;            (* self.name_id *)
               acc : list N }.              (* self.assertions (ids), appended as decrypted assertions pass *)
Definition set_cf (s : st) (v : option str) : st :=
  {| came_from := v; not_on_or_after := not_on_or_after s; session_nooa := session_nooa s; nid := nid s; acc := acc s |}.
Definition set_nooa (s : st) (v : Z) : st :=
  {| came_from := came_from s; not_on_or_after := v; session_nooa := session_nooa s; nid := nid s; acc := acc s |}.
Definition set_snooa (s : st) (v : Z) : st :=
  {| came_from := came_from s; not_on_or_after := not_on_or_after s; session_nooa := v; nid := nid s; acc := acc s |}.
Definition set_nid (s : st) (v : option str) : st :=
  {| came_from := came_from s; not_on_or_after := not_on_or_after s; session_nooa := session_nooa s; nid := v; acc := acc s |}.
Definition push_acc (s : st) (a : N) : st :=
  {| came_from := came_from s; not_on_or_after := not_on_or_after s; session_nooa := session_nooa s; nid := nid s; acc := acc s ++ [a] |}.

(* condition_ok : Ok true / Ok false (=> VerificationError) / Err *)
Definition condition_ok (c : cfg) (s : st) (a : assertion) : result (bool * st) :=
  match a_conditions a with
  | None => Ok (true, s)
  | Some k =>
      if k_empty k then Ok (true, s) else
      let lax := test_mode c in
      if (match k_nb k, k_nooa k with Some _, Some _ => negb (later_than (k_nooa k) (k_nb k)) | _, _ => false end)
      then Ok (false, s) else
      let timed : result st :=
        match validate_on_or_after c (k_nooa k) with
        | Err e => Err e
        | Ok r =>
            let s1 := match k_nooa k with
                      | Some _ => set_nooa s (match r with Some n => n | None => 0 end)
                      | None => s end in
            match validate_before c (k_nb k) with Err e => Err e | Ok _ => Ok s1 end
        end in
      let after_time : result st :=
        match timed with
        | Ok s1 => Ok s1
        | Err e => if lax then Ok (set_nooa s 0) else Err e
        end in
      match after_time with
      | Err e => Err e
      | Ok s1 =>
          if negb (for_me k (entity_id c)) && negb lax then Err (E "Exception")
          else if k_unknown_condition k then Err (E "Exception")
          else Ok (true, s1)
      end
  end.

(* authn_statement_ok (context AuthnReq) *)
Definition authn_statement_ok (c : cfg) (s : st) (a : assertion) : result st :=
  match a_authn a with
  | [sn] =>
      match sn with
      | None => Ok s
      | Some _ =>
          match validate_on_or_after c sn with
          | Err e => Err e
          | Ok (Some n) => Ok (set_snooa s n)
          | Ok None => Ok s            (* "return False" is ignored by the caller *)
          end
      end
  | _ => Err (E "AssertionError")
  end.

(* _bearer_confirmed : Ok true / Ok false (skip this confirmation) / Err *)
Definition names_other_request (c : cfg) (irt : option str) (d : conf_data) : bool :=
  asynch c && negb (allow_unsolicited c) &&
  match d_irt d, irt with Some x, Some y => negb (str_eqb x y) | _, _ => false end.

(* [irt] = self.in_response_to (the response's InResponseTo) *)
Definition bearer_confirmed (c : cfg) (irt : option str) (s : st) (d : option conf_data) : result (bool * st) :=
  match d with
  | None => Ok (false, s)
  | Some d =>
      if (match d_address d with Some _ => negb (d_address_valid d) | None => false end) then Err (E "NotValid") else
      match validate_on_or_after c (d_nooa d) with
      | Err e => Err e
      | Ok _ =>
          match validate_before c (d_nb d) with
          | Err e => Err e
          | Ok _ =>
              if negb (later_than (d_nooa d) (d_nb d)) then Ok (false, s) else
              if names_other_request c irt d then Err (E "UnsolicitedResponse") else
              if asynch c && (match came_from s with None => true | Some _ => false end) then
                match d_irt d with
                | None => Ok (true, s)
                | Some i =>
                    match lookup_str i (outstanding c) with
                    | Some cf => Ok (true, set_cf s (Some cf))
                    | None => if allow_unsolicited c then Ok (true, s) else Err (E "Exception")
                    end
                end
              else Ok (true, s)
          end
      end
  end.

Definition verify_recipient (c : cfg) (recipient : str) : result bool :=
  match conv_info c with
  | None => Ok true
  | Some ci =>
      if (match ci_entity_id ci with Some e => str_eqb recipient e | None => false end) then Ok true
      else match return_addrs c with
           | None => Err (E "TypeError")
           | Some addrs => Ok (mem_str recipient addrs)
           end
  end.

Definition verify_attesting_entity (c : cfg) (confs : list confirmation) : bool :=
  let address := match conv_info c with Some ci => match ci_remote_addr ci with Some a => a | None => E "0.0.0.0" end
                                      | None => E "0.0.0.0" end in
  existsb (fun sc => match c_data sc with
                     | None => true
                     | Some d => match d_address d with
                                 | None => true
                                 | Some a => str_eqb address (E "0.0.0.0") || str_eqb a address
                                 end
                     end) confs.

(* the loop of get_subject: returns the retained confirmations *)
Fixpoint subject_loop (c : cfg) (irt : option str) (s : st) (confs : list confirmation) : result (list confirmation * st) :=
  match confs with
  | [] => Ok ([], s)
  | sc :: rest =>
      let continue_ (keep : bool) (s' : st) : result (list confirmation * st) :=
        if keep then
          match (match c_data sc with Some d => d_recipient d | None => None end) with
          | None => (match c_data sc with
                     | None => Err (E "AttributeError")            (* _data.recipient on None *)
                     | Some _ => Err (E "VerificationError") end)
          | Some r =>
              match verify_recipient c r with
              | Err e => Err e
              | Ok false => Err (E "VerificationError")
              | Ok true =>
                  match subject_loop c irt s' rest with
                  | Err e => Err e
                  | Ok (kept, s'') => Ok (sc :: kept, s'')
                  end
              end
          end
        else subject_loop c irt s' rest in
      match c_method sc with
      | Bearer =>
          match bearer_confirmed c irt s (c_data sc) with
          | Err e => Err e
          | Ok (b, s') => continue_ b s'
          end
      | HolderOfKey has => continue_ (match c_data sc with Some _ => has | None => false end) s
      | SenderVouches => continue_ true s
      | OtherMethod => Err (E "ValueError")
      end
  end.

Definition get_subject (c : cfg) (irt : option str) (s : st) (a : assertion) : result (list confirmation * st) :=
  if negb (a_has_subject a) then Err (E "AssertionError") else
  if negb (verify_attesting_entity c (a_confirmations a)) then Err (E "VerificationError") else
  match subject_loop c irt s (a_confirmations a) with
  | Err e => Err e
  | Ok ([], _) => Err (E "VerificationError")
  | Ok r => Ok r
  end.

(* AuthnResponse._assertion(assertion, verified) with self.require_signature = [req] *)
Definition check_assertion (c : cfg) (irt : option str) (req verified : bool) (s : st) (a : assertion) : result st :=
  match (match a_sig a with
         | None => if req then Err SignatureError else Ok tt
         | Some r => if verified then Ok tt else r
         end) with
  | Err e => Err e
  | Ok _ =>
      match authn_statement_ok c s a with
      | Err e => Err e
      | Ok s1 =>
          match condition_ok c s1 a with
          | Err e => Err e
          | Ok (false, _) => Err (E "VerificationError")
          | Ok (true, s2) =>
              match get_subject c irt s2 a with
              | Err e => Err e
              | Ok (_, s3) =>
                  if asynch c && negb (allow_unsolicited c) && (match came_from s3 with None => true | Some _ => false end)
                  then Err (E "VerificationError")
                  else Ok (match a_name_id a with Some n => set_nid s3 (Some n) | None => s3 end)
              end
          end
      end
  end.

(* [push]: decrypted assertions are appended to self.assertions one by one as they pass *)
Fixpoint check_assertions (c : cfg) (irt : option str) (req verified push : bool) (s : st) (l : list assertion) : result st :=
  match l with
  | [] => Ok s
  | a :: rest => match check_assertion c irt req verified s a with
                 | Err e => Err e
                 | Ok s' => check_assertions c irt req verified push (if push then push_acc s' (a_id a) else s') rest
                 end
  end.
(* what a FAILED attempt leaves behind in self.assertions (state survives into the retry) *)
Fixpoint acc_after_failure (c : cfg) (irt : option str) (req verified : bool) (s : st) (l : list assertion) : st :=
  match l with
  | [] => s
  | a :: rest => match check_assertion c irt req verified s a with
                 | Err _ => s
                 | Ok s' => acc_after_failure c irt req verified (push_acc s' (a_id a)) rest
                 end
  end.

(* decryption: the tool opens EncryptedData nodes one at a time in document
   order; the first one no key opens stops the loop (text unchanged) *)
Fixpoint decrypted_prefix (l : list enc_assertion) : list assertion :=
  match l with
  | [] => []
  | e :: rest => if e_opens e then e_inner e :: decrypted_prefix rest else []
  end.

(* decrypt_assertions(…, verified=False): signatures of decrypted assertions are checked here *)
Fixpoint verify_decrypted (l : list assertion) : result unit :=
  match l with
  | [] => Ok tt
  | a :: rest => match a_sig a with
                 | Some (Err e) => Err e
                 | _ => verify_decrypted rest
                 end
  end.

Record outcome := {
  o_assertions : list N;          (* identities (a_id) of the assertions the application will read, in order *)
  o_name_id : option str;
  o_came_from : option str;
  o_nooa : Z;                     (* session_info()["not_on_or_after"] *)
  o_irt : option str
}.

(* parse_assertion with self.require_signature = req (no Advice) *)
Definition push_all (s : st) (l : list assertion) : st :=
  {| came_from := came_from s; not_on_or_after := not_on_or_after s; session_nooa := session_nooa s; nid := nid s;
     acc := acc s ++ map a_id l |}.

Definition parse_assertion (c : cfg) (req : bool) (s : st) (r : response) : result st :=
  if negb ((List.length (r_assertions r) =? 1)%nat || (List.length (r_encrypted r) =? 1)%nat) then Err (E "Exception") else
  match check_assertions c (r_irt r) req false false s (r_assertions r) with
  | Err e => Err e
  | Ok s1 =>
      match r_encrypted r with
      | [] => Ok (push_all s1 (r_assertions r))
      | encs =>
          let dec := decrypted_prefix encs in
          match verify_decrypted dec with
          | Err e => Err e
          | Ok _ =>
              match check_assertions c (r_irt r) req true true s1 dec with
              | Err e => Err e
              | Ok s2 => Ok (push_all s2 (r_assertions r))
              end
          end
      end
  end.
(* state left behind when parse_assertion fails (only self.assertions matters) *)
Definition parse_assertion_residue (c : cfg) (req : bool) (s : st) (r : response) : st :=
  match check_assertions c (r_irt r) req false false s (r_assertions r) with
  | Err _ => s
  | Ok s1 => match verify_decrypted (decrypted_prefix (r_encrypted r)) with
             | Err _ => s
             | Ok _ => let s2 := acc_after_failure c (r_irt r) req true s1 (decrypted_prefix (r_encrypted r)) in
                       {| came_from := came_from s; not_on_or_after := not_on_or_after s; session_nooa := session_nooa s;
                          nid := nid s; acc := acc s2 |}
             end
  end.

(* issue_instant_ok: `lower < issued_at < upper` on time tuples; the lower bound comes from
   datetime.timetuple() (tm_isdst = -1), issued_at from time.gmtime (tm_isdst = 0), so equality
   with the lower bound compares as "less": the window is [now - 1 day - slack, now + 1 day + slack) *)
Definition issue_instant_ok (c : cfg) (t : Z) : bool :=
  (now c - 86400 - slack c <=? t) && (t <? now c + 86400 + slack c).

Definition verify_in_of (c : cfg) (r : response) : verify_in :=
  {| id_mismatch := false;                       (* AuthnResponse: request_id = 0 *)
     version := r_version r; ver_lt2 := r_ver_lt2 r;
     asynchop := asynch c;
     dest_ok := match r_destination r with
                | None => true
                | Some d => if dest_regex_set c then dest_regex_match c
                            else match return_addrs c with Some a => mem_str d a | None => true (* TypeError handled below *) end
                end;
     issue_ok := Ok (issue_instant_ok c (r_issue_instant r)); status := r_status r |}.

(* AuthnResponse.verify(keys) with require_signature = req *)
Definition verify (c : cfg) (req : bool) (s : st) (r : response) : result (option st) :=
  (* `destination not in None` raises TypeError inside _validate_destination *)
  if asynch c && version_is_20 (r_version r) &&
     (match r_destination r, dest_regex_set c, return_addrs c with Some _, false, None => true | _, _, _ => false end)
  then Err (E "TypeError") else
  authn_verify (verify_in_of c r) (match parse_assertion c req s r with Err e => Err e | Ok x => Ok (Some x) end).

(* signature stage of loads: correctly_signed_response(require_response_signature = req) *)
Definition response_sig_stage (req : bool) (r : response) : result unit :=
  match r_sig r with
  | Some res => res
  | None => if req then Err SignatureError else Ok tt
  end.

(* check_subject_confirmation_in_response_to: None = AttributeError raised (swallowed by loads) *)
Fixpoint confs_name_irt (irt : option str) (cs : list confirmation) : option bool :=
  match cs with
  | [] => Some true
  | sc :: cs' =>
      match c_data sc with
      | None => None
      | Some d => if (match d_irt d, irt with Some x, Some y => str_eqb x y | None, None => true | _, _ => false end)
                  then confs_name_irt irt cs' else Some false
      end
  end.
Fixpoint assertions_name_irt (irt : option str) (l : list assertion) : option bool :=
  match l with
  | [] => Some true
  | a :: rest =>
      if negb (a_has_subject a) then None else
      match confs_name_irt irt (a_confirmations a) with
      | None => None
      | Some false => Some false
      | Some true => assertions_name_irt irt rest
      end
  end.

(* AuthnResponse.loads after the signature stage *)
Definition loads_rest (c : cfg) (r : response) : result st :=
  let s0 := {| came_from := None; not_on_or_after := 0; session_nooa := 0; nid := None; acc := [] |} in
  let irt := if r_valid_instance r then r_irt r else None in
  if asynch c then
    match (match irt with Some i => lookup_str i (outstanding c) | None => None end) with
    | Some cf =>
        (* check_subject_confirmation_in_response_to: every confirmation of every (plain) assertion
           must carry SubjectConfirmationData/@InResponseTo == irt; AttributeError (no data / no subject) is swallowed *)
        let ok := assertions_name_irt irt (if r_valid_instance r then r_assertions r else []) in
        match ok with
        | Some false => Err (E "UnsolicitedResponse")
        | _ => Ok (set_cf s0 (Some cf))
        end
    | None => if allow_unsolicited c then Ok s0 else Err (E "UnsolicitedResponse")
    end
  else Ok s0.

Definition loads (c : cfg) (req : bool) (r : response) : result st :=
  match response_sig_stage req r with
  | Err e => Err e
  | Ok _ => loads_rest c r
  end.

(* Entity._parse_response *)
Definition parse_response (c : cfg) (r : response) : result outcome :=
  (* 1. loads with require_response_signature forced on; retry when not originally required *)
  let first := loads c true r in
  let stage1 : result (st * bool) :=
    match first with
    | Ok s => Ok (s, true)
    | Err e => if is_sigver_error e then
                 (if wrs c then Err e
                  else match loads c false r with Ok s => Ok (s, false) | Err e' => Err e' end)
               else Err e
    end in
  match stage1 with
  | Err e => Err e
  | Ok (s, response_is_signed) =>
      (* a response that failed valid_instance was cleared: self.response is None *)
      if negb (r_valid_instance r) then Err (E "AttributeError") else
      (* 2. verify with require_signature forced on; retry on SignatureError when not originally required *)
      let stage2 : result (option st * bool) :=
        match verify c true s r with
        | Ok x => Ok (x, true)
        | Err e => if is_signature_error e then
                     (if was c then Err e
                      else match verify c false (parse_assertion_residue c true s r) r with Ok x => Ok (x, false) | Err e' => Err e' end)
                   else Err e
        end in
      match stage2 with
      | Err e => Err e
      | Ok (None, _) => Err (E "AttributeError")          (* finally: None.require_signature = … *)
      | Ok (Some s', assertions_are_signed) =>
          if waors c && negb response_is_signed && negb assertions_are_signed then Err (E "SigverError")
          else Ok {| o_assertions := acc s';
                     o_name_id := nid s';
                     o_came_from := came_from s';
                     o_nooa := if session_nooa s' >? 0 then session_nooa s' else not_on_or_after s';
                     o_irt := r_irt r |}
      end
  end.

(* ---- observables ---- *)
Definition show_outcome (o : outcome) : val :=
  VL [VL (map (fun n => VZ (Z.of_N n)) (o_assertions o)); show_option VS (o_name_id o); show_option VS (o_came_from o);
      VZ (o_nooa o); show_option VS (o_irt o)].
Definition show_parse (r : result outcome) : val := show_result show_outcome r.
(* accept / reject granularity *)
Definition show_accept (r : result outcome) : val :=
  match r with Ok o => show_outcome o | Err _ => VE (E "rejected") end.
