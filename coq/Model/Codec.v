(* Model/Codec.v — byte/character level codecs of the bindings:
   base64 (RFC 4648, as base64.b64encode / b64decode on encoder output),
   urllib quote_plus / unquote_plus / urlencode / parse_qsl,
   html.escape and the HTML double-quoted attribute-value tokenizer state,
   the redirect URL assembly of pack.http_redirect_message,
   the string surgery of pack.make_soap_enveloped_saml_thingy.
   Bytes and characters are N.  Definitions only. *)
From PV Require Import Lib.Base.
Open Scope N_scope.

(* ---------------- base64 ---------------- *)
Definition b64char (n : N) : N :=
  if n <? 26 then 65 + n
  else if n <? 52 then 97 + (n - 26)
  else if n <? 62 then 48 + (n - 52)
  else if n =? 62 then 43 else 47.

Definition b64idx (c : N) : option N :=
  if (65 <=? c) && (c <=? 90) then Some (c - 65)
  else if (97 <=? c) && (c <=? 122) then Some (c - 97 + 26)
  else if (48 <=? c) && (c <=? 57) then Some (c - 48 + 52)
  else if c =? 43 then Some 62
  else if c =? 47 then Some 63
  else None.

Definition PAD : N := 61.
Definition pack3 (a b c : N) : N := a * 65536 + b * 256 + c.
Definition sx0 (n : N) := n / 262144.
Definition sx1 (n : N) := (n / 4096) mod 64.
Definition sx2 (n : N) := (n / 64) mod 64.
Definition sx3 (n : N) := n mod 64.
Definition unpack4 (i1 i2 i3 i4 : N) : N := ((i1 * 64 + i2) * 64 + i3) * 64 + i4.
Definition by0 (n : N) := n / 65536.
Definition by1 (n : N) := (n / 256) mod 256.
Definition by2 (n : N) := n mod 256.

Fixpoint b64enc (bs : list N) : str :=
  match bs with
  | [] => []
  | [a] => let n := pack3 a 0 0 in [b64char (sx0 n); b64char (sx1 n); PAD; PAD]
  | [a; b] => let n := pack3 a b 0 in [b64char (sx0 n); b64char (sx1 n); b64char (sx2 n); PAD]
  | a :: b :: c :: rest =>
      let n := pack3 a b c in
      b64char (sx0 n) :: b64char (sx1 n) :: b64char (sx2 n) :: b64char (sx3 n) :: b64enc rest
  end.

Definition is_nil {A} (l : list A) : bool := match l with [] => true | _ => false end.

Fixpoint b64dec (s : str) : option (list N) :=
  match s with
  | [] => Some []
  | c1 :: c2 :: c3 :: c4 :: rest =>
      match b64idx c1, b64idx c2 with
      | Some i1, Some i2 =>
          if c3 =? PAD then
            if (c4 =? PAD) && is_nil rest then Some [by0 (unpack4 i1 i2 0 0)] else None
          else
            match b64idx c3 with
            | None => None
            | Some i3 =>
                if c4 =? PAD then
                  if is_nil rest then let n := unpack4 i1 i2 i3 0 in Some [by0 n; by1 n] else None
                else
                  match b64idx c4 with
                  | None => None
                  | Some i4 =>
                      let n := unpack4 i1 i2 i3 i4 in
                      match b64dec rest with
                      | None => None
                      | Some r => Some (by0 n :: by1 n :: by2 n :: r)
                      end
                  end
            end
      | _, _ => None
      end
  | _ => None
  end.

(* ---------------- percent encoding ---------------- *)
Definition is_alnum (c : N) : bool :=
  ((65 <=? c) && (c <=? 90)) || ((97 <=? c) && (c <=? 122)) || ((48 <=? c) && (c <=? 57)).
(* urllib's always-safe set: letters, digits, "_.-~" *)
Definition is_unreserved (c : N) : bool :=
  is_alnum c || (c =? 95) || (c =? 46) || (c =? 45) || (c =? 126).

Definition hexdigit (n : N) : N := if n <? 10 then 48 + n else 55 + n.   (* upper case *)
Definition hexval (c : N) : option N :=
  if (48 <=? c) && (c <=? 57) then Some (c - 48)
  else if (65 <=? c) && (c <=? 70) then Some (c - 55)
  else if (97 <=? c) && (c <=? 102) then Some (c - 87)
  else None.

Definition PCT : N := 37.  Definition PLUS : N := 43.  Definition SPACE : N := 32.
Definition AMP : N := 38.  Definition EQ : N := 61.

Definition quote_byte (plus : bool) (b : N) : str :=
  if is_unreserved b then [b]
  else if plus && (b =? SPACE) then [PLUS]
  else [PCT; hexdigit (b / 16); hexdigit (b mod 16)].

Definition quote_plus (bs : list N) : str := flat_map (quote_byte true) bs.
Definition quote (bs : list N) : str := flat_map (quote_byte false) bs.   (* safe='' *)

Fixpoint unquote_gen (plus : bool) (s : str) : list N :=
  match s with
  | [] => []
  | c :: rest =>
      if c =? PCT then
        match rest with
        | h :: l :: rest' =>
            match hexval h, hexval l with
            | Some x, Some y => (x * 16 + y) :: unquote_gen plus rest'
            | _, _ => c :: unquote_gen plus rest
            end
        | _ => c :: unquote_gen plus rest
        end
      else if plus && (c =? PLUS) then SPACE :: unquote_gen plus rest
      else c :: unquote_gen plus rest
  end.
Definition unquote_plus := unquote_gen true.
Definition unquote := unquote_gen false.

(* split on a separator character (Python str.split(sep) semantics) *)
Fixpoint split_on (sep : N) (s : str) (cur : str) : list str :=
  match s with
  | [] => [rev cur]
  | c :: rest => if c =? sep then rev cur :: split_on sep rest [] else split_on sep rest (c :: cur)
  end.

Fixpoint join_with (sep : N) (parts : list str) : str :=
  match parts with
  | [] => []
  | [p] => p
  | p :: rest => p ++ sep :: join_with sep rest
  end.

Definition encode_pair (kv : list N * list N) : str := quote_plus (fst kv) ++ EQ :: quote_plus (snd kv).
Definition urlencode (ps : list (list N * list N)) : str := join_with AMP (map encode_pair ps).

(* first '=' splits name and value (parse_qsl) *)
Fixpoint split_first (sep : N) (s : str) (cur : str) : option (str * str) :=
  match s with
  | [] => None
  | c :: rest => if c =? sep then Some (rev cur, rest) else split_first sep rest (c :: cur)
  end.

Definition parse_field (f : str) : option (list N * list N) :=
  match split_first EQ f [] with
  | None => None                                  (* no '=': dropped by parse_qsl *)
  | Some (k, v) => Some (unquote_plus k, unquote_plus v)
  end.

Fixpoint filter_some {A} (l : list (option A)) : list A :=
  match l with [] => [] | Some a :: r => a :: filter_some r | None :: r => filter_some r end.

Definition parse_qsl (q : str) : list (list N * list N) :=
  match q with
  | [] => []
  | _ => filter_some (map parse_field (split_on AMP q []))
  end.

(* redirect URL: location ++ glue ++ query; glue decided by "location has a query" *)
Definition redirect_url (location : str) (has_query : bool) (ps : list (list N * list N)) : str :=
  location ++ (if has_query then AMP else 63) :: urlencode ps.

(* ---------------- HTML ---------------- *)
Definition html_escape_char (c : N) : str :=
  if c =? 38 then s2l "&amp;" else if c =? 60 then s2l "&lt;" else if c =? 62 then s2l "&gt;"
  else if c =? 34 then s2l "&quot;" else if c =? 39 then s2l "&#x27;" else [c].
Definition html_escape (s : str) : str := flat_map html_escape_char s.

Fixpoint strip_prefix (p s : str) : option str :=
  match p, s with
  | [], _ => Some s
  | x :: p', y :: s' => if x =? y then strip_prefix p' s' else None
  | _, [] => None
  end.

Definition charref (s : str) : option (N * str) :=      (* s starts right AFTER '&' *)
  match strip_prefix (s2l "amp;") s with Some r => Some (38, r) | None =>
  match strip_prefix (s2l "lt;") s with Some r => Some (60, r) | None =>
  match strip_prefix (s2l "gt;") s with Some r => Some (62, r) | None =>
  match strip_prefix (s2l "quot;") s with Some r => Some (34, r) | None =>
  match strip_prefix (s2l "#x27;") s with Some r => Some (39, r) | None => None
  end end end end end.

(* "attribute value (double-quoted) state": consume up to the closing quote,
   decoding the five character references html.escape can produce.  Fuel =
   length of the input (each step consumes at least one character). *)
Fixpoint attr_value_dq_fuel (fuel : nat) (s : str) (acc : str) : option (str * str) :=
  match fuel with
  | O => None
  | S f =>
      match s with
      | [] => None                                   (* EOF inside attribute value *)
      | c :: rest =>
          if c =? 34 then Some (rev acc, rest)
          else if c =? 38 then
            match charref rest with
            | Some (d, rest') => attr_value_dq_fuel f rest' (d :: acc)
            | None => attr_value_dq_fuel f rest (c :: acc)
            end
          else attr_value_dq_fuel f rest (c :: acc)
      end
  end.
Definition attr_value_dq (s : str) : option (str * str) := attr_value_dq_fuel (S (List.length s)) s [].

(* ---------------- SOAP string branch of make_soap_enveloped_saml_thingy ---------------- *)
Definition lower_ascii (c : N) : N := if (65 <=? c) && (c <=? 90) then c + 32 else c.
Fixpoint take (n : nat) (s : str) : str :=
  match n, s with O, _ => [] | _, [] => [] | S n', c :: r => c :: take n' r end.
Definition starts_xml_decl (s : str) : bool := str_eqb (map lower_ascii (take 5 s)) (s2l "<?xml").

Definition SOAP_PREFIX : str := s2l "<?xml version=""1.0"" encoding=""UTF-8""?>".

(* str.replace(p, "") for non-empty p : remove left-to-right non-overlapping occurrences *)
Fixpoint remove_all_fuel (fuel : nat) (p s : str) : str :=
  match fuel with
  | O => s
  | S f =>
      match s with
      | [] => []
      | c :: rest =>
          match strip_prefix p s with
          | Some r => match p with [] => s | _ => remove_all_fuel f p r end
          | None => c :: remove_all_fuel f p rest
          end
      end
  end.
Definition remove_all (p s : str) : str := remove_all_fuel (S (List.length s)) p s.

(* the text after the first "?>" *)
Fixpoint after_qgt (s : str) : option str :=
  match s with
  | [] => None
  | c :: r => match r with
              | d :: r' => if (c =? 63) && (d =? 62) then Some r' else after_qgt r
              | [] => None
              end
  end.

(* what ends up between <Body> and </Body> for a string message:
   a leading XML declaration is cut at its "?>", then PREFIX occurrences are removed *)
Definition soap_prepare (thingy : str) : str :=
  let t := if starts_xml_decl thingy
           then match after_qgt thingy with Some r => r | None => thingy end
           else thingy in
  remove_all SOAP_PREFIX t.

(* the behaviour before the repair (fix: commit in /repo), kept for the record:
   "".join(thingy.split("\n")[1:]) *)
Definition soap_prepare_before_fix (thingy : str) : str :=
  let t := if starts_xml_decl thingy
           then List.concat (tl (split_on 10 thingy []))
           else thingy in
  remove_all SOAP_PREFIX t.

(* observables *)
Definition show_bytes_opt (o : option (list N)) : val := show_option VS o.
Definition show_pairs (ps : list (list N * list N)) : val := VL (map (fun kv => VL [VS (fst kv); VS (snd kv)]) ps).
Definition show_attr (o : option (str * str)) : val := show_option (fun p => VL [VS (fst p); VS (snd p)]) o.
