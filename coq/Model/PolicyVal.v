(* C07, addition: identity VALUES that are not text (int, bool, float, bytes, None, nested list, tuple, dict - what SQL /
   JSON / LDAP back ends deliver).  Values are a sum type: a text, or a value of another kind (payload = type name,
   marker, str(value)).  re.match on anything but a text raises TypeError, so the loop of
   filter_attribute_value_assertions over an expression LIST either raises or lets through only texts matched by a
   single expression.  Inside the dict the policy code works on, a value is carried as a code-point list: a text is
   itself, a non-text value is its payload behind the marker SENT (U+10FFFF, a non-character: never part of a text
   the harness generates); enc / dec move between the two views, so the whole existing model (Model/Policy.v) and its
   theorems apply to the carried dict unchanged.  Definitions only; proofs in Proofs/PolicyVal_lemmas.v. *)
From PV Require Import Lib.Base Model.Policy.
Open Scope N_scope.

Inductive value :=
| VText (s : str)            (* a Python str *)
| VOther (payload : str).    (* any other kind: type name, marker, str(value) *)

Definition vava := dict (list value).

Definition SENT : N := 1114111.
Definition enc (v : value) : str := match v with VText s => s | VOther p => SENT :: p end.
Definition is_other (s : str) : bool := match s with c :: _ => c =? SENT | [] => false end.
Definition dec (s : str) : value := match s with c :: p => if c =? SENT then VOther p else VText s | [] => VText [] end.
Definition enc_ident (a : vava) : ava := map (fun e => (fst e, map enc (snd e))) a.

(* str(value): what a filter that matched on the text FORM of a value would look at *)
Definition str_of (v : value) : str := match v with VText s => s | VOther p => p end.

Section ValueFilters.
  Variable matches : str -> str -> bool.
  Variable lname : str -> str -> option str.

  (* restr.match(val) *)
  Definition match_value (rx : str) (v : value) : result bool :=
    match v with VText s => Ok (matches rx s) | VOther _ => Err TypeError end.

  (* for val in vals: if restr.match(val): rvals.append(val) *)
  Fixpoint vals_loop (rx : str) (vals : list value) : result (list value) :=
    match vals with
    | [] => Ok []
    | v :: r => do b <- match_value rx v; do rest <- vals_loop rx r; Ok (if b then v :: rest else rest)
    end.

  (* for restr in _rests: ... : the values one restriction list lets through (before list(set(..))) *)
  Fixpoint filter_values_v (rxs : list str) (vals : list value) : result (list value) :=
    match rxs with
    | [] => Ok []
    | rx :: r => do a <- vals_loop rx vals; do b <- filter_values_v r vals; Ok (a ++ b)
    end.

  (* NOT the code: a filter that judges the text form str(value) and keeps the value - the mistake the property excludes *)
  Definition filter_values_str (rxs : list str) (vals : list value) : list value :=
    filter (fun v => existsb (fun rx => matches rx (str_of v)) rxs) vals.

  (* the matcher as the carried dict sees it: a carried non-text value matches nothing *)
  Definition vmatches (rx s : str) : bool := negb (is_other s) && matches rx s.

  (* filter_attribute_value_assertions on the carried dict, exceptions included *)
  Definition favs_entry_t (rest : restrictions) (e : str * list str) : result (option (str * list str)) :=
    match lookup (lower (fst e)) rest with
    | None => Ok None
    | Some None => Ok (Some e)
    | Some (Some rxs) =>
        do out <- filter_values_v rxs (map dec (snd e));
        Ok (match map enc out with [] => None | x :: rv => Some (fst e, dedup (x :: rv)) end)
    end.

  Fixpoint favs_loop_t (rest : restrictions) (a : ava) : result ava :=
    match a with
    | [] => Ok []
    | e :: r => do x <- favs_entry_t rest e; do r' <- favs_loop_t rest r;
                Ok (match x with Some y => y :: r' | None => r' end)
    end.

  Definition favs_t (a : ava) (rest : option restrictions) : result ava :=
    match rest with
    | None | Some [] => Ok a
    | Some r => favs_loop_t r a
    end.

  (* Policy.filter: as Model.Policy.pfilter, the last step may raise *)
  Definition pfilter_t (p : cpolicy) (a : ava) (sp : str) (md : option mdview) (required optional : list decl) : result ava :=
    do ecr <- get_entity_categories p sp md required;
    do a1 <- (match ecr with
              | _ :: _ => Ok (Some (favs vmatches a (Some (names_only ecr))))
              | [] => if nonempty required || nonempty optional
                      then do fail <- get_fail_on_missing_requested p sp;
                           do r <- filter_on_attributes lname a required optional fail;
                           Ok (Some r)
                      else Ok None
              end);
    do ar <- get_attribute_restrictions p sp;
    let cur := match a1 with Some x => x | None => a end in
    favs_t cur ar.

  Definition restrict_with_t (best_effort : bool) (p : cpolicy) (a : ava) (sp : str) (md : option mdview) : result ava :=
    match md with
    | Some m => match m_req m with
                | Some (rq, op) => if best_effort then pfilter_t p a sp md [] (rq ++ op) else pfilter_t p a sp md rq op
                | None => pfilter_t p a sp md [] []
                end
    | None => pfilter_t p a sp None [] []
    end.

  Definition apply_policy_with_t (best_effort : bool) (p : cpolicy) (self : ava) (sp : str) (md : option mdview) : result ava :=
    do filtered <- restrict_with_t best_effort p self sp md; Ok (narrow self filtered).

  Definition setup_assertion_t (p : cpolicy) (identity : ava) (sp : str) (md : option mdview) (best_effort : bool) : outcome :=
    match apply_policy_with_t false p identity sp md with
    | Ok a => Asserted a
    | Err e => if str_eqb e MissingValue
               then (if best_effort
                     then match apply_policy_with_t true p identity sp md with
                          | Ok a => Asserted a
                          | Err e' => Raised e'
                          end
                     else ErrorResponse)
               else Raised e
    end.

  Definition authn_response_t (p : cpolicy) (identity : ava) (sp : str) (md : option mdview) : outcome :=
    setup_assertion_t p identity sp md true.

  Definition attribute_response_t (p : option cpolicy) (identity : ava) (sp : str) (md : option mdview) : outcome :=
    match identity with
    | [] => Asserted []
    | _ :: _ =>
        match p with
        | None => Asserted identity
        | Some pol => match apply_policy_with_t false pol identity sp md with
                      | Ok a => Asserted a
                      | Err e => Raised e
                      end
        end
    end.
End ValueFilters.

(* ---- observables: the exception class is not property-relevant ------------------------------------------------- *)
Definition show_res_t (r : result ava) : val :=
  match r with Ok a => VL [VS (s2l "returns"); show_ava a] | Err _ => VL [VS (s2l "raised")] end.

Definition show_outcome_t (o : outcome) : val :=
  match o with
  | Asserted a => VL [VS (s2l "asserted"); show_ava a]
  | ErrorResponse => VL [VS (s2l "error-response")]
  | Raised _ => VL [VS (s2l "raised")]
  end.

Record vcase := {
  v_rx : list (str * str);                 (* (pattern, TEXT) pairs that match *)
  v_ln : list ((str * str) * str);
  v_pol : rawpolicy;
  v_sp : str;
  v_md : option mdview;
  v_ident : vava
}.

Definition with_policy_t (c : vcase) (k : cpolicy -> val) : val :=
  match compile (v_pol c) with Ok p => k p | Err _ => VL [VS (s2l "raised")] end.

Definition run_v_favs (t : list (str * str)) (a : vava) (r : restrictions) : val :=
  show_res_t (favs_t (tbl_matches t) (enc_ident a) (Some r)).

Definition run_v_restrict (c : vcase) : val :=
  with_policy_t c (fun p => show_res_t (restrict_with_t (tbl_matches (v_rx c)) (tbl_lname (v_ln c)) false p (enc_ident (v_ident c)) (v_sp c) (v_md c))).

Definition run_v_pfilter (c : vcase) (rq op : list decl) : val :=
  with_policy_t c (fun p => show_res_t (pfilter_t (tbl_matches (v_rx c)) (tbl_lname (v_ln c)) p (enc_ident (v_ident c)) (v_sp c) (v_md c) rq op)).

Definition run_v_authn (c : vcase) : val :=
  with_policy_t c (fun p => show_outcome_t (authn_response_t (tbl_matches (v_rx c)) (tbl_lname (v_ln c)) p (enc_ident (v_ident c)) (v_sp c) (v_md c))).

Definition run_v_setup (c : vcase) (best_effort : bool) : val :=
  with_policy_t c (fun p => show_outcome_t (setup_assertion_t (tbl_matches (v_rx c)) (tbl_lname (v_ln c)) p (enc_ident (v_ident c)) (v_sp c) (v_md c) best_effort)).

Definition run_v_attribute (c : vcase) (aa : bool) : val :=
  if aa then with_policy_t c (fun p => show_outcome_t (attribute_response_t (tbl_matches (v_rx c)) (tbl_lname (v_ln c)) (Some p) (enc_ident (v_ident c)) (v_sp c) (v_md c)))
  else show_outcome_t (attribute_response_t (tbl_matches (v_rx c)) (tbl_lname (v_ln c)) None (enc_ident (v_ident c)) (v_sp c) (v_md c)).
