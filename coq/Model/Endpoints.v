(* Model/Endpoints.v — where the SP's expected return addresses come from:
   Config.endpoint(service, binding, context) (config.py 422-447),
   Base.service_urls(binding) (client_base.py 227-232), the asynchop choice of
   Entity._parse_response (entity.py 1108-1112) and the call
   Base.parse_authn_request_response(xmlstr, binding, outstanding, conv_info=…)
   which hands  return_addrs = self.service_urls(binding)  to AuthnResponse.

   The endpoint table is the list configured under
   endpoints / assertion_consumer_service, in configuration order.  An entry
   is a (url, binding) pair, a bare url (no binding given), or something else
   that does not unpack into two values (e.g. a triple) and equals no string.
   Definitions only. *)
From PV Require Import Lib.Base Model.Status Model.Response.
Open Scope Z_scope.

Inductive endp :=
| EP (url bind : str)          (* (url, binding) *)
| Unspec (url : str)           (* bare string: `endp, bind = spec` raises ValueError *)
| Odd.                         (* any other entry that does not unpack into two values *)

Definition B_POST := E "urn:oasis:names:tc:SAML:2.0:bindings:HTTP-POST".
Definition B_REDIRECT := E "urn:oasis:names:tc:SAML:2.0:bindings:HTTP-Redirect".
Definition B_ARTIFACT := E "urn:oasis:names:tc:SAML:2.0:bindings:HTTP-Artifact".
Definition B_SOAP := E "urn:oasis:names:tc:SAML:2.0:bindings:SOAP".
Definition B_PAOS := E "urn:oasis:names:tc:SAML:2.0:bindings:PAOS".

(* the two lists Config.endpoint collects; an entry of [unspec] that is no string is None *)
Definition spec_urls (eps : list endp) (b : str) : list str :=
  flat_map (fun e => match e with EP u b' => if str_eqb b' b then [u] else [] | _ => [] end) eps.
Definition unspec_entries (eps : list endp) : list (option str) :=
  flat_map (fun e => match e with EP _ _ => [] | Unspec u => [Some u] | Odd => [None] end) eps.

Definition somes (l : list (option str)) : list str :=
  flat_map (fun x => match x with Some u => [u] | None => [] end) l.

(* Config.endpoint: `if spec: return spec else: return unspec` *)
Definition config_endpoint (eps : list endp) (b : str) : list (option str) :=
  match spec_urls eps b with
  | [] => unspec_entries eps
  | l => map Some l
  end.

(* Base.service_urls: None when the list is empty.  Only membership of strings
   is ever asked of the result, so the non-string entries are dropped here
   (they still make the list non-empty). *)
Definition service_urls (eps : list endp) (b : str) : option (list str) :=
  match config_endpoint eps b with
  | [] => None
  | l => Some (somes l)
  end.

(* Entity._parse_response: asynchop = binding not in [SOAP, PAOS] *)
Definition browser_binding (b : str) : bool := negb (mem_str b [B_SOAP; B_PAOS]).

(* one call of parse_authn_request_response on an SP *)
Record ecfg := {
  base : cfg;                 (* everything else; its return_addrs / asynch cells are NOT read *)
  acs_table : list endp;          (* the SP's assertion_consumer_service table *)
  arriving : str              (* the binding argument of the call *)
}.

Definition cfg_of (ec : ecfg) : cfg :=
  let c := base ec in
  {| entity_id := entity_id c;
     return_addrs := service_urls (acs_table ec) (arriving ec);
     wrs := wrs c; was := was c; waors := waors c;
     allow_unsolicited := allow_unsolicited c;
     dest_regex_set := dest_regex_set c; dest_regex_match := dest_regex_match c;
     slack := slack c; now := now c;
     asynch := browser_binding (arriving ec);
     outstanding := outstanding c; conv_info := conv_info c; test_mode := test_mode c |}.

Definition parse_authn_response (ec : ecfg) (r : response) : result outcome :=
  parse_response (cfg_of ec) r.

(* [u] is registered for binding [b]: listed with that binding, or — only when
   NO entry carries that binding — listed without any binding *)
Definition registered_for (eps : list endp) (b u : str) : Prop :=
  In (EP u b) eps \/ ((forall u', ~ In (EP u' b) eps) /\ In (Unspec u) eps).

(* a history of calls on one long-lived SP object: the endpoint table is the
   object's, everything else may change from call to call; the object keeps no
   state between calls (that is what the run-time correspondence on reused
   objects checks) *)
Definition call := (cfg * str * response)%type.
Definition run_calls (eps : list endp) (calls : list call) : list (result outcome) :=
  map (fun k : call => let '(c, b, r) := k in parse_authn_response {| base := c; acs_table := eps; arriving := b |} r) calls.

(* ---- observables ---- *)
Definition show_service_urls (x : list endp * str) : val :=
  show_option (fun l => VL (map VS l)) (service_urls (fst x) (snd x)).
Definition show_accept_e (x : ecfg * response) : val :=
  show_accept (parse_authn_response (fst x) (snd x)).
Definition show_calls (x : list endp * list call) : val :=
  VL (map show_accept (run_calls (fst x) (snd x))).
