(* Model/C05Opts.v — where the allow_unsolicited switch of a service provider comes from,
   for every SPELLING the configuration dictionary may use for it.

   The value travels   dictionary -> Config.load / Config.load_special (config.py: exactly the
   strings true / false become booleans, every other value is kept as it is)
   -> Config.getattr(allow_unsolicited, sp) -> client_base.Base.__init__ (None -> the default
   False; the string true -> True; everything else kept) -> self.allow_unsolicited ->
   AuthnResponse(allow_unsolicited=...), which only ever tests its TRUTH
   (response.py: elif self.allow_unsolicited / not self.allow_unsolicited).

   Model/Client.v (property C02) already models load_special / load / getattr / resolve for
   values None | bool | str; it is reused unchanged.  Python ints are the one further kind of
   value walked here: an int never equals a string, so load_special and Base.__init__ keep it
   and the uses test its truth (non-zero).  Definitions only. *)
From PV Require Import Lib.Base Model.Status Model.Response Model.Client Model.Endpoints.
Open Scope Z_scope.

Definition AU : str := E "allow_unsolicited".

(* how the option is written in the sp section *)
Inductive spelling :=
| Absent                    (* the key is not there *)
| Val (v : cv)              (* None, a bool, a string *)
| IntVal (z : Z).           (* a Python int *)

(* the sp section: the other arguments, then (dict order does not matter: keys are unique) the option *)
Definition sp_section (s : spelling) (rest : section) : section :=
  match s with
  | Val v => List.app rest [(AU, v)]
  | _ => rest
  end.

(* self.allow_unsolicited, as its users see it (truth value), for a configuration of class
   def_context (sp = SPConfig, empty = Config, idp = IdPConfig) serving the sp role with
   section [sp_section s rest] and the other roles [others] *)
Definition effective_unsolicited (def_context : str) (others : list (str * section)) (rest : section) (s : spelling) : bool :=
  match s with
  | IntVal z => negb (z =? 0)
  | _ => resolve def_context (load ((E "sp", sp_section s rest) :: others)) AU false
  end.

Definition with_unsolicited (b : bool) (c : cfg) : cfg :=
  {| entity_id := entity_id c; return_addrs := return_addrs c;
     wrs := wrs c; was := was c; waors := waors c;
     allow_unsolicited := b; dest_regex_set := dest_regex_set c; dest_regex_match := dest_regex_match c;
     slack := slack c; now := now c; asynch := asynch c; outstanding := outstanding c; conv_info := conv_info c;
     test_mode := test_mode c |}.

(* one call of parse_authn_request_response on an SP built from such a configuration *)
Record scfg := {
  s_call : ecfg;                         (* the call; the allow_unsolicited cell of its base is NOT read *)
  s_class : str;                         (* def_context of the configuration class *)
  s_others : list (str * section);       (* the other role sections *)
  s_rest : section;                      (* the other arguments of the sp section *)
  s_spell : spelling
}.
Definition effective (sc : scfg) : bool :=
  effective_unsolicited (s_class sc) (s_others sc) (s_rest sc) (s_spell sc).
Definition ecfg_of (sc : scfg) : ecfg :=
  {| base := with_unsolicited (effective sc) (base (s_call sc));
     acs_table := acs_table (s_call sc); arriving := arriving (s_call sc) |}.
Definition parse_spelled (sc : scfg) (r : response) : result outcome :=
  parse_authn_response (ecfg_of sc) r.

(* a history of calls on ONE SP object built from one configuration: the option is resolved once *)
Definition run_spelled (sc : scfg) (calls : list call) : list (result outcome) :=
  run_calls (acs_table (s_call sc)) (map (fun k : call => let '(c, b, r) := k in (with_unsolicited (effective sc) c, b, r)) calls).

(* ---- observables ---- *)
Definition show_effective (x : (str * list (str * section)) * (section * spelling)) : val :=
  VB (effective_unsolicited (fst (fst x)) (snd (fst x)) (fst (snd x)) (snd (snd x))).
Definition show_accept_spelled (x : scfg * response) : val :=
  show_accept (parse_spelled (fst x) (snd x)).
Definition show_spelled_calls (x : scfg * list call) : val :=
  VL (map show_accept (run_spelled (fst x) (snd x))).
