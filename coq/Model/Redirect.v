(* Model/Redirect.v — signing and verifying the HTTP-Redirect binding:
     sigver.SIGNER_ALGS (module-level table of SHARED signer objects, each with a mutable key),
     sigver.RSACrypto.get_signer, sigver.RSASigner.sign / verify,
     pack.http_redirect_message (signing branch), entity.Entity.apply_binding (redirect branch),
     sigver.verify_redirect_signature,
   and the labelled transition system over the shared table whose atomic steps are
   get_signer / sign / verify of any number of entities.
   RSA is symbolic: a signature value records the key, the digest and the exact octet string.
   The order tables, the SIGNER_ALGS key set, SIG_ALLOWED_ALG and which urlencode each module
   imported come from Gen/RedirectConsts.v (regenerated from the source on every run) through the
   record [tables]; every function takes the tables as a parameter.  Definitions only. *)
From PV Require Import Lib.Base Model.Codec Gen.RedirectConsts.
Open Scope N_scope.

(* ---------------- parameter names ---------------- *)
Definition K_REQ : str := s2l "SAMLRequest".
Definition K_RESP : str := s2l "SAMLResponse".
Definition K_ART : str := s2l "SAMLart".
Definition K_RS : str := s2l "RelayState".
Definition K_ALG : str := s2l "SigAlg".
Definition K_SIG : str := s2l "Signature".
Definition TILDE : N := 126.

(* ---------------- tables (regenerated) ---------------- *)
Record tables := {
  t_sreq : list str;  t_sresp : list str;        (* pack.REQ_ORDER / RESP_ORDER: used when signing *)
  t_vreq : list str;  t_vresp : list str;        (* sigver.REQ_ORDER / RESP_ORDER: used when verifying *)
  t_algs : list (str * str);                     (* SIGNER_ALGS: uri -> digest of the shared signer *)
  t_allowed : list str;                          (* SIG_ALLOWED_ALG uris *)
  t_sign_tilde : bool;                           (* pack.urlencode leaves the tilde alone *)
  t_verify_tilde : bool;                         (* sigver.urlencode leaves the tilde alone *)
  t_shared : bool                                (* get_signer hands out the module-level object itself and stores
                                                    the caller's key on it (true) / a fresh RSASigner per call (false) *)
}.
Definition actual : tables := {|
  t_sreq := pack_req_order; t_sresp := pack_resp_order;
  t_vreq := sigver_req_order; t_vresp := sigver_resp_order;
  t_algs := signer_algs; t_allowed := sig_allowed_alg;
  t_sign_tilde := pack_urlencode_tilde_safe; t_verify_tilde := sigver_urlencode_tilde_safe;
  t_shared := get_signer_returns_shared_object |}.

(* ---------------- the two percent-encoders ---------------- *)
(* ts = true : urllib.parse.quote_plus of this Python (tilde is in the always-safe set) = Codec.quote_byte true
   ts = false: future.backports.urllib.parse.quote_plus (tilde is percent-encoded) *)
Definition quote_byte_g (ts : bool) (b : N) : str :=
  if negb ts && (b =? TILDE) then [PCT; 55; 69] else quote_byte true b.
Definition quote_plus_g (ts : bool) (bs : list N) : str := flat_map (quote_byte_g ts) bs.
Definition encode_pair_g (ts : bool) (kv : list N * list N) : str :=
  quote_plus_g ts (fst kv) ++ EQ :: quote_plus_g ts (snd kv).
(* "&".join([urlencode({k: v}) for (k, v) in ps]) *)
Definition urlencode_g (ts : bool) (ps : list (list N * list N)) : str := join_with AMP (map (encode_pair_g ts) ps).

(* ---------------- dict access ---------------- *)
Fixpoint lookup (k : str) (l : list (str * str)) : option str :=
  match l with
  | [] => None
  | (k', v) :: r => if str_eqb k k' then Some v else lookup k r
  end.
Definition has (k : str) (l : list (str * str)) : bool := match lookup k l with Some _ => true | None => false end.

(* [(k, args[k]) for k in order if k in args] *)
Definition pick (args : list (str * str)) (k : str) : list (str * str) :=
  match lookup k args with Some v => [(k, v)] | None => [] end.
Definition ordered (order : list str) (args : list (str * str)) : list (str * str) := flat_map (pick args) order.

(* ---------------- symbolic RSA ---------------- *)
Definition keyid := N.                      (* a key pair; the certificate of key pair k is named k too *)
Record sigval := { sg_key : keyid; sg_digest : str; sg_msg : str }.
Definition rsa_sign (k : keyid) (digest msg : str) : sigval := {| sg_key := k; sg_digest := digest; sg_msg := msg |}.
(* verification under (the public half of) key pair k *)
Definition rsa_verify (k : keyid) (digest msg : str) (s : sigval) : bool :=
  (k =? sg_key s) && str_eqb digest (sg_digest s) && str_eqb msg (sg_msg s).

(* the value of the Signature parameter *)
Inductive sigparam :=
| SigOf (s : sigval)            (* base64 of a signature somebody made *)
| SigJunk (decodes : bool).     (* anything else; decodes = base64.b64decode accepts it *)

(* a query as the dict handed to verify_redirect_signature: every parameter but Signature, plus Signature *)
Record query := { q_params : list (str * str); q_sig : option sigparam }.

(* ---------------- the shared table ---------------- *)
Record signer_obj := { so_digest : str; so_key : option keyid }.
Definition shared := list (str * signer_obj).
Fixpoint sh_get (st : shared) (a : str) : option signer_obj :=
  match st with
  | [] => None
  | (a', o) :: r => if str_eqb a a' then Some o else sh_get r a
  end.
Fixpoint sh_setkey (st : shared) (a : str) (k : option keyid) : shared :=
  match st with
  | [] => []
  | (a', o) :: r => if str_eqb a a' then (a', {| so_digest := so_digest o; so_key := k |}) :: r
                    else (a', o) :: sh_setkey r a k
  end.
Definition init_shared (T : tables) : shared :=
  map (fun r => (fst r, {| so_digest := snd r; so_key := None |})) (t_algs T).

Definition or_key (a b : option keyid) : option keyid := match a with Some k => Some k | None => b end.

(* a signer handle: the table key of the SIGNER_ALGS entry it was made from, and the key it was made with.
   t_shared T = true : the handle IS the shared object; its key is whatever the table holds when it is used.
   t_shared T = false: the handle is a fresh object carrying its own key; the table is never written. *)
Definition handle := (str * option keyid)%type.

(* RSACrypto(ckey).get_signer(alg, sigkey) *)
Definition get_signer (T : tables) (st : shared) (ckey : option keyid) (alg : str) (sigkey : option keyid)
  : shared * option handle :=
  match sh_get st alg with
  | None => (st, None)
  | Some _ => let k := or_key sigkey ckey in
              ((if t_shared T then sh_setkey st alg k else st), Some (alg, k))
  end.

(* self.key of a handle at the moment it is used *)
Definition handle_key (T : tables) (o : signer_obj) (h : handle) : option keyid :=
  if t_shared T then so_key o else snd h.

Definition KeyError := s2l "KeyError".
Definition AttributeError := s2l "AttributeError".
Definition AssertionError := s2l "AssertionError".
Definition TypeError := s2l "TypeError".
Definition Exception_ := s2l "Exception".
Definition Unsupported := s2l "Unsupported".
Definition B64Error := s2l "Error".          (* binascii.Error *)

(* RSASigner.sign(msg) through handle h: key_sign(key or self.key, msg, self.digest), key = None *)
Definition signer_sign (T : tables) (st : shared) (h : handle) (msg : str) : result sigval :=
  match sh_get st (fst h) with
  | None => Err KeyError                       (* not reachable: a handle names an existing object *)
  | Some o => match handle_key T o h with
              | Some k => Ok (rsa_sign k (so_digest o) msg)
              | None => Err AttributeError     (* None.sign *)
              end
  end.

(* ---------------- pack.http_redirect_message ---------------- *)
(* m is the VALUE of the message parameter (deflate_and_base64_encode(message) for requests and
   responses); rs = "" means no RelayState; signer = None means unsigned *)
Definition redirect_args (typ m rs : str) : list (str * str) :=
  (typ, m) :: (if is_nil rs then [] else [(K_RS, rs)]).

Definition http_redirect_message (T : tables) (st : shared) (typ m rs sigalg : str) (signer : option handle)
  : result query :=
  let is_msg := str_eqb typ K_REQ || str_eqb typ K_RESP in
  if is_msg || str_eqb typ K_ART then
    let args := redirect_args typ m rs in
    match signer with
    | None => Ok {| q_params := args; q_sig := None |}
    | Some h =>
        if mem_str sigalg (t_allowed T) then
          if is_msg then
            let order := if str_eqb typ K_REQ then t_sreq T else t_sresp T in
            let args' := args ++ [(K_ALG, sigalg)] in
            do s <- signer_sign T st h (urlencode_g (t_sign_tilde T) (ordered order args'));
            Ok {| q_params := args'; q_sig := Some (SigOf s) |}
          else Err TypeError                    (* for k in None *)
        else Err AssertionError
    end
  else Err Exception_.

(* Entity.apply_binding(BINDING_HTTP_REDIRECT, msg, dest, relay_state, response, sign, sigalg=...) *)
Definition apply_binding_redirect (T : tables) (st : shared) (ckey : option keyid)
    (response : bool) (m rs : str) (sign : bool) (sigalg : option str) : shared * result query :=
  let typ := if response then K_RESP else K_REQ in
  match (if sign then sigalg else None) with
  | Some alg =>
      if is_nil alg then (st, http_redirect_message T st typ m rs alg None)
      else let '(st', h) := get_signer T st ckey alg None in
           (st', http_redirect_message T st' typ m rs alg h)
  | None => (st, http_redirect_message T st typ m rs (match sigalg with Some a => a | None => [] end) None)
  end.

(* ---------------- sigver.verify_redirect_signature ---------------- *)
Definition verify_order (T : tables) (ps : list (str * str)) : option (list str) :=
  if has K_REQ ps then Some (t_vreq T) else if has K_RESP ps then Some (t_vresp T) else None.

Definition verify_string (T : tables) (order : list str) (ps : list (str * str)) : str :=
  urlencode_g (t_verify_tilde T) (ordered order ps).

Definition verify_redirect_signature (T : tables) (st : shared) (ckey : option keyid) (q : query)
    (cert sigkey : option keyid) : shared * result (option bool) :=
  match lookup K_ALG (q_params q) with
  | None => (st, Err KeyError)          (* the except-branch formats saml_msg['SigAlg'] again: KeyError, not Unsupported *)
  | Some alg =>
      let '(st', h) := get_signer T st ckey alg sigkey in
      match h with
      | None => (st', Ok None)          (* unknown algorithm: falls off the end, returns None *)
      | Some h =>
          match verify_order T (q_params q) with
          | None => (st', Err Unsupported)
          | Some order =>
              match q_sig q with
              | None => (st', Err KeyError)          (* del _args['Signature'] *)
              | Some sp =>
                  let string := verify_string T order (q_params q) in
                  let key := or_key cert sigkey in
                  match sp with
                  | SigJunk false => (st', Err B64Error)
                  | SigJunk true => (st', Ok (Some false))
                  | SigOf s =>
                      match sh_get st' (fst h) with
                      | None => (st', Err KeyError)
                      | Some o =>
                          (st', Ok (Some (match or_key key (handle_key T o h) with
                                          | Some k => rsa_verify k (so_digest o) string s
                                          | None => false           (* None.verify -> swallowed -> False *)
                                          end)))
                      end
                  end
              end
          end
      end
  end.

(* The certificate argument as the caller PRESENTS it: absent, a text that
   extract_rsa_key_from_x509_cert(pem_format(cert)) can read (it then denotes a key), or a text it cannot
   read (PEM armour given twice, truncated or damaged body, arbitrary text): the extraction raises
   ValueError after the SigAlg / order / Signature-presence steps and before the base64 decoding of the
   Signature value and the verification itself. *)
Inductive presented := PAbsent | PReadable (k : keyid) | PUnreadable.
Definition ValueError := s2l "ValueError".
Definition verify_presented (T : tables) (st : shared) (ckey : option keyid) (q : query)
    (c : presented) (sigkey : option keyid) : shared * result (option bool) :=
  match c with
  | PAbsent => verify_redirect_signature T st ckey q None sigkey
  | PReadable k => verify_redirect_signature T st ckey q (Some k) sigkey
  | PUnreadable =>
      let r := verify_redirect_signature T st ckey q None sigkey in
      match snd r with
      | Ok None => r                                          (* unknown algorithm: returns None before the certificate is looked at *)
      | Err e => if str_eqb e KeyError || str_eqb e Unsupported then r else (fst r, Err ValueError)
      | Ok (Some _) => (fst r, Err ValueError)
      end
  end.

Definition verifies (r : shared * result (option bool)) : bool :=
  match snd r with Ok (Some true) => true | _ => false end.

(* ---------------- labelled transition system over the shared table ---------------- *)
(* e : the key configured for the calling entity's RSACrypto (the entity is identified by it) *)
Inductive op :=
| OGet (e : option keyid) (alg : str) (sigkey : option keyid)           (* e.sec.sec_backend.get_signer(alg, sigkey): sigkey = None is
                                                                           the ordinary call, Some K asks for a signer over a FOREIGN key *)
| OSign (e : option keyid) (typ m rs sigalg : str) (h : option handle)  (* http_redirect_message(..., signer = a handle e holds) *)
| OVerify (e : option keyid) (q : query) (cert sigkey : option keyid).  (* verify_redirect_signature(q, e.sec.sec_backend, cert, sigkey) *)

Inductive out :=
| OutHandle (h : option handle)
| OutSigned (r : result query)
| OutVerified (r : result (option bool)).

Definition step (T : tables) (st : shared) (o : op) : shared * out :=
  match o with
  | OGet e alg sk => let '(st', h) := get_signer T st e alg sk in (st', OutHandle h)
  | OSign e typ m rs sigalg h => (st, OutSigned (http_redirect_message T st typ m rs sigalg h))
  | OVerify e q cert sigkey => let '(st', r) := verify_redirect_signature T st e q cert sigkey in (st', OutVerified r)
  end.

Fixpoint exec (T : tables) (st : shared) (tr : list op) : shared :=
  match tr with [] => st | o :: r => exec T (fst (step T st o)) r end.
Fixpoint run (T : tables) (st : shared) (tr : list op) : list out :=
  match tr with [] => [] | o :: r => let '(st', x) := step T st o in x :: run T st' r end.

(* what a step stores in the shared table: (algorithm, key) *)
Definition writes (o : op) : option (str * option keyid) :=
  match o with
  | OGet e alg sk => Some (alg, or_key sk e)
  | OSign _ _ _ _ _ _ => None
  | OVerify e q cert sigkey =>
      match lookup K_ALG (q_params q) with Some alg => Some (alg, or_key sigkey e) | None => None end
  end.

(* the key recorded in a produced signature *)
Definition used_key (r : result query) : option keyid :=
  match r with
  | Ok q => match q_sig q with Some (SigOf s) => Some (sg_key s) | _ => None end
  | Err _ => None
  end.

(* ---------------- table obligations (decided by vm_compute on the regenerated tables) ---------------- *)
Fixpoint strs_eqb (a b : list str) : bool :=
  match a, b with
  | [], [] => true
  | x :: a', y :: b' => str_eqb x y && strs_eqb a' b'
  | _, _ => false
  end.
Definition is_byte (b : N) : bool := b <? 256.
Definition plain (s : str) : bool := forallb is_byte s && forallb (fun c => negb (c =? TILDE)) s.

Definition order_ok (own other : str) (o : list str) : bool :=
  mem_str own o && mem_str K_RS o && mem_str K_ALG o && negb (mem_str other o) && forallb plain o.

Definition tables_ok (T : tables) : bool :=
  strs_eqb (t_sreq T) (t_vreq T) && strs_eqb (t_sresp T) (t_vresp T) &&
  order_ok K_REQ K_RESP (t_vreq T) && order_ok K_RESP K_REQ (t_vresp T) &&
  negb (is_nil (t_algs T)) &&
  forallb (fun r => mem_str (fst r) (t_allowed T) && plain (fst r) && negb (is_nil (fst r))) (t_algs T).

(* the documented algorithm table: RSA with SHA-1 / SHA-2, each URI with its own digest *)
Definition documented_algs : list (str * str) := [
  (s2l "http://www.w3.org/2000/09/xmldsig#rsa-sha1", s2l "sha1");
  (s2l "http://www.w3.org/2001/04/xmldsig-more#rsa-sha224", s2l "sha224");
  (s2l "http://www.w3.org/2001/04/xmldsig-more#rsa-sha256", s2l "sha256");
  (s2l "http://www.w3.org/2001/04/xmldsig-more#rsa-sha384", s2l "sha384");
  (s2l "http://www.w3.org/2001/04/xmldsig-more#rsa-sha512", s2l "sha512")].
Definition algs_documented (T : tables) : bool :=
  strs_eqb (map fst (t_algs T)) (map fst documented_algs) && strs_eqb (map snd (t_algs T)) (map snd documented_algs).

(* ---------------- observables for the correspondence ---------------- *)
Definition show_ob (o : option bool) : val := match o with Some b => VB b | None => VNone end.
Definition show_verify (r : shared * result (option bool)) : val := show_result show_ob (snd r).
Definition show_key (k : option keyid) : val := match k with Some n => VZ (Z.of_N n) | None => VNone end.
Definition show_params (ps : list (str * str)) : val := VL (map (fun kv => VL [VS (fst kv); VS (snd kv)]) ps).
(* a produced query: parameter list (without Signature) and the key that signed it *)
Definition show_signed (r : result query) : val :=
  show_result (fun q => VL [show_params (q_params q); show_key (used_key (Ok q))]) r.
Definition show_out (x : out) : val :=
  match x with
  | OutHandle h => VL [VZ 0%Z; VB (match h with Some _ => true | None => false end)]
  | OutSigned r => VL [VZ 1%Z; match r with Ok _ => show_key (used_key r) | Err e => VE e end]
  | OutVerified r => VL [VZ 2%Z; show_result show_ob r]
  end.
Definition show_run (T : tables) (tr : list op) : val := VL (map show_out (run T (init_shared T) tr)).

(* ---------------- helpers for the correspondence harness ---------------- *)
Definition digest_of (T : tables) (alg : str) : str :=
  match sh_get (init_shared T) alg with Some o => so_digest o | None => [] end.
(* the Signature value an entity holding key k produces for these parameters *)
Definition made_sig (T : tables) (k : keyid) (typ m rs alg : str) : sigparam :=
  SigOf (rsa_sign k (digest_of T alg)
           (urlencode_g (t_sign_tilde T)
              (ordered (if str_eqb typ K_REQ then t_sreq T else t_sresp T) (redirect_args typ m rs ++ [(K_ALG, alg)])))).
(* a state in which key k is stored for every algorithm *)
Definition all_keys (T : tables) (k : option keyid) : shared :=
  map (fun r => (fst r, {| so_digest := snd r; so_key := k |})) (t_algs T).

(* scripts: sugar over [op] in which a Verify step refers to a query produced earlier in the same run.
   An entity keeps TWO handle slots per algorithm: the one its latest ordinary get_signer(alg) returned and the one
   its latest get_signer(alg, sigkey=K) returned. *)
Inductive sop :=
| SGet (e : keyid) (alg : str)
| SGetK (e : keyid) (alg : str) (k : keyid)                  (* get_signer(alg, sigkey = K), K somebody else's key *)
| SSign (e : keyid) (response : bool) (m rs alg : str)      (* http_redirect_message with the handle e obtained for alg *)
| SSignK (e : keyid) (response : bool) (m rs alg : str)     (* ... with the handle e obtained for alg WITH a sigkey *)
| SApply (e : keyid) (response : bool) (m rs alg : str)     (* apply_binding(sign=True, sigalg=alg) = get_signer ; sign *)
| SVerify (e : keyid) (alg : str) (cert sigkey : option keyid).   (* the latest query made with SigAlg alg, else a junk one *)

Definition junk_query (alg : str) : query :=
  {| q_params := [(K_REQ, s2l "x"); (K_ALG, alg)]; q_sig := Some (SigJunk true) |}.
Fixpoint find_query (alg : str) (qs : list query) : query :=
  match qs with
  | [] => junk_query alg
  | q :: r => match lookup K_ALG (q_params q) with
              | Some a => if str_eqb a alg then q else find_query alg r
              | None => find_query alg r
              end
  end.
Definition remember (x : out) (made : list query) : list query :=
  match x with OutSigned (Ok q) => q :: made | _ => made end.

(* the handle entity e holds for alg in the ordinary (slot = false) / sigkey (slot = true) slot *)
Definition held_t := list (keyid * str * bool * option handle).
Fixpoint held_handle (e : keyid) (alg : str) (slot : bool) (held : held_t) : option handle :=
  match held with
  | [] => None
  | (e', a', s', h) :: r => if (e =? e') && str_eqb alg a' && Bool.eqb slot s' then h else held_handle e alg slot r
  end.
Definition out_handle (x : out) : option handle := match x with OutHandle h => h | _ => None end.

(* the operations a script step stands for are exactly [step]s of the transition system *)
Fixpoint run_script (T : tables) (st : shared) (made : list query) (held : held_t)
    (s : list sop) : list val :=
  match s with
  | [] => []
  | SGet e alg :: r =>
      let '(st', x) := step T st (OGet (Some e) alg None) in
      show_out x :: run_script T st' made ((e, alg, false, out_handle x) :: held) r
  | SGetK e alg k :: r =>
      let '(st', x) := step T st (OGet (Some e) alg (Some k)) in
      show_out x :: run_script T st' made ((e, alg, true, out_handle x) :: held) r
  | SSign e resp m rs alg :: r =>
      let '(st', x) := step T st (OSign (Some e) (if resp then K_RESP else K_REQ) m rs alg (held_handle e alg false held)) in
      show_out x :: run_script T st' (remember x made) held r
  | SSignK e resp m rs alg :: r =>
      let '(st', x) := step T st (OSign (Some e) (if resp then K_RESP else K_REQ) m rs alg (held_handle e alg true held)) in
      show_out x :: run_script T st' (remember x made) held r
  | SApply e resp m rs alg :: r =>
      let '(st1, x1) := step T st (OGet (Some e) alg None) in
      let '(st2, x) := step T st1 (OSign (Some e) (if resp then K_RESP else K_REQ) m rs alg (out_handle x1)) in
      show_out x :: run_script T st2 (remember x made) held r
  | SVerify e alg cert sk :: r =>
      let '(st', x) := step T st (OVerify (Some e) (find_query alg made) cert sk) in
      show_out x :: run_script T st' made held r
  end.
Definition show_script (T : tables) (s : list sop) : val := VL (run_script T (init_shared T) [] [] s).

(* what the property says about one observed script step: an ordinary Sign / apply_binding step of entity e shows
   e's own key, or nothing signed (no handle / unsupported algorithm: unsigned URL), or an exception *)
Definition own_step (s : sop) (v : val) : Prop :=
  match s with
  | SSign e _ _ _ _ | SApply e _ _ _ _ =>
      v = VL [VZ 1%Z; VZ (Z.of_N e)] \/ v = VL [VZ 1%Z; VNone] \/ exists err, v = VL [VZ 1%Z; VE err]
  | _ => True
  end.
