(* Model/Interleave.v — several calls on one SecurityContext at the same time: what each tool run is pointed at.
   One use of the tool by a call (CryptoBackendXmlSec1.validate_signature / decrypt + _run_xmlsec) is three steps:
     Write c p d  — the library writes the call's text d to the scratch file p (make_temp);
     Run c k p o  — the tool is started (k: 0 verify, 1 decrypt) on p: it sees whatever p holds at that moment and writes its answer to o (the output scratch file);
     Read c o     — the library reads o (ntf.read() in _run_xmlsec).
   Steps of different calls interleave arbitrarily; the file system is one map shared by all calls.
   Texts and answers are numbers (the harness numbers content digests); the tool is any function of what it sees. *)
From PV Require Import Lib.Base.
Open Scope N_scope.

Definition fs := list (N * N).
Fixpoint fs_get (f : fs) (p : N) : option N :=
  match f with
  | [] => None
  | (q, d) :: t => if N.eqb q p then Some d else fs_get t p
  end.
Definition fs_put (f : fs) (p d : N) : fs := (p, d) :: f.

Inductive ev := Write (c p d : N) | Run (c k p o : N) | Read (c o : N).

Definition ev_caller (e : ev) : N := match e with Write c _ _ => c | Run c _ _ _ => c | Read c _ => c end.
Definition touches (e : ev) : list N := match e with Write _ p _ => [p] | Run _ _ p o => [p; o] | Read _ o => [o] end.
Definition writes (e : ev) : list N := match e with Write _ p _ => [p] | Run _ _ _ o => [o] | Read _ _ => [] end.

(* what is observed: (caller, what the tool saw) at every Run, (caller, what the library read) at every Read *)
Fixpoint exec (tool : N -> option N -> N) (f : fs) (es : list ev) : list (N * option N) :=
  match es with
  | [] => []
  | Write c p d :: t => exec tool (fs_put f p d) t
  | Run c k p o :: t => (c, fs_get f p) :: exec tool (fs_put f o (tool k (fs_get f p))) t
  | Read c o :: t => (c, fs_get f o) :: exec tool f t
  end.

Definition only (c : N) (es : list ev) : list ev := filter (fun e => N.eqb (ev_caller e) c) es.
Definition proj (c : N) (obs : list (N * option N)) : list (N * option N) := filter (fun o => N.eqb (fst o) c) obs.

(* one call = its tool uses (tool kind, input path, output path, text), in order *)
Definition use := (N * N * N * N)%type.
Definition use_events (c : N) (u : use) : list ev := let '(k, p, o, d) := u in [Write c p d; Run c k p o; Read c o].
Definition call_events (c : N) (us : list use) : list ev := flat_map (use_events c) us.
Definition use_paths (u : use) : list N := let '(_, p, o, _) := u in [p; o].
Definition paths (us : list use) : list N := flat_map use_paths us.
(* what the call observes when nobody else is around: its own text at every run, the tool's answer to it at every read *)
Definition alone (tool : N -> option N -> N) (c : N) (us : list use) : list (N * option N) :=
  flat_map (fun u : use => let '(k, p, o, d) := u in [(c, Some d); (c, Some (tool k (Some d)))]) us.

(* all interleavings of two step sequences *)
Inductive merge {A : Type} : list A -> list A -> list A -> Prop :=
| merge_nil : merge [] [] []
| merge_l a l1 l2 l : merge l1 l2 l -> merge (a :: l1) l2 (a :: l)
| merge_r a l1 l2 l : merge l1 l2 l -> merge l1 (a :: l2) (a :: l).

(* nobody else writes to a file the call c uses *)
Definition isolated (c : N) (es : list ev) : Prop :=
  forall e, In e es -> ev_caller e <> c -> forall p, In p (writes e) -> ~ In p (flat_map touches (only c es)).

(* the verdict of a call: every run saw a text the tool accepts (ok), nothing was missing *)
Definition call_verdict (ok : N -> bool) (obs : list (N * option N)) : bool :=
  forallb (fun o => match snd o with Some d => ok d | None => false end) obs.

(* ---- observable for the correspondence: the tool as a table (what it saw -> what it wrote), the events as recorded *)
Definition tool_of (tbl : list (N * N * N)) (k : N) (seen : option N) : N :=
  match seen with
  | Some d => match find (fun x : N * N * N => N.eqb (fst (fst x)) k && N.eqb (snd (fst x)) d) tbl with Some x => snd x | None => 0 end
  | None => 0
  end.
Definition show_obs (o : N * option N) : val :=
  VL [VZ (Z.of_N (fst o)); match snd o with Some d => VZ (Z.of_N d) | None => VNone end].
Definition show_exec (x : list (N * N * N) * list ev) : val := VL (map show_obs (exec (tool_of (fst x)) [] (snd x))).
