(* C01, the identifier itself (additions to Model/Xsw.v, which stays as it is).

   (1) Which string is "the ID" of an element.  The parser delivers an attribute table: per attribute its
       namespace (None = unqualified), its local name and its value; XML well-formedness: no (namespace, local
       name) pair twice.  The tool (--id-attr:ID) and the pre-check read the LITERAL ID attribute: unqualified,
       spelled exactly ID.  pysaml2's object gets `.id` from SamlBase._convert_element_attribute_to_member:
       the key of the table ('{ns}local' or 'local') is looked up in c_attributes, whose only identifier key is
       'ID'; attributes are visited in table order and a later hit overwrites an earlier one.
   (2) Which string is handed over.  _check_signature passes ONE variable, item.id, to the pre-check and (through
       verify_signature / validate_signature, `if node_id:`) to the tool as --node-id.  check_signature_g makes the
       two hand-overs separate parameters fp / ft (what a trimmed / case-folded / normalised copy would be), so that
       the theorems can say what depends on them being the same string. *)
From PV Require Import Lib.Base Model.Xsw.
Import ListNotations.
Open Scope N_scope.

Definition attr := (option str * str * str)%type.      (* namespace, local name, value *)
Definition ID_NAME : str := s2l "ID".

Definition is_literal_id (a : attr) : bool :=
  match a with (None, n, _) => str_eqb n ID_NAME | _ => false end.

(* what the tool and the pre-check read: elem.get('ID') *)
Fixpoint literal_id (al : list attr) : option str :=
  match al with
  | [] => None
  | a :: r => if is_literal_id a then Some (snd a) else literal_id r
  end.

(* what the object gets: for attribute, value in tree.attrib.items(): if attribute in c_attributes: setattr(...) *)
Definition item_id_from (acc : option str) (al : list attr) : option str :=
  fold_left (fun acc a => if is_literal_id a then Some (snd a) else acc) al acc.
Definition item_id (al : list attr) : option str := item_id_from None al.

(* a reader that takes any attribute whose LOCAL name is ID (qualified look-alikes included) - NOT the code *)
Definition is_id_by_local_name (a : attr) : bool := match a with (_, n, _) => str_eqb n ID_NAME end.
Definition item_id_lax (al : list attr) : option str :=
  fold_left (fun acc a => if is_id_by_local_name a then Some (snd a) else acc) al None.

Definition attr_key (a : attr) : option str * str := (fst (fst a), snd (fst a)).
Definition key_eqb (k1 k2 : option str * str) : bool :=
  match fst k1, fst k2 with
  | None, None => str_eqb (snd k1) (snd k2)
  | Some a, Some b => str_eqb a b && str_eqb (snd k1) (snd k2)
  | _, _ => false
  end.
(* well-formed attribute table: no name twice *)
Fixpoint wf_attrs (al : list attr) : bool :=
  match al with
  | [] => true
  | a :: r => negb (existsb (fun b => key_eqb (attr_key a) (attr_key b)) r) && wf_attrs r
  end.

(* _check_signature with the two hand-overs of the identifier kept apart *)
Definition check_signature_g (fp ft : str -> str) (pol : dup_policy) (doc : tree) (nm : N) (i : option str) (certs : list N) : bool :=
  precheck doc nm (option_map fp i) && existsb (tool_verify pol doc nm (node_id_arg (option_map ft i))) certs.

(* str.rstrip(' ') - one of the normalisations a hand-over could apply *)
Fixpoint rstrip (s : str) : str :=
  match s with
  | [] => []
  | c :: r => match rstrip r with
              | [] => if N.eqb c 32 then [] else [c]
              | r' => c :: r'
              end
  end.

(* ---- observable for the correspondence unit item_id: attribute tables of real elements ---- *)
Definition show_opt_str (o : option str) : val := match o with Some s => VS s | None => VNone end.
Definition show_item_ids (l : list (list attr)) : val :=
  VL (map (fun al => VL [show_opt_str (item_id al); show_opt_str (literal_id al)]) l).
