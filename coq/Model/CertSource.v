(* Model/CertSource.v - WHERE the entity descriptor of an issuer comes from: metadata sources other than a
   local file.  MetadataStore.__getitem__ (mdstore.py) walks its sources in configuration order and takes the first
   that does not raise KeyError.  inline / remote / local sources parse their document when the client is built;
   the MDQ / MDX source (MetaDataMDX, configuration key mdq) asks a server per entity id on the first lookup
   (requests.get), parses the answer with do_entity_descriptor - which files every EntityDescriptor of the answer
   under ITS OWN entityID, a second descriptor of an id being ignored - and then looks the ASKED id up in what it
   holds; what it got stays cached.  An answer is whatever the server sends: the asked entity, another one, an
   aggregate, nothing.  MetaData.certs then reads the key descriptors of the entity it was handed (no second look
   at its name): Model/CertSelect.v on the store [(asked, entity)]. *)
From PV Require Import Lib.Base Model.Sigver Model.CertSelect.
Open Scope N_scope.

Record descriptor := { d_id : str; d_ent : entity }.          (* an EntityDescriptor: its entityID attribute, its key descriptors *)

Inductive answer :=
| NotFound                         (* status other than 200, or well-formed XML that is no metadata: KeyError *)
| Unparsable                       (* empty body / not XML: ParseError out of the lookup *)
| Served (ds : list descriptor).   (* one EntityDescriptor, or the members of an EntitiesDescriptor in document order *)
Definition server := str -> answer.

Definition cache := list descriptor.                          (* self.entity, in insertion order *)

Fixpoint find_desc (c : cache) (i : str) : option descriptor :=
  match c with
  | [] => None
  | d :: rest => if str_eqb i (d_id d) then Some d else find_desc rest i
  end.

(* do_entity_descriptor *)
Definition file_desc (c : cache) (d : descriptor) : cache :=
  match find_desc c (d_id d) with Some _ => c | None => c ++ [d] end.
Definition file_all (c : cache) (ds : list descriptor) : cache := fold_left file_desc ds c.

Inductive lookup := Found (d : descriptor) | KeyErr | Raised (e : str).

(* MetaDataMDX.__getitem__ *)
Definition lazy_lookup (srv : server) (c : cache) (asked : str) : lookup * cache :=
  match find_desc c asked with
  | Some d => (Found d, c)
  | None =>
      match srv asked with
      | NotFound => (KeyErr, c)
      | Unparsable => (Raised (s2l "ParseError"), c)
      | Served ds => let c' := file_all c ds in
                     (match find_desc c' asked with Some d => Found d | None => KeyErr end, c')
      end
  end.

Inductive source :=
| Static (c : cache)               (* inline / remote / local: the descriptors of the document, in document order *)
| Lazy (c : cache).                (* mdq, with what it holds so far *)

(* MetadataStore.__getitem__ *)
Fixpoint store_lookup (srv : server) (ss : list source) (asked : str) : lookup * list source :=
  match ss with
  | [] => (KeyErr, [])
  | Static c :: rest =>
      match find_desc c asked with
      | Some d => (Found d, ss)
      | None => let '(r, rest') := store_lookup srv rest asked in (r, Static c :: rest')
      end
  | Lazy c :: rest =>
      match lazy_lookup srv c asked with
      | (KeyErr, c') => let '(r, rest') := store_lookup srv rest asked in (r, Lazy c' :: rest')
      | (r, c') => (r, Lazy c' :: rest)
      end
  end.

(* _check_signature for an element whose issuer is [issuer], over such a store *)
Definition verdict_of (r : lookup) (issuer : str) (only_md : bool) (embedded : list N) (signer : N) : result unit :=
  match r with
  | Raised e => Err e
  | Found d => check_signature true [(issuer, d_ent d)] (Some issuer) only_md embedded signer
  | KeyErr => check_signature true [] (Some issuer) only_md embedded signer
  end.
Definition src_check (srv : server) (ss : list source) (issuer : str) (only_md : bool) (embedded : list N) (signer : N)
  : result unit * list source :=
  let '(r, ss') := store_lookup srv ss issuer in (verdict_of r issuer only_md embedded signer, ss').

(* a history on one long-lived client: every step with whatever the server answers at that moment *)
Record step := { q_srv : server; q_issuer : str; q_embedded : list N; q_signer : N }.
Fixpoint run_steps (only_md : bool) (ss : list source) (qs : list step) : list (result unit) :=
  match qs with
  | [] => []
  | q :: rest => let '(r, ss') := src_check (q_srv q) ss (q_issuer q) only_md (q_embedded q) (q_signer q) in
                 r :: run_steps only_md ss' rest
  end.

(* the descriptors a store holds *)
Definition source_cache (s : source) : cache := match s with Static c => c | Lazy c => c end.
Definition holds (ss : list source) (d : descriptor) : Prop := exists s, In s ss /\ In d (source_cache s).
(* d declares key k for signing *)
Definition declares_signing (d : descriptor) (k : N) : Prop :=
  exists r kd, In r (d_ent d) /\ In kd r /\ (kd_use kd = Some SIGNING \/ kd_use kd = None) /\ In k (kd_certs kd).

(* ---- a lazy source that files the answer under the ASKED id without comparing it with the descriptor's own ---- *)
Definition lazy_lookup_unchecked (srv : server) (c : cache) (asked : str) : lookup * cache :=
  match find_desc c asked with
  | Some d => (Found d, c)
  | None =>
      match srv asked with
      | NotFound => (KeyErr, c)
      | Unparsable => (Raised (s2l "ParseError"), c)
      | Served [] => (KeyErr, c)
      | Served (d :: _) => let d' := {| d_id := asked; d_ent := d_ent d |} in (Found d', c ++ [d'])
      end
  end.
Definition src_check_unchecked (srv : server) (c : cache) (issuer : str) (only_md : bool) (embedded : list N) (signer : N) : result unit :=
  verdict_of (fst (lazy_lookup_unchecked srv c issuer)) issuer only_md embedded signer.

Definition show_verdicts_src (l : list (result unit)) : val :=
  VL (map (fun r => match r with Ok _ => VB true | Err _ => VE (s2l "rejected") end) l).
