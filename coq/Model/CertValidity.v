(* Model/CertValidity.v — the certificate selection of _check_signature with the
   VALIDITY WINDOW of a certificate as an explicit attribute.

   Model/CertSelect.v identifies a certificate with the key it holds (cert n holds
   key n).  Here a certificate is (key, validity): two certificates may hold the
   same key and differ in their dates (a renewed / an expired one).  The code
   that exists never looks at the dates of a METADATA certificate:
     MetaData.certs / extract_certs (mdstore.py 390-428) compare certificate
       TEXTS only (`if cert not in res`), no call of active_cert;
     _check_signature (sigver.py 1447-1494) takes the list as declared;
     cert_from_instance reads KeyInfo with ignore_age=True.
   So c_valid is carried through every function below and read by none of them;
   Proofs/CertValidity_lemmas.v states that as theorems (erasure onto
   Model/CertSelect.v, re-dating invariance, fallback decided by the DECLARED list). *)
From PV Require Import Lib.Base Model.Sigver Model.CertSelect.
Open Scope N_scope.

Inductive validity := Valid | Expired | NotYetValid.
Record cert := { c_key : N; c_valid : validity }.

Definition validity_code (v : validity) : N := match v with Valid => 0 | Expired => 1 | NotYetValid => 2 end.
Definition validity_eqb (a b : validity) : bool := N.eqb (validity_code a) (validity_code b).
(* two certificate texts are equal iff same key and same window (one certificate per (key, window) in a federation) *)
Definition cert_eqb (a b : cert) : bool := N.eqb (c_key a) (c_key b) && validity_eqb (c_valid a) (c_valid b).

Record vkeydesc := { vkd_use : option str; vkd_certs : list cert }.
Definition vrole := list vkeydesc.
Definition ventity := list vrole.
Definition vmdstore := list (str * ventity).

Fixpoint vfind_entity (m : vmdstore) (eid : str) : option ventity :=
  match m with
  | [] => None
  | (k, e) :: rest => if str_eqb eid k then Some e else vfind_entity rest eid
  end.

Definition memC (x : cert) (l : list cert) : bool := existsb (cert_eqb x) l.
Fixpoint vadd_new (res cs : list cert) : list cert :=
  match cs with
  | [] => res
  | c :: cs' => if memC c res then vadd_new res cs' else vadd_new (res ++ [c]) cs'
  end.

Definition vuse_matches (use : str) (kd : vkeydesc) : bool :=
  match vkd_use kd with Some u => str_eqb u use | None => true end.

Fixpoint vextract_certs (use : str) (r : vrole) (res : list cert) : list cert :=
  match r with
  | [] => res
  | kd :: rest => vextract_certs use rest (if vuse_matches use kd then vadd_new res (vkd_certs kd) else res)
  end.

(* certs(entity_id, 'any', use) — the list AS DECLARED: no validity filter *)
Definition vmd_certs (m : vmdstore) (eid : option str) (use : str) : option (list cert) :=
  match eid with
  | None => None
  | Some i => match vfind_entity m i with
              | None => None
              | Some e => Some (flat_map (fun r => vextract_certs use r []) e)
              end
  end.

(* what metadata DECLARES as signing certificates of the issuer ([] also for an unknown issuer / no metadata) *)
Definition declared_signing (metadata_present : bool) (m : vmdstore) (issuer : option str) : list cert :=
  if metadata_present then match vmd_certs m issuer SIGNING with Some l => l | None => [] end else [].

(* the fallback decision of _check_signature: `if not certs and not self.only_use_keys_in_metadata` *)
Definition consults_embedded (metadata_present : bool) (m : vmdstore) (issuer : option str) (only_md : bool) : bool :=
  nilb (declared_signing metadata_present m issuer) && negb only_md.

Definition vcandidate_certs (metadata_present : bool) (m : vmdstore) (issuer : option str)
           (only_md : bool) (embedded : list cert) : result (list cert) :=
  let certs := if consults_embedded metadata_present m issuer only_md then embedded
               else declared_signing metadata_present m issuer in
  match certs with [] => Err (s2l "MissingKey") | _ => Ok certs end.

(* the tool verifies under the KEY a certificate holds (the stand-in and `xmlsec1 --pubkey-cert-pem` alike) *)
Definition vtool_for (signer : N) (c : cert) : tool_result := tool_for signer (c_key c).

Definition vcheck_signature (metadata_present : bool) (m : vmdstore) (issuer : option str)
           (only_md : bool) (embedded : list cert) (signer : N) : result unit :=
  match vcandidate_certs metadata_present m issuer only_md embedded with
  | Err e => Err e
  | Ok certs => check_signature_runs false (map (vtool_for signer) certs) false true
  end.

(* ---------------------------------------------------------------- forgetting / changing the dates *)
Definition erase_kd (kd : vkeydesc) : keydesc := {| kd_use := vkd_use kd; kd_certs := map c_key (vkd_certs kd) |}.
Definition erase_entity (e : ventity) : entity := map (map erase_kd) e.
Definition erase_md (m : vmdstore) : mdstore := map (fun p => (fst p, erase_entity (snd p))) m.

Definition redate_cert (f : cert -> validity) (c : cert) : cert := {| c_key := c_key c; c_valid := f c |}.
Definition redate_kd (f : cert -> validity) (kd : vkeydesc) : vkeydesc :=
  {| vkd_use := vkd_use kd; vkd_certs := map (redate_cert f) (vkd_certs kd) |}.
Definition redate_md (f : cert -> validity) (m : vmdstore) : vmdstore :=
  map (fun p => (fst p, map (map (redate_kd f)) (snd p))) m.

(* ---------------------------------------------------------------- observables *)
Definition show_cert (c : cert) : val := VZ (Z.of_N (c_key c * 10 + validity_code (c_valid c))).
Definition show_vcheck (r : result unit) : val :=
  match r with Ok _ => VB true | Err _ => VE (s2l "rejected") end.
