(* Model/StatusNear.v — textual near-misses of a status URN (definitions only).
   The model (Model/Status.v) compares status codes with exact string equality;
   these generators enumerate the strings close to a code that are NOT the code:
   one character dropped / inserted / replaced / changed in case, every proper
   prefix and suffix (the empty string included), surrounding white space. *)
From PV Require Import Lib.Base Gen.StatusTable Model.Status.
Open Scope N_scope.

(* the Success URN as the SAML core specification writes it (literal) *)
Definition SUCCESS_URN : str := s2l "urn:oasis:names:tc:SAML:2.0:status:Success".

Definition substring (s t : str) : Prop := exists a b, t = a ++ s ++ b.

Fixpoint drops (s : str) : list str :=
  match s with [] => [] | c :: r => r :: map (cons c) (drops r) end.
Fixpoint inserts (c : N) (s : str) : list str :=
  (c :: s) :: match s with [] => [] | d :: r => map (cons d) (inserts c r) end.
Fixpoint prefixes (s : str) : list str :=          (* proper prefixes, [] first *)
  match s with [] => [] | c :: r => [] :: map (cons c) (prefixes r) end.
Fixpoint suffixes (s : str) : list str :=          (* proper suffixes *)
  match s with [] => [] | c :: r => r :: suffixes r end.
Fixpoint replaces (f : N -> N) (s : str) : list str :=
  match s with
  | [] => []
  | d :: r => (if N.eqb (f d) d then [] else [f d :: r]) ++ map (cons d) (replaces f r)
  end.
Definition swapcase (c : N) : N :=
  if (65 <=? c) && (c <=? 90) then c + 32
  else if (97 <=? c) && (c <=? 122) then c - 32 else c.
Definition wraps (s : str) : list str :=
  [32 :: s; s ++ [32]; 32 :: s ++ [32]; 9 :: s; s ++ [9]; 10 :: s; s ++ [10]; s ++ [13; 10];
   160 :: s; s ++ [160]; s ++ s].
Definition added : list N := [58; 47; 35; 115; 120; 63; 46; 32].   (* : / # s x ? . space *)

Definition near_misses (s : str) : list str :=
  drops s ++ flat_map (fun c => inserts c s) added ++ prefixes s ++ suffixes s
  ++ replaces swapcase s ++ replaces (fun _ => 120) s ++ replaces (fun _ => 121) s ++ wraps s.

(* status_ok on a status whose code chain is top [v] over an optional second level *)
Definition refused_all (table : list (str * str)) (sub : option code_view) (l : list str) : bool :=
  forallb (fun x => match status_ok_with table (Some {| st_code := Some (Code (Some x) sub); st_msg := false |}) with
                    | Ok _ => false | Err _ => true end) l.
