(* Model/SchemaBeforeFix.v — the table rows that the C12 repairs corrected
   (proposed_fix/C12-1 EncryptedKey rows of the KeyInfo family, C12-2 sslcert key_validation,
   C12-3 wsdl import), written out as they were BEFORE the fix and as they are after it,
   cut down to the members involved.  The rows of the repaired code itself are in
   Gen/SchemaTables.v (regenerated on every run); these definitions only keep the history
   visible: Props/C12.v proves on them that the engine loses / cannot serialise / cannot
   parse such objects before the fix and that the repaired rows are well-formed.
   Definitions only. *)
From PV Require Import Lib.Base Model.Schema.
Open Scope N_scope.

(* ---- names (interned by hand for this file) *)
Definition bf_xsi_nil : N := 7.
Definition bf_xsi_type : N := 8.
Definition bf_xmlns_xs : N := 9.
Definition t_KeyInfo : N := 100.        (* {http://www.w3.org/2000/09/xmldsig#}KeyInfo *)
Definition t_KeyName : N := 101.        (* {http://www.w3.org/2000/09/xmldsig#}KeyName *)
Definition t_EncKey_2000 : N := 102.    (* {http://www.w3.org/2000/09/xmlenc#}EncryptedKey - the key the tables used *)
Definition t_EncKey_2001 : N := 103.    (* {http://www.w3.org/2001/04/xmlenc#}EncryptedKey - what xmlenc.EncryptedKey serialises as *)
Definition t_KeyInfoType : N := 104.    (* {http://www.w3.org/2000/09/xmldsig#}KeyInfoType *)
Definition x_Id : N := 110.             (* xml attribute Id *)
Definition mb_key_name : N := 1.
Definition mb_encrypted_key : N := 2.
Definition mb_id : N := 3.
Definition mb_key_info : N := 4.
Definition c_KeyInfo : N := 0.
Definition c_EncryptedKey : N := 1.
Definition c_KeyName : N := 2.
Definition c_KeyInfoType : N := 3.

(* ---- C12-1: the KeyInfo family.
   xmldsig/__init__.py   KeyInfoType_.c_children[KEY] = ('encrypted_key', None)        (placeholder)
                         KeyInfo.c_children = KeyInfoType_.c_children.copy()
   xmlenc/__init__.py    OriginatorKeyInfo / RecipientKeyInfo copy ds.KeyInfo.c_children (still None)
                         ds.KeyInfo.c_children[KEY] = ('encrypted_key', EncryptedKey)
   before the fix KEY was the 2000/09 name and only ds.KeyInfo received the class; after the fix
   KEY is the 2001/04 name and all four classes receive the class. *)
Definition keyinfo_row (id tag key : N) (cls : option N) : class_row :=
  KR id tag [CR t_KeyName mb_key_name (Some c_KeyName) true; CR key mb_encrypted_key cls false]
     [AR x_Id mb_id (TN (s2l "ID")) false] [mb_key_name; mb_encrypted_key]
     [(mb_key_name, (Some 0%Z, None))] None [] [] [] [] true.
Definition enckey_row : class_row :=
  KR c_EncryptedKey t_EncKey_2001 [CR t_KeyInfo mb_key_info (Some c_KeyInfo) false]
     [AR x_Id mb_id (TN (s2l "ID")) false] [mb_key_info] [] None [] [] [] [] true.
Definition keyname_row : class_row := KR c_KeyName t_KeyName [] [] [] [] None [] [] [] [] true.

Definition keyinfo_schema_before_fix : schema :=
  [ keyinfo_row c_KeyInfo t_KeyInfo t_EncKey_2000 (Some c_EncryptedKey);       (* xmldsig.KeyInfo: wrong tag key *)
    enckey_row; keyname_row;
    keyinfo_row c_KeyInfoType t_KeyInfoType t_EncKey_2000 None ].              (* xmldsig.KeyInfoType_ (and xmlenc.OriginatorKeyInfo, RecipientKeyInfo): placeholder None *)
Definition keyinfo_schema : schema :=
  [ keyinfo_row c_KeyInfo t_KeyInfo t_EncKey_2001 (Some c_EncryptedKey);
    enckey_row; keyname_row;
    keyinfo_row c_KeyInfoType t_KeyInfoType t_EncKey_2001 (Some c_EncryptedKey) ].

(* KeyInfo(encrypted_key=EncryptedKey(id=EK)) and the same for KeyInfoType_ *)
Definition an_encrypted_key : inst := I c_EncryptedKey [(mb_id, s2l "EK")] None [] [] [].
Definition keyinfo_with_key : inst := I c_KeyInfo [] None [(mb_encrypted_key, an_encrypted_key)] [] [].
Definition keyinfotype_with_key : inst := I c_KeyInfoType [] None [(mb_encrypted_key, an_encrypted_key)] [] [].

(* ---- C12-2: authn_context.sslcert.PublicKeyType_ (inherited unchanged by DigSig,
   AsymmetricDecryption, AsymmetricKeyAgreement): c_attributes['keyValidation'] =
   ('key_validation', 'anyURI', False), __init__(key_validation=urn:...:X509) never stored it.
   After the fix __init__ stores it, which makes it an attribute with a preset value. *)
Definition t_PublicKeyType : N := 120.
Definition x_keyValidation : N := 121.
Definition mb_key_validation : N := 5.
Definition X509_DEFAULT : str := s2l "urn:oasis:names:tc:SAML:2.0:ac:classes:X509".
Definition sslcert_schema_before_fix : schema :=
  [ KR 0 t_PublicKeyType [] [AR x_keyValidation mb_key_validation (TN (s2l "anyURI")) false] [] [] None
       [mb_key_validation] [] [] [] true ].
Definition sslcert_schema : schema :=
  [ KR 0 t_PublicKeyType [] [AR x_keyValidation mb_key_validation (TN (s2l "anyURI")) false] [] [] None
       [] [(mb_key_validation, X509_DEFAULT)] [] [] true ].

(* ---- C12-3: schema.wsdl.TDefinitions_ (inherited by Definitions): the tables named the child
   member 'import' while __init__(import_=None, ...) creates 'import_'.  After the fix the
   tables name 'import_'. *)
Definition t_definitions : N := 130.
Definition t_import : N := 131.
Definition t_types : N := 132.
Definition mb_import : N := 6.          (* 'import'  *)
Definition mb_import_ : N := 7.         (* 'import_' *)
Definition mb_types : N := 8.
Definition wsdl_rows (m_import : N) (missing : list N) : schema :=
  [ KR 0 t_definitions [CR t_import m_import (Some 1) false; CR t_types mb_types (Some 2) false] []
       [m_import; mb_types] [(m_import, (Some 0%Z, Some 1%Z)); (mb_types, (Some 0%Z, Some 1%Z))] None
       missing [] [] [] true;
    KR 1 t_import [] [] [] [] None [] [] [] [] true;
    KR 2 t_types [] [] [] [] None [] [] [] [] true ].
Definition wsdl_schema_before_fix : schema := wsdl_rows mb_import [mb_import].
Definition wsdl_schema : schema := wsdl_rows mb_import_ [].

(* the object cls() of the first class of a schema *)
Definition fresh_first (S : schema) : inst :=
  match S with r :: _ => fresh_inst bf_xsi_nil r | [] => INone end.
