(* Model/C04Kinds.v — the binding / response-kind switches of Entity._parse_response
   (entity.py 1089-1218) and of its public entry points, around the pipeline of
   Model/Response.v:

   - binding -> asynchop (`if binding in [BINDING_SOAP, BINDING_PAOS]: asynchop = False`)
     and Entity.unravel, which knows Redirect / POST / SOAP but raises
     UnknownBinding for PAOS (so parse_authn_request_response(..., BINDING_PAOS)
     — the call parse_ecp_authn_response makes — never returns a response);
   - the other response classes that share StatusResponse._verify:
       AttributeResponse / AuthnQueryResponse (AuthnResponse with context
       AttrQuery / AuthnQuery: `_assertion` skips authn_statement_ok; AuthnQuery's
       condition_ok returns True; constructed by _parse_response with defaults:
       nothing outstanding, nothing required signed, no conv_info),
       LogoutResponse / NameIDMappingResponse / ManageNameIDResponse
       (StatusResponse: loads + verify (AssertionError swallowed -> None ->
       AttributeError in the finally clause); ManageNameID is always asynchop=False;
       StatusResponse has no valid_destination_regex attribute, so a Destination
       on an asynchronous binding raises AttributeError);
   - a long-lived SP: a sequence of parse calls (any kind, any binding, own clock
     value each) on one configuration, as a state-passing fold.

   Outside this model: AuthnQuery responses with other than exactly one
   assertion (parse_assertion skips the count test for that context), <Advice>.
   Definitions only. *)
From PV Require Import Lib.Base Model.Status Model.Response.
Open Scope Z_scope.

Inductive binding := BPost | BRedirect | BSoap | BPaos.

(* Entity._parse_response: asynchop from the binding unless the caller fixed it *)
Definition asynchop_of (b : binding) : bool :=
  match b with BSoap | BPaos => false | BPost | BRedirect => true end.
(* Entity.unravel *)
Definition unravel_known (b : binding) : bool :=
  match b with BPaos => false | _ => true end.

Definition with_asynch (c : cfg) (v : bool) : cfg :=
  {| entity_id := entity_id c; return_addrs := return_addrs c; wrs := wrs c; was := was c; waors := waors c;
     allow_unsolicited := allow_unsolicited c; dest_regex_set := dest_regex_set c; dest_regex_match := dest_regex_match c;
     slack := slack c; now := now c; asynch := v; outstanding := outstanding c; conv_info := conv_info c;
     test_mode := test_mode c |}.

(* Saml2Client.parse_authn_request_response(xmlstr, binding, ...) *)
Definition parse_authn_via (b : binding) (c : cfg) (r : response) : result outcome :=
  if unravel_known b then parse_response (with_asynch c (asynchop_of b)) r else Err (E "UnknownBinding").

(* ---- AttributeResponse / AuthnQueryResponse ---- *)
Inductive qkind := QAttr | QAuthnQuery.

(* what _parse_response hands to response_cls(self.sec, **kwargs) for these kinds:
   entity_id, attribute_converters, timeslack, asynchop, return_addrs — everything else default *)
Definition query_cfg (c : cfg) (asy : bool) : cfg :=
  {| entity_id := entity_id c; return_addrs := return_addrs c; wrs := false; was := false; waors := false;
     allow_unsolicited := false; dest_regex_set := false; dest_regex_match := false;
     slack := slack c; now := now c; asynch := asy; outstanding := []; conv_info := None; test_mode := false |}.

(* context <> AuthnReq: authn_statement_ok is not called (same as one statement without
   SessionNotOnOrAfter); AuthnQuery: condition_ok is `return True` (same as no Conditions) *)
Definition view_assertion (k : qkind) (a : assertion) : assertion :=
  {| a_id := a_id a; a_sig := a_sig a; a_authn := [None];
     a_conditions := match k with QAttr => a_conditions a | QAuthnQuery => None end;
     a_has_subject := a_has_subject a; a_confirmations := a_confirmations a; a_name_id := a_name_id a |}.
Definition query_view (k : qkind) (r : response) : response :=
  {| r_sig := r_sig r; r_valid_instance := r_valid_instance r; r_irt := r_irt r; r_version := r_version r;
     r_ver_lt2 := r_ver_lt2 r; r_destination := r_destination r; r_issue_instant := r_issue_instant r;
     r_status := r_status r;
     r_assertions := map (view_assertion k) (r_assertions r);
     r_encrypted := map (fun e => {| e_opens := e_opens e; e_inner := view_assertion k (e_inner e) |}) (r_encrypted r) |}.

(* parse_attribute_query_response / parse_authn_query_response (response, binding) *)
Definition parse_query (k : qkind) (b : binding) (c : cfg) (r : response) : result outcome :=
  if unravel_known b then parse_response (query_cfg c (asynchop_of b)) (query_view k r) else Err (E "UnknownBinding").

(* ---- LogoutResponse / NameIDMappingResponse / ManageNameIDResponse ---- *)
Inductive skind := SLogout | SNameIdMapping | SManageNameId.
Definition skind_asynch (k : skind) (b : binding) : bool :=
  match k with SManageNameId => false | _ => asynchop_of b end.

(* only the envelope fields of [r] are read (the message has no assertions) *)
Definition parse_status (k : skind) (b : binding) (c : cfg) (r : response) : result unit :=
  if negb (unravel_known b) then Err (E "UnknownBinding") else
  let c' := with_asynch c (skind_asynch k b) in
  (* loads: correctly_signed_message(must = False): unsigned passes, a present signature is checked;
     the forced require_response_signature is not looked at by these signature checks *)
  match (match r_sig r with None => Ok tt | Some res => res end) with
  | Err e => Err e
  | Ok _ =>
      if negb (r_valid_instance r) then Err (E "AttributeError")            (* response cleared: None.version *)
      else if asynch c' && version_is_20 (r_version r) && (match r_destination r with Some _ => true | None => false end)
      then Err (E "AttributeError")                                          (* self.valid_destination_regex *)
      else match parse_tail (status_verify (verify_in_of c' r)) with
           | Err e => Err e
           | Ok _ => Ok tt
           end
  end.

(* ---- every kind behind one switch ---- *)
Inductive kind := KAuthn | KQuery (q : qkind) | KStatus (s : skind).
Definition accepted (k : kind) (b : binding) (c : cfg) (r : response) : bool :=
  match k with
  | KAuthn => is_ok (parse_authn_via b c r)
  | KQuery q => is_ok (parse_query q b c r)
  | KStatus s => is_ok (parse_status s b c r)
  end.

(* ---- a long-lived SP ----
   What persists between calls is the configuration (entity id, signing wishes,
   allowance, ...); every call brings its own clock value, binding, kind, outstanding
   requests, endpoint list and message.  Parsing does not write to the configuration:
   the state is threaded through unchanged — that is the claim the harness checks by
   running shuffled sequences on one Saml2Client. *)
Record call := {
  k_kind : kind; k_binding : binding; k_now : Z;
  k_return_addrs : option (list str); k_dest_regex_match : bool;
  k_outstanding : list (str * str); k_conv_info : option conv;
  k_msg : response
}.
Definition cfg_at (sp : cfg) (k : call) : cfg :=
  {| entity_id := entity_id sp; return_addrs := k_return_addrs k; wrs := wrs sp; was := was sp; waors := waors sp;
     allow_unsolicited := allow_unsolicited sp; dest_regex_set := dest_regex_set sp; dest_regex_match := k_dest_regex_match k;
     slack := slack sp; now := k_now k; asynch := asynch sp; outstanding := k_outstanding k; conv_info := k_conv_info k;
     test_mode := test_mode sp |}.
Definition step (sp : cfg) (k : call) : cfg * bool :=
  (sp, accepted (k_kind k) (k_binding k) (cfg_at sp k) (k_msg k)).
Fixpoint run_history (sp : cfg) (ks : list call) : cfg * list bool :=
  match ks with
  | [] => (sp, [])
  | k :: rest => let '(sp1, ok) := step sp k in
                 let '(sp2, oks) := run_history sp1 rest in (sp2, ok :: oks)
  end.

(* ---- observables ---- *)
Definition show_ok {A} (r : result A) : val := match r with Ok _ => VB true | Err _ => VE (E "rejected") end.
Definition show_authn_via (x : binding * cfg * response) : val :=
  let '(b, c, r) := x in show_accept (parse_authn_via b c r).
Definition show_kind (x : kind * binding * cfg * response) : val :=
  let '(k, b, c, r) := x in if accepted k b c r then VB true else VE (E "rejected").
Definition show_history (x : cfg * list call) : val :=
  VL (map (fun b : bool => if b then VB true else VE (E "rejected")) (snd (run_history (fst x) (snd x)))).
