(* Model/MdSig.v — WHICH ds:Signature the verification of a metadata document
   is about (DESIGN.md 5.1 F15).

   InMemoryMetaData.signed() (mdstore.py) looks at the Signature child of the
   parsed ROOT object; parse_and_check_signature then (repair "metadata
   signature must be the root element's own", proposed_fix/C16-3) asks
   sigver._enveloped_signature_ok(txt, node_name, root.id, id_attr,
   whole_document_ok=True) - md_precheck below - and only then calls
   security.verify_signature(txt, node_name=..., cert_file=cert) with NO
   node_id, i.e. `xmlsec1 --verify --pubkey-cert-pem cert --id-attr:ID <name>`
   without --node-id: the tool (Model/Xmlsec.v, tool_verify with i = None)
   processes the FIRST ds:Signature in document order below the document
   element, and each Reference of it may point at any element with a
   registered ID.  The `_before_fix` definitions are the loader without the
   pre-check.  Documents are the symbolic trees of Model/Xmlsec.v.
   Definitions only. *)
From PV Require Import Lib.Base Model.Xmlsec Model.MdStore.
Open Scope N_scope.

(* InMemoryMetaData.signed(): the root element has a ds:Signature child *)
Definition root_signed (doc : tree) : bool :=
  match doc with
  | El _ _ _ kids => existsb is_sig kids
  | Sg _ _ _ => false
  end.

(* one Reference of the signature at absolute path ps: the URI resolves, and the
   digest is the one of the element it resolves to (enveloped transform applied) *)
Definition ref_ok (doc : tree) (regs : list (str * path)) (ps : path) (ud : str * tree) : bool :=
  match resolve (fst ud) regs with
  | None => false
  | Some pt =>
      match subtree_at pt doc with
      | None => false
      | Some T =>
          let T' := if is_prefix pt ps then remove_at (skipn (List.length pt) ps) T else T in
          tree_eqb (snd ud) T'
      end
  end.

(* the signature at absolute path ps verifies under cert: SignatureValue intact,
   made with that key, at least one Reference, every Reference good *)
Definition sig_verifies (doc : tree) (nm : N) (ps : path) (cert : N) : bool :=
  match subtree_at ps doc with
  | Some (Sg refs key sv) =>
      sv && N.eqb key cert && negb (match refs with [] => true | _ => false end) &&
      forallb (ref_ok doc (registered nm doc []) ps) refs
  | _ => false
  end.

(* all_ids (every element carrying an ID, whatever its name): Model/Xmlsec.v *)

(* sigver._enveloped_signature_ok(..., whole_document_ok=True) about the document
   element: the first ds:Signature in document order of the whole document is a
   direct child of the root and the root's only Signature child; its SignedInfo
   has exactly one Reference, whose URI is "" (the whole document) or "#" + the
   root's ID, that ID non-empty and carried by no other element.  The element
   name is not compared. *)
Definition md_precheck (doc : tree) : bool :=
  match doc with
  | Sg _ _ _ => false
  | El _ i _ kids =>
      match first_sig doc with
      | Some [k] =>
          Nat.eqb (count_sigs kids) 1 &&
          match nth_error kids k with
          | Some (Sg [(u, _)] _ _) =>
              match u with
              | [] => true
              | _ => match i with
                     | Some v => negb (match v with [] => true | _ => false end) && str_eqb u (HASH :: v) &&
                                 Nat.eqb (List.length (with_id v (all_ids doc []))) 1
                     | None => false
                     end
              end
          | _ => false
          end
      | _ => false
      end
  end.

(* the verification of parse_and_check_signature: pre-check, then the tool with
   no --node-id.  A refused pre-check raises SignatureError; the xmlsec1 backend
   raises when the tool does not print OK (C20). *)
Definition md_verdict_prechecked (dupfail : bool) (doc : tree) (nm cert : N) : result bool :=
  if md_precheck doc then
    if tool_verify dupfail doc nm None cert then Ok true else Err SignatureError
  else Err SignatureError.

(* BEFORE the repair: the tool alone *)
Definition md_verdict_before_fix (dupfail : bool) (doc : tree) (nm cert : N) : result bool :=
  if tool_verify dupfail doc nm None cert then Ok true else Err SignatureError.

(* THE PROPERTY'S NOTION of "that signature verifies": a Signature that is a
   child of the root (the one signed() saw) verifies under the configured
   certificate, and one of its References is the root element itself *)
Definition covers_root (regs : list (str * path)) (refs : list (str * tree)) : bool :=
  existsb (fun ud => match resolve (fst ud) regs with Some [] => true | _ => false end) refs.

Definition own_sig_ok_at (doc : tree) (nm cert : N) (k : nat) : bool :=
  match doc with
  | El _ _ _ kids =>
      match nth_error kids k with
      | Some (Sg refs _ _) => sig_verifies doc nm [k] cert && covers_root (registered nm doc []) refs
      | _ => false
      end
  | Sg _ _ _ => false
  end.

Definition own_signature_ok (doc : tree) (nm cert : N) : bool :=
  match doc with
  | El _ _ _ kids => existsb (own_sig_ok_at doc nm cert) (seq 0 (List.length kids))
  | Sg _ _ _ => false
  end.

(* a source whose `signed` flag and verification outcome are those of the
   document with signature layout doc; everything else as in s *)
Definition signed_source_prechecked (s : source) (dupfail : bool) (doc : tree) (nm cert : N) : source :=
  {| s_key := s_key s; s_kind := s_kind s; s_cert := s_cert s; s_check := s_check s; s_http_ok := s_http_ok s;
     s_verdict := md_verdict_prechecked dupfail doc nm cert;
     s_doc := {| d_signed := root_signed doc; d_body := d_body (s_doc s) |} |}.
Definition signed_source_before_fix (s : source) (dupfail : bool) (doc : tree) (nm cert : N) : source :=
  {| s_key := s_key s; s_kind := s_kind s; s_cert := s_cert s; s_check := s_check s; s_http_ok := s_http_ok s;
     s_verdict := md_verdict_before_fix dupfail doc nm cert;
     s_doc := {| d_signed := root_signed doc; d_body := d_body (s_doc s) |} |}.

(* ---------- observable of the correspondence unit `wrapped` ---------- *)
Definition remote_stub (cert : bool) (es : list entity) : source :=
  {| s_key := s2l "http://wrapped.example.org/md"; s_kind := Remote; s_cert := cert; s_check := true; s_http_ok := true;
     s_verdict := Ok true; s_doc := {| d_signed := false; d_body := Many None IvOk es |} |}.

(* (dup policy, document, registered element name, certificate key, certificate configured?) ->
   [signed()?; load registers the source?; the root's own signature verifies?] *)
Definition run_wrapped_prechecked (c : bool * tree * N * N * bool) : val :=
  let '(dupfail, doc, nm, cert, has_cert) := c in
  let s := signed_source_prechecked (remote_stub has_cert []) dupfail doc nm cert in
  VL [VB (root_signed doc);
      VB (match load_source 0 s with Ok _ => true | Err _ => false end);
      VB (own_signature_ok doc nm cert)].
(* the same for the loader before the repair (history; not compared any more) *)
Definition run_wrapped_before_fix (c : bool * tree * N * N * bool) : val :=
  let '(dupfail, doc, nm, cert, has_cert) := c in
  let s := signed_source_before_fix (remote_stub has_cert []) dupfail doc nm cert in
  VL [VB (root_signed doc);
      VB (match load_source 0 s with Ok _ => true | Err _ => false end);
      VB (own_signature_ok doc nm cert)].
