(* Model/CertSelect.v — which certificates a signature is checked under:
   MetaData.certs (mdstore.py 388-428, as repaired by proposed_fix/C03-1: a key
   descriptor without X509Data - kd_certs = [] - contributes nothing) over
   MetadataStore.__getitem__ (first
   source/entity with that id wins), and the selection part of
   SecurityContext._check_signature (sigver.py 1447-1494), composed with the
   per-certificate loop of Model/Sigver.v for a symbolic signature that
   verifies under a certificate iff the certificate holds the signer's key.
   Certificates and keys are identified by numbers (cert n holds key n). *)
From PV Require Import Lib.Base Model.Sigver.
Open Scope N_scope.

Record keydesc := { kd_use : option str; kd_certs : list N }.
Definition role := list keydesc.                 (* one role descriptor's KeyDescriptors, in document order *)
Definition entity := list role.                  (* role descriptors in the order certs(…,'any',…) visits them *)
Definition mdstore := list (str * entity).       (* lookups take the FIRST entry with that entity id *)

Fixpoint find_entity (m : mdstore) (eid : str) : option entity :=
  match m with
  | [] => None
  | (k, e) :: rest => if str_eqb eid k then Some e else find_entity rest eid
  end.

Definition memN (x : N) (l : list N) : bool := existsb (N.eqb x) l.
(* res.append(cert) unless already there *)
Fixpoint add_new (res cs : list N) : list N :=
  match cs with
  | [] => res
  | c :: cs' => if memN c res then add_new res cs' else add_new (res ++ [c]) cs'
  end.

Definition use_matches (use : str) (kd : keydesc) : bool :=
  match kd_use kd with Some u => str_eqb u use | None => true end.

(* extract_certs(srvs) for one role descriptor *)
Fixpoint extract_certs (use : str) (r : role) (res : list N) : list N :=
  match r with
  | [] => res
  | kd :: rest => extract_certs use rest (if use_matches use kd then add_new res (kd_certs kd) else res)
  end.

(* certs(entity_id, 'any', use): None = KeyError (unknown entity) *)
Definition md_certs (m : mdstore) (eid : option str) (use : str) : option (list N) :=
  match eid with
  | None => None
  | Some i => match find_entity m i with
              | None => None
              | Some e => Some (flat_map (fun r => extract_certs use r []) e)
              end
  end.

Definition SIGNING : str := s2l "signing".

Definition nilb {A} (l : list A) : bool := match l with [] => true | _ => false end.

(* certificate selection of _check_signature *)
Definition candidate_certs (metadata_present : bool) (m : mdstore) (issuer : option str)
           (only_md : bool) (embedded : list N) : result (list N) :=
  let from_md := if metadata_present then match md_certs m issuer SIGNING with Some l => l | None => [] end else [] in
  let certs := if nilb from_md && negb only_md then embedded else from_md in
  match certs with [] => Err (s2l "MissingKey") | _ => Ok certs end.

(* the tool run made for one certificate, for a signature produced with key [signer]
   over unmodified content: success iff the certificate holds that key *)
Definition tool_for (signer cert : N) : tool_result :=
  Ran {| signaled := false; p_out := []; p_err := if N.eqb cert signer then s2l "OK" else s2l "FAIL";
         undecodable := false; outfile := [] |}.

Definition check_signature (metadata_present : bool) (m : mdstore) (issuer : option str)
           (only_md : bool) (embedded : list N) (signer : N) : result unit :=
  match candidate_certs metadata_present m issuer only_md embedded with
  | Err e => Err e
  | Ok certs => check_signature_runs false (map (tool_for signer) certs) false true
  end.

(* ---- the code BEFORE proposed_fix/C03-1: key[key_info][x509_data] raised KeyError for a use-matching key
   descriptor without X509Data, anywhere in the entity; _check_signature swallowed it as "no certificates
   from metadata" ---- *)
Definition lacks_x509 (use : str) (e : entity) : bool :=
  existsb (existsb (fun kd => use_matches use kd && nilb (kd_certs kd))) e.
Definition md_certs_before_fix (m : mdstore) (eid : option str) (use : str) : option (list N) :=
  match eid with
  | None => None
  | Some i => match find_entity m i with
              | None => None
              | Some e => if lacks_x509 use e then None else Some (flat_map (fun r => extract_certs use r []) e)
              end
  end.
Definition candidate_certs_before_fix (metadata_present : bool) (m : mdstore) (issuer : option str)
           (only_md : bool) (embedded : list N) : result (list N) :=
  let from_md := if metadata_present then match md_certs_before_fix m issuer SIGNING with Some l => l | None => [] end else [] in
  let certs := if nilb from_md && negb only_md then embedded else from_md in
  match certs with [] => Err (s2l "MissingKey") | _ => Ok certs end.
Definition check_signature_before_fix (metadata_present : bool) (m : mdstore) (issuer : option str)
           (only_md : bool) (embedded : list N) (signer : N) : result unit :=
  match candidate_certs_before_fix metadata_present m issuer only_md embedded with
  | Err e => Err e
  | Ok certs => check_signature_runs false (map (tool_for signer) certs) false true
  end.

Definition show_check (r : result unit) : val := show_result (fun _ => VB true) r.
