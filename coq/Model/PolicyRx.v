(* C07, additions: (1) the metadata lookup the entity-category clause rests on - MetadataStore.entity_attributes /
   entity_categories over an EntityAttributes element with SEVERAL attribute Names; (2) the composition of a restriction
   LIST of regular expressions: each expression is compiled and matched on its own (the engine stays the argument `matches`).
   Definitions only; proofs in Proofs/PolicyRx_lemmas.v. *)
From PV Require Import Lib.Base Model.Policy.

Definition ENTITY_CATEGORY : str := s2l "http://macedir.org/entity-category".
Definition ENTITY_CATEGORY_SUPPORT : str := s2l "http://macedir.org/entity-category-support".

(* the Attribute children of the EntityAttributes extension elements, document order: (Name, values) *)
Definition eattrs := list (str * list str).

(* entity_attributes: res[attr.name] += values, per occurrence; then .get(name, []) *)
Definition md_entity_attribute (name : str) (ea : eattrs) : list str :=
  flat_map (fun e => if str_eqb (fst e) name then snd e else []) ea.

Definition md_entity_categories (ea : eattrs) : list str := md_entity_attribute ENTITY_CATEGORY ea.

(* the view of an SP the policy model works on, from the raw metadata content *)
Definition mdview_of (req : option (list decl * list decl)) (ea : eattrs) : mdview :=
  {| m_req := req; m_ecs := md_entity_categories ea |}.

Definition run_md_ecs (ea : eattrs) : val := VL (map VS (md_entity_categories ea)).

(* the values one restriction list lets through: v stays iff SOME SINGLE expression matches it *)
Definition released_by_list (matches : str -> str -> bool) (rxs vals : list str) : list str :=
  filter (fun v => existsb (fun rx => matches rx v) rxs) vals.
