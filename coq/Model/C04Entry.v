(* Model/C04Entry.v — the OTHER public ways into response verification (response.py):

     response_factory(xmlstr, conf, return_addrs, outstanding_queries, timeslack, decode, request_id, origxml,
                      asynchop, allow_unsolicited, want_assertions_signed)            .verify()
     authn_response(conf, return_addrs, outstanding_queries, timeslack, asynchop, allow_unsolicited,
                    want_assertions_signed)                                            .loads(..).verify()
     attribute_response(conf, return_addrs, timeslack, asynchop, test)                 .loads(..).verify()
     AuthnResponse(sec, attribute_converters, entity_id, return_addrs, outstanding_queries, timeslack, asynchop,
                   allow_unsolicited, test, ..., want_assertions_signed, ...)          .loads(..).verify()
     AttributeResponse / AuthnQueryResponse / ArtifactResponse(sec, attribute_converters, entity_id, return_addrs,
                   timeslack, asynchop, test)                                          .loads(..).verify()
     AuthzResponse(sec, attribute_converters, entity_id, return_addrs, timeslack, asynchop)

   Every constructor is a function from the arguments the caller gave (an argument left out is None and takes the
   default written in the def line) to the flags the object carries; the functions pass theirs on.  `test` is false
   unless the caller names it, and only the constructors that HAVE the parameter can be asked.  A time allowance of
   0 (falsy) makes the three functions read conf.accepted_time_diff; the classes take it as it is.

   Then `.loads(xml, False).verify()` on the object is Model.Response.loads / verify with exactly those flags
   (no forcing of signature requirements, unlike Entity._parse_response), in the context of the class
   (AttrQuery / AuthzQuery / ArtifactResolve skip authn_statement_ok; AuthnQuery also condition_ok: the views of
   Model.C04Kinds).  response_factory loads a plain StatusResponse (no look at the outstanding requests) and moves
   the parsed message into an AuthnResponse with `update`.
   Outside: want_assertions_signed / want_response_signed true (tied only with both false), request_id naming
   another request (verify returns None whatever the time), conv_info, response_factory on a message without
   assertions (returns the StatusResponse or fails on LogoutResponse.assertion).  Definitions only. *)
From PV Require Import Lib.Base Model.Status Model.Response Model.C04Kinds.
Open Scope Z_scope.

(* ---- the flags an object carries ---- *)
Record flags := {
  f_return_addrs : option (list str);
  f_outstanding : list (str * str);
  f_slack : Z;
  f_asynch : bool;
  f_unsol : bool;
  f_was : bool;
  f_test : bool
}.

(* what the SP brings along whatever the call: its entity id and the configured allowance (None: not configured) *)
Record conf := { cf_entity_id : str; cf_time_diff : option Z }.

(* ---- what a caller writes: every optional argument given or left out ---- *)
Record args := {
  a_return_addrs : option (list str);
  a_outstanding : option (list (str * str));
  a_slack : option Z;
  a_asynch : option bool;
  a_unsol : option bool;
  a_was : option bool;
  a_test : option bool          (* only looked at by the constructors that have the parameter *)
}.
Definition dflt {A} (o : option A) (d : A) : A := match o with Some v => v | None => d end.

(* `if outstanding_queries: ... else: {}` *)
Definition AuthnResponse_init (a : args) : flags :=
  {| f_return_addrs := a_return_addrs a; f_outstanding := dflt (a_outstanding a) []; f_slack := dflt (a_slack a) 0;
     f_asynch := dflt (a_asynch a) true; f_unsol := dflt (a_unsol a) false; f_was := dflt (a_was a) false;
     f_test := dflt (a_test a) false |}.

(* AttributeResponse / AuthnQueryResponse / ArtifactResponse: asynchop defaults to False; they hand return_addrs,
   timeslack, asynchop, test to AuthnResponse.__init__ by keyword — nothing outstanding, nothing unsolicited *)
Definition QueryResponse_init (a : args) : flags :=
  AuthnResponse_init {| a_return_addrs := a_return_addrs a; a_outstanding := None; a_slack := Some (dflt (a_slack a) 0);
                        a_asynch := Some (dflt (a_asynch a) false); a_unsol := None; a_was := None;
                        a_test := Some (dflt (a_test a) false) |}.
(* AuthzResponse has no test parameter *)
Definition AuthzResponse_init (a : args) : flags :=
  AuthnResponse_init {| a_return_addrs := a_return_addrs a; a_outstanding := None; a_slack := Some (dflt (a_slack a) 0);
                        a_asynch := Some (dflt (a_asynch a) false); a_unsol := None; a_was := None; a_test := None |}.

(* `if not timeslack: try: timeslack = int(conf.accepted_time_diff) except TypeError: timeslack = 0` *)
Definition conf_slack (cf : conf) (given : option Z) : Z :=
  let t := dflt given 0 in if t =? 0 then dflt (cf_time_diff cf) 0 else t.

Definition authn_response_fn (cf : conf) (a : args) : flags :=
  AuthnResponse_init {| a_return_addrs := a_return_addrs a; a_outstanding := a_outstanding a;
                        a_slack := Some (conf_slack cf (a_slack a)); a_asynch := Some (dflt (a_asynch a) true);
                        a_unsol := Some (dflt (a_unsol a) false); a_was := Some (dflt (a_was a) false); a_test := None |}.
Definition attribute_response_fn (cf : conf) (a : args) : flags :=
  QueryResponse_init {| a_return_addrs := a_return_addrs a; a_outstanding := None;
                        a_slack := Some (conf_slack cf (a_slack a)); a_asynch := Some (dflt (a_asynch a) false);
                        a_unsol := None; a_was := None; a_test := Some (dflt (a_test a) false) |}.
(* the AuthnResponse response_factory builds: positional return_addrs, outstanding_queries, timeslack, asynchop,
   allow_unsolicited; want_assertions_signed by keyword; no test *)
Definition response_factory_fn (cf : conf) (a : args) : flags :=
  AuthnResponse_init {| a_return_addrs := a_return_addrs a; a_outstanding := a_outstanding a;
                        a_slack := Some (conf_slack cf (a_slack a)); a_asynch := Some (dflt (a_asynch a) true);
                        a_unsol := Some (dflt (a_unsol a) false); a_was := Some (dflt (a_was a) false); a_test := None |}.

Inductive entry := EFactory | EAuthnFn | EAttrFn | EAuthnCls | EAttrCls | EAuthnQueryCls | EArtifactCls | EAuthzCls.
Definition flags_of (e : entry) (cf : conf) (a : args) : flags :=
  match e with
  | EFactory => response_factory_fn cf a
  | EAuthnFn => authn_response_fn cf a
  | EAttrFn => attribute_response_fn cf a
  | EAuthnCls => AuthnResponse_init a
  | EAttrCls | EAuthnQueryCls | EArtifactCls => QueryResponse_init a
  | EAuthzCls => AuthzResponse_init a
  end.

(* ---- what the caller MEANT: the flags read off the call, with the documented defaults ---- *)
Definition has_test (e : entry) : bool :=
  match e with EAuthnCls | EAttrCls | EAuthnQueryCls | EArtifactCls | EAttrFn => true | _ => false end.
Definition reads_conf (e : entry) : bool := match e with EFactory | EAuthnFn | EAttrFn => true | _ => false end.
Definition authn_kind (e : entry) : bool := match e with EFactory | EAuthnFn | EAuthnCls => true | _ => false end.
Definition asked (e : entry) (cf : conf) (a : args) : flags :=
  {| f_return_addrs := a_return_addrs a;
     f_outstanding := if authn_kind e then dflt (a_outstanding a) [] else [];
     f_slack := if reads_conf e then conf_slack cf (a_slack a) else dflt (a_slack a) 0;
     f_asynch := dflt (a_asynch a) (authn_kind e);
     f_unsol := if authn_kind e then dflt (a_unsol a) false else false;
     f_was := if authn_kind e then dflt (a_was a) false else false;
     f_test := if has_test e then dflt (a_test a) false else false |}.

(* ---- the object at work ---- *)
Inductive ectx := XAuthn | XAttr | XAuthnQuery | XAuthz | XArtifact.
Definition ctx_of (e : entry) : ectx :=
  match e with
  | EFactory | EAuthnFn | EAuthnCls => XAuthn | EAttrFn | EAttrCls => XAttr
  | EAuthnQueryCls => XAuthnQuery | EArtifactCls => XArtifact | EAuthzCls => XAuthz
  end.
Definition ctx_view (x : ectx) (r : response) : response :=
  match x with
  | XAuthn => r
  | XAuthnQuery => query_view QAuthnQuery r
  | XAttr | XAuthz | XArtifact => query_view QAttr r
  end.

Definition cfg_of (cf : conf) (nowv : Z) (f : flags) : cfg :=
  {| entity_id := cf_entity_id cf; return_addrs := f_return_addrs f; wrs := false; was := f_was f; waors := false;
     allow_unsolicited := f_unsol f; dest_regex_set := false; dest_regex_match := false; slack := f_slack f; now := nowv;
     asynch := f_asynch f; outstanding := f_outstanding f; conv_info := None; test_mode := f_test f |}.

Definition s_init : st := {| came_from := None; not_on_or_after := 0; session_nooa := 0; nid := None; acc := [] |}.

(* obj.loads(xml, False).verify() *)
Definition loads_verify (c : cfg) (r : response) : result (option st) :=
  match loads c (wrs c) r with
  | Err e => Err e
  | Ok s => if negb (r_valid_instance r) then Err (E "AttributeError")        (* response cleared: None.version *)
            else verify c (was c) s r
  end.
(* response_factory(...).verify(): StatusResponse.loads (no requirement, no look at what is outstanding), the
   AuthnResponse gets the parsed message through update() *)
Definition factory_verify (c : cfg) (r : response) : result (option st) :=
  match response_sig_stage false r with
  | Err e => Err e
  | Ok _ => if negb (r_valid_instance r) then Err (E "AttributeError")        (* None.assertion *)
            else match r_assertions r, r_encrypted r with
                 | [], [] => Err (E "NotAnAuthnResponse")                       (* outside: the StatusResponse itself *)
                 | _, _ => verify c (was c) s_init r
                 end
  end.

Definition object_verify (x : ectx) (via_factory : bool) (c : cfg) (r : response) : result (option st) :=
  if via_factory then factory_verify c (ctx_view x r) else loads_verify c (ctx_view x r).

(* the whole call: entry point, the SP's conf, the clock, what the caller wrote, the message *)
Definition entry_verify (e : entry) (cf : conf) (nowv : Z) (a : args) (r : response) : result (option st) :=
  object_verify (ctx_of e) (match e with EFactory => true | _ => false end) (cfg_of cf nowv (flags_of e cf a)) r.

Definition entry_accepts (e : entry) (cf : conf) (nowv : Z) (a : args) (r : response) : bool :=
  match entry_verify e cf nowv a r with Ok (Some _) => true | _ => false end.

(* ---- observable: [came_from, expiry] or rejected (verify returned None / raised) ---- *)
Definition show_entry (x : ectx * bool * cfg * response) : val :=
  let '(k, fac, c, r) := x in
  match object_verify k fac c r with
  | Ok (Some s) => VL [show_option VS (came_from s); VZ (if session_nooa s >? 0 then session_nooa s else not_on_or_after s)]
  | _ => VE (E "rejected")
  end.
