(* Model/IssuerSel.v — WHOSE certificates a signature is checked under.

   1. The issuer-selection step of SecurityContext._check_signature
      (sigver.py 1447-1457):  _issuer = item.issuer.text.strip()  (AttributeError
      -> None);  only when that is None:  _issuer = issuer.text.strip()  for the
      issuer= argument (AttributeError -> None).  The selected name is what
      metadata.certs is asked for (Model/CertSelect.v).
   2. The call sites and the issuer= argument each of them passes:
        correctly_signed_response  -> _check_signature(xml, response, ...)          no argument
        correctly_signed_message   -> _check_signature(xml, msg, ...)               no argument
        AuthnResponse._assertion   -> check_signature(assertion, name, xmlstr)      no argument
        decrypt_assertions(resp.encrypted_assertion, decr_text)                     issuer=None
        decrypt_assertions(a.advice.encrypted_assertion, decr_text, a.issuer)       the ENCLOSING assertion's Issuer
        SecurityContext.check_signature / _check_signature called directly         whatever the caller passes
   3. The signature checks made for one response document, in code order
      (correctly_signed_response, then parse_assertion: plain assertions,
      decrypted assertions, encrypted advice of both), and the entry point
      Entity._parse_response around them with its two retries.
   4. A process: several long-lived clients (each its own metadata and settings)
      and a sequence of operations on them, as a state-passing run.  The state is
      what the code really keeps between calls: the certificate files
      materialised so far (make_temp), which no later call reads. *)
From PV Require Import Lib.Base Model.Sigver Model.CertSelect.
Open Scope N_scope.

(* ---------------------------------------------------------------- str.strip() *)
(* code points c with chr(c).isspace() *)
Definition space_chars : list N :=
  [9; 10; 11; 12; 13; 28; 29; 30; 31; 32; 133; 160; 5760; 8192; 8193; 8194; 8195; 8196; 8197; 8198; 8199; 8200; 8201; 8202;
   8232; 8233; 8239; 8287; 12288].
Definition is_space (c : N) : bool := existsb (N.eqb c) space_chars.
Fixpoint lstrip (s : str) : str :=
  match s with [] => [] | c :: r => if is_space c then lstrip r else s end.
Definition strip (s : str) : str := rev (lstrip (rev (lstrip s))).

(* ---------------------------------------------------------------- issuer selection *)
(* an Issuer as the code sees it: None = no Issuer object (x.issuer is None / issuer=None);
   Some None = an Issuer whose text is None (empty element); Some (Some raw) = its text *)
Definition issuer_elem := option (option str).

(* x.text.strip() under  try ... except AttributeError: None *)
Definition issuer_text (e : issuer_elem) : option str :=
  match e with Some (Some raw) => Some (strip raw) | _ => None end.

(* the element's own Issuer first; the argument only when the element names nobody *)
Definition select_issuer (own arg : issuer_elem) : option str :=
  match issuer_text own with Some i => Some i | None => issuer_text arg end.

(* verification settings of one SecurityContext *)
Record vcfg := { v_mp : bool;          (* bool(self.metadata) *)
                 v_md : mdstore;
                 v_only_md : bool }.   (* only_use_keys_in_metadata *)

(* _check_signature(…, item, …, issuer=arg) for an element with Issuer [own], KeyInfo certificates
   [embedded], signed with key [signer] *)
Definition elem_candidates (c : vcfg) (arg own : issuer_elem) (embedded : list N) : result (list N) :=
  candidate_certs (v_mp c) (v_md c) (select_issuer own arg) (v_only_md c) embedded.

Definition check_elem (c : vcfg) (arg own : issuer_elem) (embedded : list N) (signer : N) : result unit :=
  check_signature (v_mp c) (v_md c) (select_issuer own arg) (v_only_md c) embedded signer.

(* ---------------------------------------------------------------- call sites *)
Inductive site := SiteResponse | SiteMessage | SiteAssertion | SiteEncrypted | SiteAdvice | SiteDirect.

(* the issuer= argument a call site passes, given the enclosing assertion's Issuer (advice loop) and
   the argument of a direct caller *)
Definition site_arg (s : site) (enclosing direct : issuer_elem) : issuer_elem :=
  match s with
  | SiteAdvice => enclosing
  | SiteDirect => direct
  | _ => None
  end.

Definition check_at (c : vcfg) (s : site) (enclosing direct own : issuer_elem) (embedded : list N) (signer : N) : result unit :=
  check_elem c (site_arg s enclosing direct) own embedded signer.

(* ---------------------------------------------------------------- one response document *)
(* an element that may carry a signature: its Issuer and, when signed, (KeyInfo certificates, signer's key) *)
Record selem := { se_issuer : issuer_elem; se_sig : option (list N * N) }.
(* an assertion with the assertions sitting in EncryptedAssertion elements of its Advice *)
Record asrt := { as_elem : selem; as_advice : list selem }.
Record doc := { d_resp : selem;
                d_plain : list asrt;    (* response.assertion *)
                d_enc : list asrt }.    (* assertions inside response.encrypted_assertion, opened with the SP's key *)
Record dcfg := { dc_v : vcfg; dc_wrs : bool }.   (* want_response_signed -> require_response_signature *)

Definition SignatureError : str := s2l "SignatureError".

(* `if x.signature: check_signature(x, …, issuer=arg)`: unsigned elements are passed over here
   (whether a signature is REQUIRED is C02/C04's subject; want_assertions_signed is off) *)
Definition check_selem (c : vcfg) (arg : issuer_elem) (e : selem) : result unit :=
  match se_sig e with
  | None => Ok tt
  | Some (embedded, signer) => check_elem c arg (se_issuer e) embedded signer
  end.

(* for x in l: f(x)  — the first exception ends the loop *)
Fixpoint check_all {A} (f : A -> result unit) (l : list A) : result unit :=
  match l with
  | [] => Ok tt
  | x :: r => match f x with Ok _ => check_all f r | Err e => Err e end
  end.

Definition verify_doc (c : dcfg) (d : doc) : result unit :=
  let v := dc_v c in
  (* correctly_signed_response *)
  match (match se_sig (d_resp d) with
         | None => if dc_wrs c then Err SignatureError else Ok tt
         | Some _ => check_selem v None (d_resp d)
         end) with
  | Err e => Err e
  | Ok _ =>
  (* parse_assertion: _assertion(a, False) for the plain assertions *)
  match check_all (fun a => check_selem v None (as_elem a)) (d_plain d) with
  | Err e => Err e
  | Ok _ =>
  (* decrypt_assertions(resp.encrypted_assertion, decr_text) *)
  match check_all (fun a => check_selem v None (as_elem a)) (d_enc d) with
  | Err e => Err e
  | Ok _ =>
  (* for tmp_ass in decrypted + plain: decrypt_assertions(tmp_ass.advice.encrypted_assertion, decr_text, tmp_ass.issuer) *)
  check_all (fun a => check_all (check_selem v (se_issuer (as_elem a))) (as_advice a)) (d_enc d ++ d_plain d)
  end end end.

(* ---------------------------------------------------------------- the entry point, with its retries *)
(* Entity._parse_response runs each stage first with the signature REQUIREMENT forced on and, when that
   raises and the requirement was not configured, once more without it; a signature that is present is
   checked in both runs.  pc_was: want_assertions_signed.
   (When the second run of parse_assertion happens after the first one got as far as the decrypted
   assertions, the code has already moved the verified advice of the PLAIN assertions out of their
   EncryptedAssertion elements and does not look at it again; the model re-runs those checks, which
   passed in the first run on the same content — same verdict.) *)
Record pcfg := { pc_d : dcfg; pc_was : bool }.

(* correctly_signed_response(…, require_response_signature=req) *)
Definition load_pass (req : bool) (v : vcfg) (r : selem) : result unit :=
  match se_sig r with
  | None => if req then Err SignatureError else Ok tt
  | Some _ => check_selem v None r
  end.

(* `except SigverError`: every error of this stage (SignatureError, MissingKey) is one *)
Definition load_response (c : pcfg) (d : doc) : result unit :=
  let v := dc_v (pc_d c) in
  match load_pass true v (d_resp d) with
  | Ok _ => Ok tt
  | Err e => if dc_wrs (pc_d c) then Err e else load_pass false v (d_resp d)
  end.

(* AuthnResponse._assertion(a, verified), as far as signatures go *)
Definition assertion_step (req : bool) (v : vcfg) (verified : bool) (a : selem) : result unit :=
  match se_sig a with
  | None => if req then Err SignatureError else Ok tt
  | Some _ => if verified then Ok tt else check_selem v None a
  end.

(* find_encrypt_data(response) *)
Definition has_encrypted (d : doc) : bool :=
  negb (nilb (d_enc d)) || existsb (fun a => negb (nilb (as_advice a))) (d_plain d).

(* parse_assertion with self.require_signature = req *)
Definition verify_pass (req : bool) (v : vcfg) (d : doc) : result unit :=
  match check_all (fun a => assertion_step req v false (as_elem a)) (d_plain d) with
  | Err e => Err e
  | Ok _ =>
  if has_encrypted d then
    match check_all (fun a => check_selem v None (as_elem a)) (d_enc d) with
    | Err e => Err e
    | Ok _ =>
    match check_all (fun a => check_all (check_selem v (se_issuer (as_elem a))) (as_advice a)) (d_enc d ++ d_plain d) with
    | Err e => Err e
    | Ok _ => check_all (fun a => assertion_step req v true (as_elem a)) (d_enc d)
    end end
  else Ok tt
  end.

(* `except SignatureError` (MissingKey is not one): retry without the requirement unless it was configured *)
Definition verify_response (c : pcfg) (d : doc) : result unit :=
  let v := dc_v (pc_d c) in
  match verify_pass true v d with
  | Ok _ => Ok tt
  | Err e => if str_eqb e SignatureError && negb (pc_was c) then verify_pass false v d else Err e
  end.

(* parse_authn_request_response, signature-wise *)
Definition parse_doc (c : pcfg) (d : doc) : result unit :=
  match load_response c d with
  | Err e => Err e
  | Ok _ => verify_response c d
  end.

(* ---------------------------------------------------------------- a process: clients and operations *)
Inductive op :=
| OpDoc (client : nat) (d : doc)                                  (* client.parse_authn_request_response(doc) *)
| OpElem (client : nat) (arg : issuer_elem) (e : selem).          (* client.sec.check_signature(e, …, issuer=arg) *)

Definition op_client (o : op) : nat := match o with OpDoc n _ => n | OpElem n _ _ => n end.

(* what one operation yields on ONE client, nothing else being known *)
Definition check_op (cs : list pcfg) (o : op) : result unit :=
  match nth_error cs (op_client o) with
  | None => Err (s2l "IndexError")
  | Some c => match o with
              | OpDoc _ d => parse_doc c d
              | OpElem _ arg e => check_selem (dc_v (pc_d c)) arg e
              end
  end.

(* process state: certificate files written so far — (client, issuer looked up, certificates) *)
Definition hstate := list (nat * option str * list N).

Definition elem_files (c : vcfg) (n : nat) (arg : issuer_elem) (e : selem) : hstate :=
  match se_sig e with
  | None => []
  | Some (embedded, _) =>
      [(n, select_issuer (se_issuer e) arg,
        match elem_candidates c arg (se_issuer e) embedded with Ok l => l | Err _ => [] end)]
  end.

Definition op_files (cs : list pcfg) (o : op) : hstate :=
  match nth_error cs (op_client o) with
  | None => []
  | Some c => match o with
              | OpDoc n d => elem_files (dc_v (pc_d c)) n None (d_resp d)
              | OpElem n arg e => elem_files (dc_v (pc_d c)) n arg e
              end
  end.

Definition step (cs : list pcfg) (st : hstate) (o : op) : hstate * result unit :=
  (st ++ op_files cs o, check_op cs o).

Fixpoint run_ops (cs : list pcfg) (st : hstate) (ops : list op) : hstate * list (result unit) :=
  match ops with
  | [] => (st, [])
  | o :: rest => let '(st1, r) := step cs st o in
                 let '(st2, rs) := run_ops cs st1 rest in (st2, r :: rs)
  end.

(* ---------------------------------------------------------------- observables *)
Definition show_verdict (r : result unit) : val :=
  match r with Ok _ => VB true | Err _ => VE (s2l "rejected") end.
Definition show_verdicts (l : list (result unit)) : val := VL (map show_verdict l).
Definition show_issuer (o : option str) : val := match o with None => VNone | Some s => VS s end.
