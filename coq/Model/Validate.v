(* Model/Validate.v — validate.valid_instance / validate_value_type / valid over
   the schema table rows of Model/Schema.v, with the five verify() overrides of
   saml.py.  The model follows validate.py WITH the repairs proposed_fix/C13-1..3
   (type-name resolution, enumerations whatever the base, valid_domain_name); the
   code as it was before them is kept as the *_before_fix definitions.
   Primitive lexical validators are the parameter [prim : key -> value -> bool]
   (false = the validator raises NotValid); the ones that are plain lexical rules
   (boolean, string kinds, integer kinds, name tokens, language, domain name) are
   defined in Gallina below, duration is Model/Duration.v (time_util.parse_duration,
   line by line), the rest (dateTime, base64Binary, anyURI, IP address) come from a
   sample table.  Definitions only. *)
From PV Require Import Lib.Base Model.Schema Model.Duration.
Open Scope N_scope.

Definition NOT_VALID : str := s2l "NotValid".
Definition MUST_VALUE : str := s2l "MustValueError".
Definition KEY_ERROR : str := s2l "KeyError".
Definition ASSERTION_ERROR : str := s2l "AssertionError".
Definition SHOULD_VALUE : str := s2l "ShouldValueError".
Definition OUTSIDE_CARD : str := s2l "OutsideCardinality".
Definition T_STRING : str := s2l "string".
Definition T_LIST : str := s2l "list".

Definition ok : result unit := Ok tt.
(* the first exception raised by a sequence of checks *)
Fixpoint first_err (l : list (result unit)) : result unit :=
  match l with
  | [] => Ok tt
  | Ok _ :: l' => first_err l'
  | Err e :: _ => Err e
  end.

(* ---- strings *)
Definition is_ws (c : N) : bool := (c =? 32) || ((9 <=? c) && (c <=? 13)) || ((28 <=? c) && (c <=? 31)).
Fixpoint lstrip (s : str) : str := match s with c :: s' => if is_ws c then lstrip s' else s | [] => [] end.
Definition strip (s : str) : str := rev (lstrip (rev (lstrip s))).
Fixpoint split_on (sep : N) (s : str) : list str :=
  match s with
  | [] => [[]]
  | c :: s' => if c =? sep then [] :: split_on sep s'
               else match split_on sep s' with h :: t => (c :: h) :: t | [] => [[c]] end
  end.
(* typ.rsplit(":", 1)[-1] : what follows the last colon *)
Definition local_name (typ : str) : str := last (split_on 58 typ) [].

(* ---- validator_of(typ) (C13-1): no type -> string; VALIDATOR[typ]; VALIDATOR[local
   name]; the first key equal to the local name up to case; else string.  None = the
   KeyError of VALIDATOR["string"] when that key does not exist. *)
Definition find_ci (keys : list str) (low : str) : option str :=
  find (fun k => str_eqb (lower_ascii k) low) keys.
Definition resolve (keys : list str) (typ : str) : option str :=
  let fallback := if mem_str T_STRING keys then Some T_STRING else None in
  match typ with
  | [] => fallback
  | _ =>
      if mem_str typ keys then Some typ
      else let loc := local_name typ in
           if mem_str loc keys then Some loc
           else match find_ci keys (lower_ascii loc) with
                | Some k => Some k
                | None => fallback
                end
  end.

(* valid() before C13-1: VALIDATOR[typ], else strip exactly one "ns:" prefix / "" -> string *)
Definition resolve_before_fix (keys : list str) (typ : str) : option str :=
  if mem_str typ keys then Some typ
  else
    let typ' := match split_on 58 typ with
                | [_; b] => b
                | _ => match typ with [] => T_STRING | _ => typ end
                end in
    if mem_str typ' keys then Some typ' else None.

(* ---- a small regular-expression matcher (Brzozowski derivatives) for the two
   patterns validate.py matches against whole values *)
Inductive re := RNone | REps | RCls (ranges : list (N * N)) | RSeq (a b : re) | RAlt (a b : re) | RStar (a : re).
Fixpoint nullable (r : re) : bool :=
  match r with
  | RNone => false | REps => true | RCls _ => false
  | RSeq a b => nullable a && nullable b
  | RAlt a b => nullable a || nullable b
  | RStar _ => true
  end.
Definition rseq (a b : re) : re :=
  match a, b with
  | RNone, _ => RNone | _, RNone => RNone
  | REps, _ => b | _, REps => a
  | _, _ => RSeq a b
  end.
Definition ralt (a b : re) : re :=
  match a, b with
  | RNone, _ => b | _, RNone => a
  | _, _ => RAlt a b
  end.
Fixpoint deriv (c : N) (r : re) : re :=
  match r with
  | RNone | REps => RNone
  | RCls rs => if existsb (fun p => (fst p <=? c) && (c <=? snd p)) rs then REps else RNone
  | RSeq a b => ralt (rseq (deriv c a) b) (if nullable a then deriv c b else RNone)
  | RAlt a b => ralt (deriv c a) (deriv c b)
  | RStar a => rseq (deriv c a) (RStar a)
  end.
Fixpoint re_match (r : re) (s : str) : bool :=
  match s with [] => nullable r | c :: s' => re_match (deriv c r) s' end.
Definition rplus (a : re) : re := RSeq a (RStar a).
Definition ropt (a : re) : re := RAlt REps a.
Fixpoint rupto (n : nat) (a : re) : re := match n with O => REps | S n' => ropt (RSeq a (rupto n' a)) end.
Fixpoint rrep (n : nat) (a : re) : re := match n with O => REps | S n' => RSeq a (rrep n' a) end.
Definition rrange (m n : nat) (a : re) : re := RSeq (rrep m a) (rupto (n - m) a).
Definition rchar (c : N) : re := RCls [(c, c)].
Fixpoint rlit (s : str) : re := match s with [] => REps | c :: s' => RSeq (rchar c) (rlit s') end.
Definition C_ALPHA : list (N * N) := [(97, 122); (65, 90)].
Definition C_DIGIT : list (N * N) := [(48, 57)].
Definition C_ALNUM : list (N * N) := C_ALPHA ++ C_DIGIT.
Definition C_SEP : list (N * N) := [(45, 46)].                    (* [-.] *)
Definition C_DOT : list (N * N) := [(0, 9); (11, 1114111)].       (* . : anything but a newline *)
(* valid_domain_name (C13-3):  ^[a-zA-Z0-9]+([-.][a-zA-Z0-9]+)*(:[0-9]{1,5})?\Z *)
Definition R_DOMAIN : re :=
  RSeq (rplus (RCls C_ALNUM))
       (RSeq (RStar (RSeq (RCls C_SEP) (rplus (RCls C_ALNUM))))
             (ropt (RSeq (rchar 58) (rrange 1 5 (RCls C_DIGIT))))).
(* before: ^[a-z0-9]+([-.]{ 1 }[a-z0-9]+).[a-z]{2,5}(:[0-9]{1,5})?(\/.)?$ with re.I -
   the braces with blanks are literal text; $ also matches before a final newline *)
Definition R_DOMAIN_before_fix : re :=
  RSeq (rplus (RCls C_ALNUM))
   (RSeq (RSeq (RCls C_SEP) (RSeq (rlit (s2l "{ 1 }")) (rplus (RCls C_ALNUM))))
    (RSeq (RCls C_DOT)
     (RSeq (rrange 2 5 (RCls C_ALPHA))
      (RSeq (ropt (RSeq (rchar 58) (rrange 1 5 (RCls C_DIGIT))))
       (RSeq (ropt (RSeq (rchar 47) (RCls C_DOT))) (ropt (rchar 10))))))).
Definition prim_domain (v : str) : bool := re_match R_DOMAIN v.
Definition prim_domain_before_fix (v : str) : bool := re_match R_DOMAIN_before_fix v.
(* LANGUAGE = [a-zA-Z]{1,8}(-[a-zA-Z0-9]{1,8})*\Z *)
Definition R_LANGUAGE : re :=
  RSeq (rrange 1 8 (RCls C_ALPHA)) (RStar (RSeq (rchar 45) (rrange 1 8 (RCls C_ALNUM)))).

Section Validate.
  Variable prim : str -> str -> bool.
  Variable keys : list str.                  (* validate.VALIDATOR keys *)
  Variable S : schema.
  Variables (NIL : N).                       (* interned xsi:nil *)
  (* members the verify() overrides look at *)
  Variables (M_SUBJECT M_ATTRST M_STATEMENT M_AUTHNST M_AUTHZST M_ONETIME M_PROXY M_DECL M_DECLREF M_ADDRESS M_DNS : N).

  Definition valid (typ value : str) : result unit :=
    match resolve keys typ with
    | None => Err KEY_ERROR
    | Some k => if prim k value then ok else Err NOT_VALID
    end.

  Definition validate_value_type (value : str) (vt : vtype) : result unit :=
    match v_maxlen vt with
    | Some _ => ok                                       (* returns a bool; nothing is raised *)
    | None =>
        match v_enum vt with
        | Some en => if mem_str value en then ok else Err NOT_VALID      (* C13-2: whatever the base *)
        | None =>
            if str_eqb (v_base vt) T_STRING then (if prim T_STRING value then ok else Err NOT_VALID)
            else if str_eqb (v_base vt) T_LIST then
              match v_member vt with
              | None => Err KEY_ERROR
              | Some mt => first_err (map (fun v => valid mt (strip v)) (split_on 44 value))
              end
            else valid (v_base vt) value
        end
    end.

  Definition DEFAULT_SPEC : vtype := VT T_STRING None None None.

  (* `except (NotValid, ValueError)` around the attribute test *)
  Definition attr_wrap (r : result unit) : result unit :=
    match r with
    | Err e => if str_eqb e NOT_VALID || str_eqb e VALUE_ERROR || str_eqb e MUST_VALUE || str_eqb e SHOULD_VALUE
               then Err NOT_VALID else Err e
    | Ok _ => ok
    end.

  Definition truthy (o : option str) : bool := match o with Some (_ :: _) => true | _ => false end.

  Definition attr_check (attrs : list (N * str)) (a : attr_row) : result unit :=
    let value := alookup (a_member a) attrs in
    if a_req a && negb (truthy value) then Err MUST_VALUE
    else match value with
         | Some (c0 :: v') =>
             let v := c0 :: v' in
             attr_wrap
               match a_type a with
               | TC cls => match find_row S cls with
                           | Some rt => validate_value_type v (match k_vtype rt with Some vt => vt | None => DEFAULT_SPEC end)
                           | None => Err MODEL_DOMAIN
                           end
               | TN typ => valid typ v
               | TNone => valid [] v                     (* `if not typ` *)
               end
         | _ => ok
         end.

  Definition text_check (r : class_row) (text : option str) : result unit :=
    match k_vtype r, text with
    | Some vt, Some (c0 :: t') => validate_value_type (strip (c0 :: t')) vt
    | _, _ => ok
    end.

  (* _valid_instance: NotValid / OutsideCardinality of a child are re-raised as NotValid *)
  Definition kid_wrap (r : result unit) : result unit :=
    match r with
    | Err e => if str_eqb e NOT_VALID || str_eqb e OUTSIDE_CARD then Err NOT_VALID else Err e
    | Ok _ => ok
    end.

  Definition nonzero (o : option Z) : bool := match o with Some z => negb (z =? 0)%Z | None => false end.

  Definition child_check (r : class_row) (vkids : list (N * result unit)) (ch : child_row) : result unit :=
    let l := kids_of (c_member ch) vkids in
    let card := alookup (c_member ch) (k_card r) in
    match l with
    | [] => match card with
            | Some (mn, _) => if nonzero mn then Err NOT_VALID else ok      (* too few values *)
            | None => ok
            end
    | _ =>
        let vlen := Z.of_nat (List.length l) in
        first_err
          ((match card with
            | Some (mn, mx) =>
                if match mn with Some m => (vlen <? m)%Z | None => false end then Err NOT_VALID
                else if match mx with Some m => (m <? vlen)%Z | None => false end then Err NOT_VALID
                else ok
            | None => ok
            end) :: map kid_wrap l)
    end.

  Definition vi_node (r : class_row) (attrs : list (N * str)) (text : option str)
             (vkids : list (N * result unit)) : result unit :=
    first_err (text_check r text :: map (attr_check attrs) (k_attrs r) ++ map (child_check r vkids) (k_children r)).

  (* what an overriding verify() does before it calls SamlBase.verify;
     PreStop = it returns without calling it (AttributeValueBase with no text) *)
  Inductive pre := PreOk | PreStop | PreErr (e : str).
  Definition has_kid (vkids : list (N * result unit)) (m : N) : bool :=
    match kids_of m vkids with [] => false | _ => true end.
  Definition V_AVB : str := s2l "saml.AttributeValueBase".
  Definition V_LOCALITY : str := s2l "saml.SubjectLocality".
  Definition V_AUTHNCTX : str := s2l "saml.AuthnContextType_".
  Definition V_CONDITIONS : str := s2l "saml.ConditionsType_".
  Definition V_ASSERTION : str := s2l "saml.AssertionType_".
  Definition P_IPADDR : str := s2l "pv:ipaddress".        (* valid_ipv4(v) or valid_ipv6(v) *)
  Definition P_DOMAIN : str := s2l "pv:domainname".       (* valid_domain_name(v) does not raise *)

  Definition override_pre (r : class_row) (attrs : list (N * str)) (text : option str)
             (vkids : list (N * result unit)) (xattrs : list (N * str)) : pre :=
    let v := k_verify r in
    if str_eqb v [] then PreOk
    else if str_eqb v V_AVB then
      if truthy text then PreOk
      else match xattrs with
           | [] => PreErr ASSERTION_ERROR
           | _ => match alookup NIL xattrs with
                  | None => PreErr KEY_ERROR
                  | Some x => if str_eqb x (s2l "true") then PreStop else PreErr ASSERTION_ERROR
                  end
           end
    else if str_eqb v V_LOCALITY then
      if truthy (alookup M_ADDRESS attrs) then
        match alookup M_ADDRESS attrs with
        | Some a => if prim P_IPADDR a then PreOk else PreErr SHOULD_VALUE
        | None => PreOk end
      else if truthy (alookup M_DNS attrs) then
        match alookup M_DNS attrs with
        | Some d => if prim P_DOMAIN d then PreOk else PreErr VALUE_ERROR
        | None => PreOk end
      else PreOk
    else if str_eqb v V_AUTHNCTX then
      if has_kid vkids M_DECL && has_kid vkids M_DECLREF then PreErr ASSERTION_ERROR else PreOk
    else if str_eqb v V_CONDITIONS then
      if (1 <? List.length (kids_of M_ONETIME vkids))%nat || (1 <? List.length (kids_of M_PROXY vkids))%nat
      then PreErr ASSERTION_ERROR else PreOk
    else if str_eqb v V_ASSERTION then
      let st := has_kid vkids M_ATTRST || has_kid vkids M_STATEMENT || has_kid vkids M_AUTHNST || has_kid vkids M_AUTHZST in
      if negb st && negb (has_kid vkids M_SUBJECT) then PreErr MUST_VALUE
      else if has_kid vkids M_AUTHNST && negb (has_kid vkids M_SUBJECT) then PreErr MUST_VALUE
      else PreOk
    else PreErr MODEL_DOMAIN.

  Definition verify_node (r : class_row) attrs text vkids xattrs : result unit :=
    match override_pre r attrs text vkids xattrs with
    | PreErr e => Err e
    | PreStop => ok
    | PreOk => vi_node r attrs text vkids
    end.

  (* obj.verify() *)
  Fixpoint verify (i : inst) : result unit :=
    match i with
    | INone => Err ATTRIBUTE_ERROR
    | I c attrs text kids xattrs xelems =>
        match find_row S c with
        | None => Err MODEL_DOMAIN
        | Some r => verify_node r attrs text (map (fun p => let '(m, k) := p in (m, verify k)) kids) xattrs
        end
    end.

  (* validate.valid_instance(obj): the root's own verify() override is not involved *)
  Definition valid_instance (i : inst) : result unit :=
    match i with
    | INone => Err ATTRIBUTE_ERROR
    | I c attrs text kids xattrs xelems =>
        match find_row S c with
        | None => Err MODEL_DOMAIN
        | Some r => vi_node r attrs text (map (fun p => let '(m, k) := p in (m, verify k)) kids)
        end
    end.

  (* ---- the code before C13-1 / C13-2 (history; see the _before_fix_refuted theorems) *)
  Definition valid_before_fix (typ value : str) : result unit :=
    match resolve_before_fix keys typ with
    | None => Err KEY_ERROR
    | Some k => if prim k value then ok else Err NOT_VALID
    end.
  Definition validate_value_type_before_fix (value : str) (vt : vtype) : result unit :=
    match v_maxlen vt with
    | Some _ => ok
    | None =>
        if str_eqb (v_base vt) T_STRING then
          match v_enum vt with
          | Some en => if mem_str value en then ok else Err NOT_VALID
          | None => if prim T_STRING value then ok else Err NOT_VALID
          end
        else if str_eqb (v_base vt) T_LIST then
          match v_member vt with
          | None => Err KEY_ERROR
          | Some mt => first_err (map (fun v => valid_before_fix mt (strip v)) (split_on 44 value))
          end
        else valid_before_fix (v_base vt) value
    end.

  (* ---- the statement's two sides as executable predicates (sound for the Prop
     versions in Proofs/Validate_lemmas.v: violatedb_sound, goodb_sound) *)
  Definition value_badb (v : str) (vt : vtype) : bool :=
    match v_maxlen vt with
    | Some _ => false
    | None =>
        match v_enum vt with
        | Some en => negb (mem_str v en)
        | None =>
            if str_eqb (v_base vt) T_STRING then negb (prim T_STRING v)
            else if str_eqb (v_base vt) T_LIST then
              match v_member vt with
              | Some mt => match resolve keys mt with
                           | Some k => existsb (fun part => negb (prim k (strip part))) (split_on 44 v)
                           | None => false end
              | None => false
              end
            else match resolve keys (v_base vt) with Some k => negb (prim k v) | None => false end
        end
    end.
  Definition value_goodb (v : str) (vt : vtype) : bool :=
    match v_maxlen vt with
    | Some _ => true
    | None =>
        match v_enum vt with
        | Some en => mem_str v en
        | None =>
            if str_eqb (v_base vt) T_STRING then prim T_STRING v
            else if str_eqb (v_base vt) T_LIST then
              match v_member vt with
              | Some mt => match resolve keys mt with
                           | Some k => forallb (fun part => prim k (strip part)) (split_on 44 v)
                           | None => false end
              | None => false
              end
            else match resolve keys (v_base vt) with Some k => prim k v | None => false end
        end
    end.
  Definition attr_vtype (a : attr_row) : option (option vtype) :=      (* Some None = a type name *)
    match a_type a with
    | TC cls => match find_row S cls with
                | Some rt => Some (Some (match k_vtype rt with Some vt => vt | None => DEFAULT_SPEC end))
                | None => None end
    | _ => Some None
    end.
  Definition attr_tname (a : attr_row) : str := match a_type a with TN t => t | _ => [] end.
  Definition typed_badb (a : attr_row) (v : str) : bool :=
    match attr_vtype a with
    | Some (Some vt) => value_badb v vt
    | Some None => match resolve keys (attr_tname a) with Some k => negb (prim k v) | None => false end
    | None => false
    end.
  Definition typed_goodb (a : attr_row) (v : str) : bool :=
    match attr_vtype a with
    | Some (Some vt) => value_goodb v vt
    | Some None => match resolve keys (attr_tname a) with Some k => prim k v | None => false end
    | None => false
    end.
  Definition attr_badb (attrs : list (N * str)) (a : attr_row) : bool :=
    (a_req a && negb (truthy (alookup (a_member a) attrs))) ||
    match alookup (a_member a) attrs with Some (c0 :: v') => typed_badb a (c0 :: v') | _ => false end.
  Definition attr_goodb (attrs : list (N * str)) (a : attr_row) : bool :=
    (negb (a_req a) || truthy (alookup (a_member a) attrs)) &&
    match alookup (a_member a) attrs with Some (c0 :: v') => typed_goodb a (c0 :: v') | _ => true end.
  Definition text_badb (r : class_row) (text : option str) : bool :=
    match k_vtype r, text with Some vt, Some (c0 :: t') => value_badb (strip (c0 :: t')) vt | _, _ => false end.
  Definition text_goodb (r : class_row) (text : option str) : bool :=
    match k_vtype r, text with Some vt, Some (c0 :: t') => value_goodb (strip (c0 :: t')) vt | _, _ => true end.
  Definition card_badb (r : class_row) (n : nat) (ch : child_row) : bool :=
    match alookup (c_member ch) (k_card r) with
    | Some (mn, mx) =>
        match n with
        | O => nonzero mn
        | _ => match mn with Some m => (Z.of_nat n <? m)%Z | None => false end ||
               match mx with Some m => (m <? Z.of_nat n)%Z | None => false end
        end
    | None => false
    end.
  Definition node_violationb (r : class_row) (attrs : list (N * str)) (text : option str) (K : list (N * inst)) : bool :=
    existsb (attr_badb attrs) (k_attrs r) || text_badb r text ||
    existsb (fun ch => card_badb r (List.length (kids_of (c_member ch) K)) ch) (k_children r).
  (* some sub-instance reachable through declared child members violates a constraint *)
  Fixpoint has_violation (i : inst) : bool :=
    match i with
    | INone => false
    | I c a t K xa xe =>
        match find_row S c with
        | None => false
        | Some r => node_violationb r a t K ||
                    existsb (fun p => let '(m, k) := p in memN m (child_members r) && has_violation k) K
        end
    end.
  Definition pre_okb (p : pre) : bool := match p with PreErr _ => false | _ => true end.
  Definition oks (K : list (N * inst)) : list (N * result unit) := map (fun p => let '(m, _) := p in (m, ok)) K.
  (* every node satisfies its constraints, all types resolve, override conditions hold *)
  Fixpoint goodb (i : inst) : bool :=
    match i with
    | INone => false
    | I c a t K xa xe =>
        match find_row S c with
        | None => false
        | Some r => forallb (attr_goodb a) (k_attrs r) && text_goodb r t &&
                    forallb (fun ch => negb (card_badb r (List.length (kids_of (c_member ch) K)) ch)) (k_children r) &&
                    pre_okb (override_pre r a t (oks K) xa) &&
                    forallb (fun p => let '(m, k) := p in goodb k) K
        end
    end.
End Validate.

(* ---- primitive validators that are plain lexical rules *)
Definition xml_char (c : N) : bool :=
  (c =? 9) || (c =? 10) || (c =? 13) || ((32 <=? c) && (c <=? 55295)) || ((57344 <=? c) && (c <=? 65533))
  || ((65536 <=? c) && (c <=? 1114111)).
Definition prim_string (v : str) : bool := forallb xml_char v.
Definition prim_boolean (v : str) : bool :=
  mem_str (lower_ascii v) [s2l "true"; s2l "false"; s2l "0"; s2l "1"].
(* int(val): blanks around, a sign, decimal digits with single underscores between them
   (python also takes non-ASCII digits and blanks: the generators stay away from those) *)
Fixpoint digits_us (s : str) (acc : Z) (prev_digit : bool) : option Z :=
  match s with
  | [] => if prev_digit then Some acc else None
  | c :: s' => if is_digit c then digits_us s' (acc * 10 + Z.of_N (c - 48))%Z true
               else if (c =? 95) && prev_digit then digits_us s' acc false
               else None
  end.
Definition parse_int (s : str) : option Z :=
  match strip s with
  | 45 :: d => option_map Z.opp (digits_us d 0%Z false)
  | 43 :: d => digits_us d 0%Z false
  | d => digits_us d 0%Z false
  end.
(* VALIDATOR key -> value space of the integer kind *)
Definition INT_KINDS : list (str * (option Z * option Z)) :=
  [(s2l "integer", (None, None));
   (s2l "nonNegativeInteger", (Some 0, None));
   (s2l "PositiveInteger", (Some 1, None));
   (s2l "unsignedShort", (Some 0, Some 65535));
   (s2l "nonPositiveInteger", (None, Some 0));
   (s2l "negativeInteger", (None, Some (-1)));
   (s2l "long", (Some (-9223372036854775808), Some 9223372036854775807));
   (s2l "int", (Some (-2147483648), Some 2147483647));
   (s2l "short", (Some (-32768), Some 32767));
   (s2l "byte", (Some (-128), Some 127));
   (s2l "unsignedLong", (Some 0, Some 18446744073709551615));
   (s2l "unsignedInt", (Some 0, Some 4294967295));
   (s2l "unsignedByte", (Some 0, Some 255))]%Z.
Fixpoint int_kind (k : str) (l : list (str * (option Z * option Z))) : option (option Z * option Z) :=
  match l with [] => None | (k', r) :: l' => if str_eqb k k' then Some r else int_kind k l' end.
Definition in_range (r : option Z * option Z) (z : Z) : bool :=
  match fst r with Some lo => (lo <=? z)%Z | None => true end &&
  match snd r with Some hi => (z <=? hi)%Z | None => true end.
Definition prim_int (r : option Z * option Z) (v : str) : bool :=
  match parse_int v with Some z => in_range r z | None => false end.
Definition xml_ws (c : N) : bool := (c =? 32) || (c =? 9) || (c =? 13) || (c =? 10).
Definition prim_normalized (v : str) : bool :=
  prim_string v && forallb (fun c => negb ((c =? 9) || (c =? 13) || (c =? 10))) v.
Fixpoint has_double_space (v : str) : bool :=
  match v with 32 :: ((32 :: _) as v') => true | _ :: v' => has_double_space v' | [] => false end.
Definition prim_token (v : str) : bool :=
  prim_normalized v && negb (match v with 32 :: _ => true | _ => false end)
  && negb (match rev v with 32 :: _ => true | _ => false end) && negb (has_double_space v).
Definition prim_nmtoken (v : str) : bool :=
  prim_string v && negb (match v with [] => true | _ => false end) && forallb (fun c => negb (xml_ws c)) v.
Definition prim_nmtokens (v : str) : bool := prim_string v && existsb (fun c => negb (xml_ws c)) v.
Definition prim_language (v : str) : bool := re_match R_LANGUAGE v.
Definition ALWAYS_TRUE : list str := [s2l "ID"; s2l "NCName"; s2l "QName"; s2l "anyType"].
(* prim from a table of (key, value) -> verdict for the validators that are not
   modelled (dateTime, base64Binary, anyURI, ip address) *)
Fixpoint tab_lookup (k v : str) (tab : list (str * str * bool)) : option bool :=
  match tab with
  | [] => None
  | (k', v', b) :: t => if str_eqb k k' && str_eqb v v' then Some b else tab_lookup k v t
  end.
Definition prim_of (tab : list (str * str * bool)) (k v : str) : bool :=
  if str_eqb k (s2l "boolean") then prim_boolean v
  else if str_eqb k T_STRING || str_eqb k (s2l "anySimpleType") then prim_string v
  else if mem_str k ALWAYS_TRUE then true
  else match int_kind k INT_KINDS with
       | Some r => prim_int r v
       | None =>
           if str_eqb k (s2l "normalizedString") then prim_normalized v
           else if str_eqb k (s2l "token") then prim_token v
           else if str_eqb k (s2l "NMTOKEN") then prim_nmtoken v
           else if str_eqb k (s2l "NMTOKENS") then prim_nmtokens v
           else if str_eqb k (s2l "language") then prim_language v
           else if str_eqb k (s2l "pv:domainname") then prim_domain v
           else if str_eqb k (s2l "duration") then prim_duration v       (* Model/Duration.v: time_util.parse_duration does not raise *)
           else match tab_lookup k v tab with
                | Some b => b
                | None => negb (str_eqb k (s2l "pv:ipaddress"))   (* arbitrary text is no address *)
                end
       end.
(* the same with valid_domain_name as it was before C13-3 *)
Definition prim_of_before_fix (tab : list (str * str * bool)) (k v : str) : bool :=
  if str_eqb k (s2l "pv:domainname") then prim_domain_before_fix v else prim_of tab k v.

(* ---- table obligations *)
(* the simple types XML Schema itself defines (local names, lower case) *)
Definition XSD_BUILTIN : list str :=
  map s2l ["string"; "boolean"; "decimal"; "float"; "double"; "duration"; "datetime"; "time"; "date";
           "gyearmonth"; "gyear"; "gmonthday"; "gday"; "gmonth"; "hexbinary"; "base64binary"; "anyuri";
           "qname"; "notation"; "normalizedstring"; "token"; "language"; "nmtoken"; "nmtokens"; "name";
           "ncname"; "id"; "idref"; "idrefs"; "entity"; "entities"; "integer"; "nonpositiveinteger";
           "negativeinteger"; "long"; "int"; "short"; "byte"; "nonnegativeinteger"; "unsignedlong";
           "unsignedint"; "unsignedshort"; "unsignedbyte"; "positiveinteger"; "anysimpletype"; "anytype"]%string.
(* a declared type name resolves, and when it names an XSD built-in type it resolves to
   the validator of THAT type (equal up to case), not to the string fallback *)
Definition type_resolves (keys : list str) (t : str) : bool :=
  match resolve keys t with
  | None => false
  | Some k => let low := lower_ascii (local_name t) in
              if mem_str low XSD_BUILTIN then str_eqb (lower_ascii k) low
              else str_eqb k T_STRING
  end.
(* (class id, xml attribute name) whose declared type name does not resolve that way *)
Definition unresolved_attr_types (keys : list str) (S : schema) : list (N * N) :=
  flat_map (fun r => flat_map (fun a => match a_type a with
                                        | TN t => if type_resolves keys t then [] else [(k_id r, a_xml a)]
                                        | TNone => if type_resolves keys [] then [] else [(k_id r, a_xml a)]
                                        | TC c => match find_row S c with Some _ => [] | None => [(k_id r, a_xml a)] end
                                        end) (k_attrs r)) S.
(* classes whose c_value_type has a base (or list member) that does not resolve *)
Definition unresolved_vtypes (keys : list str) (S : schema) : list N :=
  flat_map (fun r => match k_vtype r with
                     | Some vt => match v_maxlen vt, v_enum vt with
                                  | None, None =>
                                      if str_eqb (v_base vt) T_STRING then []
                                      else if str_eqb (v_base vt) T_LIST then
                                        match v_member vt with Some m => if type_resolves keys m then [] else [k_id r] | None => [k_id r] end
                                      else if type_resolves keys (v_base vt) then [] else [k_id r]
                                  | _, _ => [] end
                     | None => [] end) S.
(* classes that declare an enumeration validate_value_type never tests *)
Definition unenforced_enums (S : schema) : list N :=
  flat_map (fun r => match k_vtype r with
                     | Some vt => match v_enum vt with
                                  | Some _ => if is_some (v_maxlen vt) then [k_id r] else []
                                  | None => [] end
                     | None => [] end) S.
(* the same two lists for the code before the repairs *)
Definition unresolved_attr_types_before_fix (keys : list str) (S : schema) : list (N * N) :=
  flat_map (fun r => flat_map (fun a => match a_type a with
                                        | TN t => match resolve_before_fix keys t with Some _ => [] | None => [(k_id r, a_xml a)] end
                                        | TNone => [(k_id r, a_xml a)]
                                        | TC _ => [] end) (k_attrs r)) S.
Definition unenforced_enums_before_fix (S : schema) : list N :=
  flat_map (fun r => match k_vtype r with
                     | Some vt => match v_enum vt with
                                  | Some _ => if str_eqb (v_base vt) T_STRING && negb (is_some (v_maxlen vt)) then [] else [k_id r]
                                  | None => [] end
                     | None => [] end) S.
Definition KNOWN_VERIFY : list str :=
  [[]; s2l "saml.AttributeValueBase"; s2l "saml.SubjectLocality"; s2l "saml.AuthnContextType_";
   s2l "saml.ConditionsType_"; s2l "saml.AssertionType_"].
Definition unknown_overrides (S : schema) : list N :=
  flat_map (fun r => if mem_str (k_verify r) KNOWN_VERIFY then [] else [k_id r]) S.
(* AttributeValueBase.verify returns early: such classes must declare nothing to check *)
Definition av_rows_plain (S : schema) : bool :=
  forallb (fun r => if str_eqb (k_verify r) (s2l "saml.AttributeValueBase")
                    then match k_attrs r, k_children r with [], [] => true | _, _ => false end else true) S.

Definition show_unit (r : result unit) : val := match r with Ok _ => VB true | Err e => VE e end.
(* the property says "fails", not with which exception class: accepted / raises
   (a model-domain refusal stays visible) *)
Definition RAISES : str := s2l "raises".
Definition show_unit_coarse (r : result unit) : val :=
  match r with Ok _ => VB true | Err e => if str_eqb e MODEL_DOMAIN then VE e else VE RAISES end.
(* 0 = every constraint satisfied (goodb), 1 = a reachable violation, 2 = neither *)
Definition show_spec (good viol : bool) : val := VZ (if viol then 1 else if good then 0 else 2)%Z.
