(* Model/Validate.v — validate.valid_instance / validate_value_type / valid over
   the schema table rows of Model/Schema.v, with the five verify() overrides of
   saml.py.  Primitive lexical validators are the parameter [prim : key -> value
   -> bool] (false = the validator raises NotValid); boolean / string and the
   always-true ones are defined in Gallina below.  Definitions only. *)
From PV Require Import Lib.Base Model.Schema.
Open Scope N_scope.

Definition NOT_VALID : str := s2l "NotValid".
Definition MUST_VALUE : str := s2l "MustValueError".
Definition KEY_ERROR : str := s2l "KeyError".
Definition ASSERTION_ERROR : str := s2l "AssertionError".
Definition SHOULD_VALUE : str := s2l "ShouldValueError".
Definition OUTSIDE_CARD : str := s2l "OutsideCardinality".
Definition T_STRING : str := s2l "string".
Definition T_LIST : str := s2l "list".

Definition ok : result unit := Ok tt.
(* the first exception raised by a sequence of checks *)
Fixpoint first_err (l : list (result unit)) : result unit :=
  match l with
  | [] => Ok tt
  | Ok _ :: l' => first_err l'
  | Err e :: _ => Err e
  end.

(* ---- strings *)
Definition is_ws (c : N) : bool := (c =? 32) || ((9 <=? c) && (c <=? 13)) || ((28 <=? c) && (c <=? 31)).
Fixpoint lstrip (s : str) : str := match s with c :: s' => if is_ws c then lstrip s' else s | [] => [] end.
Definition strip (s : str) : str := rev (lstrip (rev (lstrip s))).
Fixpoint split_on (sep : N) (s : str) : list str :=
  match s with
  | [] => [[]]
  | c :: s' => if c =? sep then [] :: split_on sep s'
               else match split_on sep s' with h :: t => (c :: h) :: t | [] => [[c]] end
  end.

(* ---- valid(typ, value): VALIDATOR[typ], else strip one "ns:" prefix / "" -> string *)
Definition resolve (keys : list str) (typ : str) : option str :=
  if mem_str typ keys then Some typ
  else
    let typ' := match split_on 58 typ with
                | [_; b] => b
                | _ => match typ with [] => T_STRING | _ => typ end
                end in
    if mem_str typ' keys then Some typ' else None.

Section Validate.
  Variable prim : str -> str -> bool.
  Variable keys : list str.                  (* validate.VALIDATOR keys *)
  Variable S : schema.
  Variables (NIL : N).                       (* interned xsi:nil *)
  (* members the verify() overrides look at *)
  Variables (M_SUBJECT M_ATTRST M_STATEMENT M_AUTHNST M_AUTHZST M_ONETIME M_PROXY M_DECL M_DECLREF M_ADDRESS M_DNS : N).

  Definition valid (typ value : str) : result unit :=
    match resolve keys typ with
    | None => Err KEY_ERROR
    | Some k => if prim k value then ok else Err NOT_VALID
    end.

  Definition validate_value_type (value : str) (vt : vtype) : result unit :=
    match v_maxlen vt with
    | Some _ => ok                                       (* returns a bool; nothing is raised *)
    | None =>
        if str_eqb (v_base vt) T_STRING then
          match v_enum vt with
          | Some en => if mem_str value en then ok else Err NOT_VALID
          | None => if prim T_STRING value then ok else Err NOT_VALID
          end
        else if str_eqb (v_base vt) T_LIST then
          match v_member vt with
          | None => Err KEY_ERROR
          | Some mt => first_err (map (fun v => valid mt (strip v)) (split_on 44 value))
          end
        else valid (v_base vt) value
    end.

  Definition DEFAULT_SPEC : vtype := VT T_STRING None None None.

  (* `except (NotValid, ValueError)` around the attribute test *)
  Definition attr_wrap (r : result unit) : result unit :=
    match r with
    | Err e => if str_eqb e NOT_VALID || str_eqb e VALUE_ERROR || str_eqb e MUST_VALUE || str_eqb e SHOULD_VALUE
               then Err NOT_VALID else Err e
    | Ok _ => ok
    end.

  Definition truthy (o : option str) : bool := match o with Some (_ :: _) => true | _ => false end.

  Definition attr_check (attrs : list (N * str)) (a : attr_row) : result unit :=
    let value := alookup (a_member a) attrs in
    if a_req a && negb (truthy value) then Err MUST_VALUE
    else match value with
         | Some (c0 :: v') =>
             let v := c0 :: v' in
             attr_wrap
               match a_type a with
               | TC cls => match find_row S cls with
                           | Some rt => validate_value_type v (match k_vtype rt with Some vt => vt | None => DEFAULT_SPEC end)
                           | None => Err MODEL_DOMAIN
                           end
               | TN typ => valid typ v
               | TNone => Err ATTRIBUTE_ERROR          (* None.split *)
               end
         | _ => ok
         end.

  Definition text_check (r : class_row) (text : option str) : result unit :=
    match k_vtype r, text with
    | Some vt, Some (c0 :: t') => validate_value_type (strip (c0 :: t')) vt
    | _, _ => ok
    end.

  (* _valid_instance: NotValid / OutsideCardinality of a child are re-raised as NotValid *)
  Definition kid_wrap (r : result unit) : result unit :=
    match r with
    | Err e => if str_eqb e NOT_VALID || str_eqb e OUTSIDE_CARD then Err NOT_VALID else Err e
    | Ok _ => ok
    end.

  Definition nonzero (o : option Z) : bool := match o with Some z => negb (z =? 0)%Z | None => false end.

  Definition child_check (r : class_row) (vkids : list (N * result unit)) (ch : child_row) : result unit :=
    let l := kids_of (c_member ch) vkids in
    let card := alookup (c_member ch) (k_card r) in
    match l with
    | [] => match card with
            | Some (mn, _) => if nonzero mn then Err NOT_VALID else ok      (* too few values *)
            | None => ok
            end
    | _ =>
        let vlen := Z.of_nat (List.length l) in
        first_err
          ((match card with
            | Some (mn, mx) =>
                if match mn with Some m => (vlen <? m)%Z | None => false end then Err NOT_VALID
                else if match mx with Some m => (m <? vlen)%Z | None => false end then Err NOT_VALID
                else ok
            | None => ok
            end) :: map kid_wrap l)
    end.

  Definition vi_node (r : class_row) (attrs : list (N * str)) (text : option str)
             (vkids : list (N * result unit)) : result unit :=
    first_err (text_check r text :: map (attr_check attrs) (k_attrs r) ++ map (child_check r vkids) (k_children r)).

  (* what an overriding verify() does before it calls SamlBase.verify;
     None = it returns without calling it (AttributeValueBase with no text) *)
  Inductive pre := PreOk | PreStop | PreErr (e : str).
  Definition has_kid (vkids : list (N * result unit)) (m : N) : bool :=
    match kids_of m vkids with [] => false | _ => true end.
  Definition V_AVB : str := s2l "saml.AttributeValueBase".
  Definition V_LOCALITY : str := s2l "saml.SubjectLocality".
  Definition V_AUTHNCTX : str := s2l "saml.AuthnContextType_".
  Definition V_CONDITIONS : str := s2l "saml.ConditionsType_".
  Definition V_ASSERTION : str := s2l "saml.AssertionType_".
  Definition P_IPADDR : str := s2l "pv:ipaddress".        (* valid_ipv4(v) or valid_ipv6(v) *)
  Definition P_DOMAIN : str := s2l "pv:domainname".       (* valid_domain_name(v) does not raise *)

  Definition override_pre (r : class_row) (attrs : list (N * str)) (text : option str)
             (vkids : list (N * result unit)) (xattrs : list (N * str)) : pre :=
    let v := k_verify r in
    if str_eqb v [] then PreOk
    else if str_eqb v V_AVB then
      if truthy text then PreOk
      else match xattrs with
           | [] => PreErr ASSERTION_ERROR
           | _ => match alookup NIL xattrs with
                  | None => PreErr KEY_ERROR
                  | Some x => if str_eqb x (s2l "true") then PreStop else PreErr ASSERTION_ERROR
                  end
           end
    else if str_eqb v V_LOCALITY then
      if truthy (alookup M_ADDRESS attrs) then
        match alookup M_ADDRESS attrs with
        | Some a => if prim P_IPADDR a then PreOk else PreErr SHOULD_VALUE
        | None => PreOk end
      else if truthy (alookup M_DNS attrs) then
        match alookup M_DNS attrs with
        | Some d => if prim P_DOMAIN d then PreOk else PreErr VALUE_ERROR
        | None => PreOk end
      else PreOk
    else if str_eqb v V_AUTHNCTX then
      if has_kid vkids M_DECL && has_kid vkids M_DECLREF then PreErr ASSERTION_ERROR else PreOk
    else if str_eqb v V_CONDITIONS then
      if (1 <? List.length (kids_of M_ONETIME vkids))%nat || (1 <? List.length (kids_of M_PROXY vkids))%nat
      then PreErr ASSERTION_ERROR else PreOk
    else if str_eqb v V_ASSERTION then
      let st := has_kid vkids M_ATTRST || has_kid vkids M_STATEMENT || has_kid vkids M_AUTHNST || has_kid vkids M_AUTHZST in
      if negb st && negb (has_kid vkids M_SUBJECT) then PreErr MUST_VALUE
      else if has_kid vkids M_AUTHNST && negb (has_kid vkids M_SUBJECT) then PreErr MUST_VALUE
      else PreOk
    else PreErr MODEL_DOMAIN.

  Definition verify_node (r : class_row) attrs text vkids xattrs : result unit :=
    match override_pre r attrs text vkids xattrs with
    | PreErr e => Err e
    | PreStop => ok
    | PreOk => vi_node r attrs text vkids
    end.

  (* obj.verify() *)
  Fixpoint verify (i : inst) : result unit :=
    match i with
    | INone => Err ATTRIBUTE_ERROR
    | I c attrs text kids xattrs xelems =>
        match find_row S c with
        | None => Err MODEL_DOMAIN
        | Some r => verify_node r attrs text (map (fun p => let '(m, k) := p in (m, verify k)) kids) xattrs
        end
    end.

  (* validate.valid_instance(obj): the root's own verify() override is not involved *)
  Definition valid_instance (i : inst) : result unit :=
    match i with
    | INone => Err ATTRIBUTE_ERROR
    | I c attrs text kids xattrs xelems =>
        match find_row S c with
        | None => Err MODEL_DOMAIN
        | Some r => vi_node r attrs text (map (fun p => let '(m, k) := p in (m, verify k)) kids)
        end
    end.
End Validate.

(* ---- primitive validators that are plain lexical rules *)
Definition xml_char (c : N) : bool :=
  (c =? 9) || (c =? 10) || (c =? 13) || ((32 <=? c) && (c <=? 55295)) || ((57344 <=? c) && (c <=? 65533))
  || ((65536 <=? c) && (c <=? 1114111)).
Definition prim_boolean (v : str) : bool :=
  mem_str (lower_ascii v) [s2l "true"; s2l "false"; s2l "0"; s2l "1"].
Definition ALWAYS_TRUE : list str := [s2l "ID"; s2l "NCName"; s2l "QName"; s2l "anyType"; s2l "anyURI"].
(* prim from a table of (key, value) -> verdict for the validators that are not
   modelled (dateTime, duration, integer kinds, base64Binary, ip address, domain name) *)
Fixpoint tab_lookup (k v : str) (tab : list (str * str * bool)) : option bool :=
  match tab with
  | [] => None
  | (k', v', b) :: t => if str_eqb k k' && str_eqb v v' then Some b else tab_lookup k v t
  end.
Definition prim_of (tab : list (str * str * bool)) (k v : str) : bool :=
  if str_eqb k (s2l "boolean") then prim_boolean v
  else if str_eqb k T_STRING then forallb xml_char v
  else if mem_str k ALWAYS_TRUE then true
  else match tab_lookup k v tab with
       | Some b => b
       | None => negb (mem_str k [s2l "pv:ipaddress"; s2l "pv:domainname"])   (* arbitrary text is neither *)
       end.

(* ---- table obligations *)
(* (class id, xml attribute name) whose declared type name valid() cannot resolve *)
Definition unresolved_attr_types (keys : list str) (S : schema) : list (N * N) :=
  flat_map (fun r => flat_map (fun a => match a_type a with
                                        | TN t => match resolve keys t with Some _ => [] | None => [(k_id r, a_xml a)] end
                                        | TNone => [(k_id r, a_xml a)]
                                        | TC _ => [] end) (k_attrs r)) S.
(* classes whose c_value_type has a base valid() cannot resolve (and no enumeration) *)
Definition unresolved_vtypes (keys : list str) (S : schema) : list N :=
  flat_map (fun r => match k_vtype r with
                     | Some vt => match v_maxlen vt, v_enum vt with
                                  | None, None =>
                                      if str_eqb (v_base vt) T_STRING then []
                                      else if str_eqb (v_base vt) T_LIST then
                                        match v_member vt with Some m => match resolve keys m with Some _ => [] | None => [k_id r] end | None => [k_id r] end
                                      else match resolve keys (v_base vt) with Some _ => [] | None => [k_id r] end
                                  | _, _ => [] end
                     | None => [] end) S.
(* classes that declare an enumeration validate_value_type never tests *)
Definition unenforced_enums (S : schema) : list N :=
  flat_map (fun r => match k_vtype r with
                     | Some vt => match v_enum vt with
                                  | Some _ => if str_eqb (v_base vt) T_STRING && negb (is_some (v_maxlen vt)) then [] else [k_id r]
                                  | None => [] end
                     | None => [] end) S.
Definition KNOWN_VERIFY : list str :=
  [[]; s2l "saml.AttributeValueBase"; s2l "saml.SubjectLocality"; s2l "saml.AuthnContextType_";
   s2l "saml.ConditionsType_"; s2l "saml.AssertionType_"].
Definition unknown_overrides (S : schema) : list N :=
  flat_map (fun r => if mem_str (k_verify r) KNOWN_VERIFY then [] else [k_id r]) S.
(* AttributeValueBase.verify returns early: such classes must declare nothing to check *)
Definition av_rows_plain (S : schema) : bool :=
  forallb (fun r => if str_eqb (k_verify r) (s2l "saml.AttributeValueBase")
                    then match k_attrs r, k_children r with [], [] => true | _, _ => false end else true) S.

Definition show_unit (r : result unit) : val := match r with Ok _ => VB true | Err e => VE e end.
