(* Model/Sigver.v — how pysaml2 interprets runs of the external tool
   (sigver.py: parse_xmlsec_output 467-479, CryptoBackendXmlSec1._run_xmlsec
   901-935, validate_signature, sign_statement, encrypt_assertion, decrypt,
   SecurityContext.decrypt_keys 1365-1394, the per-certificate loop of
   _check_signature 1495-1522).  The tool itself is ABSTRACT here: any
   function from the invocation to a [tool_result].  Definitions only. *)
From PV Require Import Lib.Base.
Open Scope N_scope.

(* ---------- str.splitlines() ---------- *)
Definition is_linebreak (c : N) : bool :=
  match c with
  | 10 | 11 | 12 | 13 | 28 | 29 | 30 | 133 | 8232 | 8233 => true
  | _ => false
  end.

(* Python's splitlines: boundaries are removed, "\r\n" is ONE boundary, no
   trailing empty line *)
Fixpoint splitlines_aux (s : str) (cur : str) : list str :=
  match s with
  | [] => match cur with [] => [] | _ => [rev cur] end
  | c :: rest =>
      if is_linebreak c then
        match c, rest with
        | 13, 10 :: rest' => rev cur :: splitlines_aux rest' []
        | _, _ => rev cur :: splitlines_aux rest []
        end
      else splitlines_aux rest (c :: cur)
  end.
Definition splitlines (s : str) : list str := splitlines_aux s [].

Definition OKs : str := s2l "OK".
Definition FAILs : str := s2l "FAIL".
Definition XmlsecError : str := s2l "XmlsecError".

(* for line in lines: 'OK' -> True; 'FAIL' -> raise; end -> raise *)
Fixpoint scan_lines (ls : list str) : bool :=
  match ls with
  | [] => false
  | l :: rest => if str_eqb l OKs then true
                 else if str_eqb l FAILs then false
                 else scan_lines rest
  end.
Definition parse_xmlsec_output (s : str) : result bool :=
  if scan_lines (splitlines s) then Ok true else Err XmlsecError.

(* ---------- one run of the tool ---------- *)
Record tool_out := {
  signaled : bool;          (* Popen.returncode < 0 *)
  p_out : str; p_err : str; (* decoded stdout / stderr *)
  undecodable : bool;       (* stdout or stderr is not valid UTF-8: .decode() raises *)
  outfile : str             (* what is in the --output file afterwards *)
}.
Inductive tool_result := NotStartable | Ran (o : tool_out).

Definition run_xmlsec (validate_output : bool) (r : tool_result) : result (str * str * str) :=
  match r with
  | NotStartable => Err (s2l "OSError")
  | Ran o =>
      if undecodable o then Err (s2l "UnicodeDecodeError")
      else if signaled o then Err XmlsecError
      else if validate_output then
        match parse_xmlsec_output (p_err o) with
        | Err e => Err e
        | Ok _ => Ok (p_out o, p_err o, outfile o)
        end
      else Ok (p_out o, p_err o, outfile o)
  end.

(* the positive verdict pysaml2 needs from a verification run *)
Definition reports_success (r : tool_result) : bool :=
  match r with
  | NotStartable => false
  | Ran o => negb (undecodable o) && negb (signaled o) && scan_lines (splitlines (p_err o))
  end.

Definition validate_signature (r : tool_result) : result bool :=
  match run_xmlsec true r with
  | Err e => Err e
  | Ok (_, err, _) => parse_xmlsec_output err
  end.

(* XmlsecError and its subclasses are swallowed by the certificate loop *)
Definition is_xmlsec_error (e : str) : bool :=
  mem_str e [XmlsecError; s2l "SignatureError"; s2l "DecryptError"; s2l "EncryptError"].

(* _check_signature's loop: one tool run per candidate certificate *)
Fixpoint cert_loop (runs : list tool_result) : result bool :=
  match runs with
  | [] => Ok false
  | r :: rest =>
      match validate_signature r with
      | Ok true => Ok true
      | Ok false => cert_loop rest
      | Err e => if is_xmlsec_error e then cert_loop rest else Err e
      end
  end.

(* [runs] = the tool's behaviour on the invocation made for each candidate
   certificate, in order; [cert_valid] = cert_handler.verify_cert(last file).
   Today's library (sigver.py 1498-1527, after fix 0b54cc6b): no run verified =>
   SignatureError WHATEVER only_valid_cert says (the parameter is still accepted
   and no longer looked at); certificate validation is an additional requirement
   on the certificate that verified, never a substitute *)
Definition check_signature_runs (ncerts_zero : bool) (runs : list tool_result)
           (only_valid_cert cert_valid : bool) : result unit :=
  if ncerts_zero then Err (s2l "MissingKey") else
  match cert_loop runs with
  | Err e => Err e
  | Ok verified =>
      if verified then
        if cert_valid then Ok tt else Err (s2l "CertificateError")
      else Err (s2l "SignatureError")
  end.

(* the same BEFORE fix 0b54cc6b (F16): with only_valid_cert a valid last certificate
   stood in for a signature that verifies under none *)
Definition check_signature_runs_before_fix (ncerts_zero : bool) (runs : list tool_result)
           (only_valid_cert cert_valid : bool) : result unit :=
  if ncerts_zero then Err (s2l "MissingKey") else
  match cert_loop runs with
  | Err e => Err e
  | Ok verified =>
      if verified || only_valid_cert then
        if cert_valid then Ok tt else Err (s2l "CertificateError")
      else Err (s2l "SignatureError")
  end.

(* sign_statement: result only if stdout == '' and the output file is non-empty *)
Definition is_empty (s : str) : bool := match s with [] => true | _ => false end.
Definition sign_statement (r : tool_result) : result str :=
  match run_xmlsec false r with
  | Err e => if str_eqb e (s2l "DecryptError") then Err (s2l "SigverError") else Err e
  | Ok (out, _, signed) =>
      if is_empty out && negb (is_empty signed) then Ok signed else Err (s2l "SigverError")
  end.

Definition encrypt_assertion (r : tool_result) : result str :=
  match run_xmlsec false r with
  | Err e => Err e
  | Ok (_, _, output) => if is_empty output then Err (s2l "EncryptError") else Ok output
  end.

Definition crypto_decrypt (r : tool_result) : result str :=
  match run_xmlsec false r with
  | Err e => Err e
  | Ok (_, _, output) => Ok output
  end.

(* decrypt_keys: try each key in turn (one tool run each); first non-empty
   output wins; otherwise THE INPUT IS RETURNED UNCHANGED *)
Fixpoint decrypt_keys (enctext : str) (runs : list tool_result) : result str :=
  match runs with
  | [] => Ok enctext
  | r :: rest =>
      match crypto_decrypt r with
      | Err e => Err e
      | Ok output => if is_empty output then decrypt_keys enctext rest else Ok output
      end
  end.

(* ---- observables ---- *)
Definition show_str_result (r : result str) : val := show_result VS r.
Definition show_bool_result (r : result bool) : val := show_result VB r.
Definition show_unit_result (r : result unit) : val := show_result (fun _ => VB true) r.
