(* Model/MdStoreLoad.v — MetadataStore.load / imp as state-passing operations
   (mdstore.py: MetadataStore.load, MetadataStore.imp, InMemoryMetaData.parse_and_check_signature).
   A store is Python's dict  key -> source  in insertion order; a source is
   identified by the document it was parsed from (a number: the harness keeps
   the table of documents).  One load:
     _md = Loader(...)            a NEW source object
     _md.load()                   parse into _md; if a certificate is configured
                                  and the document is signed: verify_signature
                                  (one tool run) - anything but success raises
     self.metadata[key] = _md     register (only reached when nothing raised)
   The application catches the exception and goes on using the store. *)
From PV Require Import Lib.Base.
From PV Require Export Model.Sigver.
Open Scope N_scope.

Definition store := list (N * N).            (* key, document *)

(* dict assignment: an existing key keeps its position, a new key is appended *)
Fixpoint set_key (k d : N) (s : store) : store :=
  match s with
  | [] => [(k, d)]
  | (k', d') :: rest => if N.eqb k k' then (k, d) :: rest else (k', d') :: set_key k d rest
  end.

(* parse_and_check_signature after the parse: [signed] = the root element
   carries a Signature, [has_cert] = cert= was given for the source *)
Definition check_source (signed has_cert : bool) (r : tool_result) : result bool :=
  if has_cert then
    if signed then
      match validate_signature r with
      | Ok true => Ok true
      | Ok false => Err (s2l "SignatureError")
      | Err e => Err e
      end
    else Ok true
  else Ok true.

(* one operation: key, document, signed, has_cert, the tool's behaviour on the
   (at most one) invocation *)
Definition op := (N * N * bool * bool * tool_result)%type.
Definition op_key (o : op) : N := match o with (k, _, _, _, _) => k end.
Definition op_doc (o : op) : N := match o with (_, d, _, _, _) => d end.
Definition op_check (o : op) : result bool :=
  match o with (_, _, signed, has_cert, r) => check_source signed has_cert r end.
Definition op_must_verify (o : op) : bool := match o with (_, _, signed, has_cert, _) => signed && has_cert end.
Definition op_tool (o : op) : tool_result := match o with (_, _, _, _, r) => r end.

Definition load (o : op) (s : store) : store * result unit :=
  match op_check o with
  | Ok _ => (set_key (op_key o) (op_doc o) s, Ok tt)
  | Err e => (s, Err e)
  end.

(* NOT the library: registering before the check (what the property excludes) *)
Definition load_register_first (o : op) (s : store) : store * result unit :=
  let s' := set_key (op_key o) (op_doc o) s in
  match op_check o with
  | Ok _ => (s', Ok tt)
  | Err e => (s', Err e)
  end.

(* a history: every exception is caught by the application *)
Fixpoint run_history (ops : list op) (s : store) : store :=
  match ops with
  | [] => s
  | o :: rest => run_history rest (fst (load o s))
  end.
Fixpoint run_history_register_first (ops : list op) (s : store) : store :=
  match ops with
  | [] => s
  | o :: rest => run_history_register_first rest (fst (load_register_first o s))
  end.

Definition op_succeeds (o : op) : bool := is_ok (op_check o).

Definition show_store (s : store) : val :=
  VL (map (fun kd => VL [VZ (Z.of_N (fst kd)); VZ (Z.of_N (snd kd))]) s).
