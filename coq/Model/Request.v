(* Model/Request.v — how an IdP / AA / SP built on the library takes in a SAML
   request: Entity._parse_request (entity.py 804-861: receiver addresses incl.
   the aa/aq/pdp fallback, timeslack, unravel, must / only_valid_cert, loads,
   verify), Entity.unravel (entity.py 367-398) per binding, the SOAP envelope
   reader soap.parse_soap_enveloped_saml_thingy (soap.py 129-158),
   Request._loads / loads / _verify / verify / issue_instant_ok (request.py),
   SecurityContext.correctly_signed_message and _check_signature (sigver.py
   1447-1577) over the certificate selection of Model/CertSelect.v and the
   symbolic signed documents + tool semantics of Model/Xmlsec.v, and
   Config.endpoint / Config.getattr (config.py 254-261, 422-447).

   Two switches name code states:
     [pre]  : the enveloping pre-check in _check_signature (the C01 repair,
              sigver._enveloped_signature_ok) is present;
     [fixd] : the last step of _check_signature requires a verified signature
              whatever only_valid_cert says (the F16 repair, proposed_fix/C10-1).
   Definitions and show_* observables only. *)
From PV Require Import Lib.Base Model.Sigver Model.CertSelect Model.Xmlsec.
Open Scope N_scope.

(* ------------------------------------------------------------------ *)
(* the request kinds = rows of the documented entry-point table         *)
(* ------------------------------------------------------------------ *)
Inductive kind := KAuthn | KLogout | KAttrQ | KAuthnQ | KAuthz | KAidr | KNim | KMni.

Definition all_kinds : list kind := [KAuthn; KLogout; KAttrQ; KAuthnQ; KAuthz; KAidr; KNim; KMni].

(* the number the harness gives the element name {urn:oasis:names:tc:SAML:2.0:protocol}<tag> in symbolic documents *)
Definition kind_name (k : kind) : N :=
  match k with
  | KAuthn => 1 | KLogout => 2 | KAttrQ => 3 | KAuthnQ => 4 | KAuthz => 5 | KAidr => 6 | KNim => 7 | KMni => 8
  end.

Definition kind_tag (k : kind) : str :=
  match k with
  | KAuthn => s2l "AuthnRequest" | KLogout => s2l "LogoutRequest" | KAttrQ => s2l "AttributeQuery"
  | KAuthnQ => s2l "AuthnQuery" | KAuthz => s2l "AuthzDecisionQuery" | KAidr => s2l "AssertionIDRequest"
  | KNim => s2l "NameIDMappingRequest" | KMni => s2l "ManageNameIDRequest"
  end.

(* the public entry point that takes requests of this kind *)
Definition kind_method (k : kind) : str :=
  match k with
  | KAuthn => s2l "Server.parse_authn_request" | KLogout => s2l "Entity.parse_logout_request"
  | KAttrQ => s2l "Server.parse_attribute_query" | KAuthnQ => s2l "Server.parse_authn_query"
  | KAuthz => s2l "Server.parse_authz_decision_query" | KAidr => s2l "Server.parse_assertion_id_request"
  | KNim => s2l "Server.parse_name_id_mapping_request" | KMni => s2l "Entity.parse_manage_name_id_request"
  end.

Definition kind_class (k : kind) : str :=
  match k with
  | KAuthn => s2l "AuthnRequest" | KLogout => s2l "LogoutRequest" | KAttrQ => s2l "AttributeQuery"
  | KAuthnQ => s2l "AuthnQuery" | KAuthz => s2l "AuthzDecisionQuery" | KAidr => s2l "AssertionIDRequest"
  | KNim => s2l "NameIDMappingRequest" | KMni => s2l "ManageNameIDRequest"
  end.

Definition kind_msgtype (k : kind) : str :=
  match k with
  | KAuthn => s2l "authn_request" | KLogout => s2l "logout_request" | KAttrQ => s2l "attribute_query"
  | KAuthnQ => s2l "authn_query" | KAuthz => s2l "authz_decision_query" | KAidr => s2l "assertion_id_request"
  | KNim => s2l "name_id_mapping_request" | KMni => s2l "manage_name_id_request"
  end.

Definition kind_service (k : kind) : str :=
  match k with
  | KAuthn => s2l "single_sign_on_service" | KLogout => s2l "single_logout_service"
  | KAttrQ => s2l "attribute_service" | KAuthnQ => s2l "authn_query_service"
  | KAuthz => s2l "authz_service" | KAidr => s2l "assertion_id_request_service"
  | KNim => s2l "name_id_mapping_service" | KMni => s2l "manage_name_id_service"
  end.

(* soap.parse_soap_enveloped_saml_<msgtype> exists (it does not for authz_decision_query) *)
Definition kind_soap (k : kind) : bool := match k with KAuthz => false | _ => true end.

(* the steps of the pipeline that a request class could define for itself (request.py): every Request subclass
   INHERITS all of them from Request - there is one _loads, one _verify, one issue_instant_ok for all kinds.
   Recorded from the method resolution of each class on every run (last column of the table). *)
Definition kind_overrides (k : kind) : list str := [].

(* one row of the table as the translator records it from the code:
   (method, request class, msgtype of the class, service, msgtype handed to
    correctly_signed_message, text and must passed through,
    root tags <msgtype>_from_string accepts, SOAP reader exists, root tags the SOAP reader accepts,
    which of _loads / loads / _verify / verify / issue_instant_ok the class does NOT take from Request) *)
Definition row := (str * str * str * str * str * bool * list str * bool * list str * list str)%type.
Definition documented_row (k : kind) : row :=
  (kind_method k, kind_class k, kind_msgtype k, kind_service k, kind_msgtype k, true,
   [kind_tag k], kind_soap k, if kind_soap k then [kind_tag k] else [], kind_overrides k).
Definition documented_table : list row := map documented_row all_kinds.

Definition bool_eqb (a b : bool) : bool := Bool.eqb a b.
Fixpoint strs_eqb (a b : list str) : bool :=
  match a, b with
  | [], [] => true
  | x :: a', y :: b' => str_eqb x y && strs_eqb a' b'
  | _, _ => false
  end.
Definition row_eqb (a b : row) : bool :=
  match a, b with
  | (m1, c1, t1, s1, g1, p1, r1, e1, q1, o1), (m2, c2, t2, s2, g2, p2, r2, e2, q2, o2) =>
      str_eqb m1 m2 && str_eqb c1 c2 && str_eqb t1 t2 && str_eqb s1 s2 && str_eqb g1 g2 &&
      bool_eqb p1 p2 && strs_eqb r1 r2 && bool_eqb e1 e2 && strs_eqb q1 q2 && strs_eqb o1 o2
  end.
Fixpoint rows_eqb (a b : list row) : bool :=
  match a, b with
  | [], [] => true
  | x :: a', y :: b' => row_eqb x y && rows_eqb a' b'
  | _, _ => false
  end.

(* ------------------------------------------------------------------ *)
(* configuration of the receiving entity                               *)
(* ------------------------------------------------------------------ *)
Inductive ctx := CIdp | CSp | CAa | CAq | CPdp.
Definition ctx_eqb (a b : ctx) : bool :=
  match a, b with
  | CIdp, CIdp | CSp, CSp | CAa, CAa | CAq, CAq | CPdp, CPdp => true
  | _, _ => false
  end.

Inductive binding := BRedirect | BPost | BSoap | BUri | BArtifact | BNone | BUnknown.
Definition binding_uri (b : binding) : option str :=
  match b with
  | BRedirect => Some (s2l "urn:oasis:names:tc:SAML:2.0:bindings:HTTP-Redirect")
  | BPost => Some (s2l "urn:oasis:names:tc:SAML:2.0:bindings:HTTP-POST")
  | BSoap => Some (s2l "urn:oasis:names:tc:SAML:2.0:bindings:SOAP")
  | BUri => Some (s2l "urn:oasis:names:tc:SAML:2.0:bindings:URI")
  | BArtifact => Some (s2l "urn:oasis:names:tc:SAML:2.0:bindings:HTTP-Artifact")
  | BNone | BUnknown => None
  end.

(* one endpoint specification of the configuration: a (url, binding) pair, or
   something that does not unpack into two values — a bare URL string
   (EPodd (Some url)) or another object such as a triple (EPodd None) *)
Inductive epspec := EP (url bnd : str) | EPodd (u : option str).
(* an element of receiver_addrs: a string, or an object no Destination equals *)
Definition addr := option str.

Record rcfg := {
  c_etype : ctx;                                      (* Entity.entity_type *)
  c_endpoints : list (ctx * list (str * list epspec));(* config.getattr("endpoints", ctx) per context that has one *)
  c_want_signed : bool;        (* truthiness of config.getattr("want_authn_requests_signed", entity_type) — the option in the
                                  section of the entity's own type (proposed_fix/C10-2; before it: always the "idp" section) *)
  c_only_valid_cert : bool;    (* truthiness of config.getattr("want_authn_requests_only_with_valid_cert", entity_type) *)
  c_slack : Z;                 (* accepted_time_diff, 0 when unset *)
  c_now : Z;
  c_md_present : bool; c_md : mdstore; c_only_md : bool;  (* sec.metadata, only_use_keys_in_metadata *)
  c_valid_certs : option (list N);   (* None: validate_certificate is off (verify_cert always True);
                                        Some l: the certificates verify_cert accepts *)
  c_dupfail : bool             (* tool parameter: duplicate registered IDs are refused (true) / first wins (false) *)
}.

Fixpoint lookup_ctx (x : ctx) (l : list (ctx * list (str * list epspec))) : option (list (str * list epspec)) :=
  match l with
  | [] => None
  | (y, v) :: r => if ctx_eqb x y then Some v else lookup_ctx x r
  end.
Fixpoint lookup_service (s : str) (l : list (str * list epspec)) : option (list epspec) :=
  match l with
  | [] => None
  | (k, v) :: r => if str_eqb s k then Some v else lookup_service s r
  end.

Definition binding_matches (b : binding) (bnd : str) : bool :=
  match b with
  | BNone => true                                            (* binding is None: every endpoint *)
  | _ => match binding_uri b with Some u => str_eqb bnd u | None => false end
  end.

(* Config.endpoint(service, binding, context): the matching (url, binding) pairs, or — when there is none — the odd specs *)
Definition endpoint (c : rcfg) (service : str) (b : binding) (x : ctx) : list addr :=
  match lookup_ctx x (c_endpoints c) with
  | None => []
  | Some endps =>
      match lookup_service service endps with
      | None => []
      | Some specs =>
          let spec := flat_map (fun e => match e with EP u bnd => if binding_matches b bnd then [Some u] else [] | EPodd _ => [] end) specs in
          let unspec := flat_map (fun e => match e with EP _ _ => [] | EPodd u => [u] end) specs in
          match spec with [] => unspec | _ => spec end
      end
  end.

Definition is_idp (x : ctx) : bool := match x with CIdp => true | _ => false end.

(* the addresses I should receive messages like this on *)
Definition receiver_addrs (c : rcfg) (service : str) (b : binding) : list addr :=
  let r := endpoint c service b (c_etype c) in
  if nilb r && is_idp (c_etype c) then
    let r1 := endpoint c service b CAa in
    if negb (nilb r1) then r1 else
    let r2 := endpoint c service b CAq in
    if negb (nilb r2) then r2 else endpoint c service b CPdp
  else r.

Definition addr_mem (d : str) (l : list addr) : bool :=
  existsb (fun a => match a with Some u => str_eqb d u | None => false end) l.

(* ------------------------------------------------------------------ *)
(* the message                                                          *)
(* ------------------------------------------------------------------ *)
(* kind-specific optional content of the root element (everything but ID / Version / IssueInstant / Destination /
   Issuer / Signature): the path of an optional attribute or child below the root, and - when it is an xs:dateTime
   (LogoutRequest/@NotOnOrAfter, Conditions/@NotBefore, SubjectConfirmationData/@NotOnOrAfter ...) - its value in
   seconds.  No step of the pipeline reads it (Props/C10.v: C10_blind_to_optional_content). *)
Definition optattr := (str * option Z)%type.

(* a well-formed XML document whose root is [d_tree]; the fields are what
   <msgtype>_from_string + valid_instance make of the ROOT element *)
Record reqdoc := {
  d_tree : tree;                 (* symbolic twin (Model/Xmlsec.v): element names, IDs, payloads, signatures *)
  d_version : option str;        (* Version attribute *)
  d_destination : option str;    (* Destination attribute *)
  d_issue_instant : option Z;    (* IssueInstant in seconds; None: absent / not a dateTime (then valid_instance fails) *)
  d_valid : bool;                (* valid_instance(message) passes *)
  d_issuer : option str;         (* message.issuer.text.strip(); None when there is no issuer text *)
  d_embedded : list N;           (* certificates in the KeyInfo of the root's Signature child (cert_from_instance) *)
  d_opts : list optattr          (* the kind-specific optional attributes / children the message carries *)
}.

Inductive xmltext := NotXml | Xml (d : reqdoc).

(* what is inside a SOAP text *)
Inductive soapwire :=
| SoapNotXml                      (* fromstring raises *)
| SoapNotEnvelope                 (* root is not soapenv:Envelope, or it has no children: assert *)
| SoapNoBody                      (* children but no Body: the reader returns "" *)
| SoapBodyKids                    (* Body with 0 or >= 2 children: assert *)
| SoapPart (d : reqdoc).          (* Body with exactly one child *)

(* the received text, classified by what the transport decoder of the binding does with it *)
Inductive wire :=
| WFail                           (* base64 / inflate raises on it *)
| WText (x : xmltext)             (* base64 (+ inflate) yields x; for URI / no binding: the text itself *)
| WSoap (s : soapwire).           (* the text as a SOAP reader sees it *)

Definition E (s : string) : str := s2l s.

Definition root_name (t : tree) : option N := match t with El n _ _ _ => Some n | Sg _ _ _ => None end.
Definition root_id (t : tree) : option str := match t with El _ i _ _ => i | Sg _ _ _ => None end.
Definition root_kids (t : tree) : list tree := match t with El _ _ _ kids => kids | Sg _ _ _ => [] end.
(* message.signature: a ds:Signature direct child of the root *)
Definition root_signed (t : tree) : bool := existsb is_sig (root_kids t).

(* Entity.unravel *)
Definition unravel (k : kind) (b : binding) (w : wire) : result xmltext :=
  match b with
  | BUnknown => Err (E "UnknownBinding")
  | BRedirect | BPost | BArtifact =>
      match w with WText x => Ok x | _ => Err (E "UnravelError") end
  | BUri | BNone =>
      match w with WText x => Ok x | _ => Ok NotXml end    (* the text is handed on as it is (the harness only sends WText here) *)
  | BSoap =>
      if negb (kind_soap k) then Err (E "UnravelError") else     (* getattr(soap, …) raises AttributeError *)
      match w with
      | WSoap (SoapPart d) =>
          match root_name (d_tree d) with
          | Some n => if N.eqb n (kind_name k) then Ok (Xml d) else Err (E "UnravelError")   (* WrongMessageType *)
          | None => Err (E "UnravelError")
          end
      | WSoap SoapNoBody => Ok NotXml                             (* "" *)
      | _ => Err (E "UnravelError")
      end
  end.

(* --node-id is passed only when item.id is truthy *)
Definition node_id_arg (i : option str) : option str :=
  match i with Some [] => None | x => x end.

(* the C01 repair: _enveloped_signature_ok(decoded_xml, node_name, node_id) = Model/Xmlsec.v precheck (which counts the
   carriers of the ID among the elements of ANY name, as the library does) *)
Definition enveloped_ok (doc : tree) (nm : N) (i : option str) : bool := precheck doc nm i.

Definition cert_ok (c : rcfg) (k : N) : bool :=
  match c_valid_certs c with None => true | Some l => memN k l end.

Definition verifying_cert (c : rcfg) (doc : tree) (nm : N) (i : option str) (certs : list N) : option N :=
  find (tool_verify (c_dupfail c) doc nm (node_id_arg i)) certs.

Definition request_certs (c : rcfg) (d : reqdoc) : result (list N) :=
  candidate_certs (c_md_present c) (c_md c) (d_issuer d) (c_only_md c) (d_embedded d).

(* SecurityContext._check_signature(decoded_xml, msg, class_name(msg), …, only_valid_cert) *)
Definition check_sig (pre fixd : bool) (c : rcfg) (d : reqdoc) (nm : N) (ovc : bool) : result unit :=
  match request_certs c d with
  | Err e => Err e                                                  (* MissingKey *)
  | Ok certs =>
      let i := root_id (d_tree d) in
      if pre && negb (enveloped_ok (d_tree d) nm i) then Err (E "SignatureError") else
      let v := verifying_cert c (d_tree d) nm i certs in
      if fixd then
        match v with
        | None => Err (E "SignatureError")
        | Some k => if cert_ok c k then Ok tt else Err (E "CertificateError")
        end
      else
        let last_tried := match v with Some k => Some k | None => last (map Some certs) None end in
        if (match v with Some _ => true | None => false end) || ovc then
          if (match last_tried with Some k => cert_ok c k | None => true end) then Ok tt
          else Err (E "CertificateError")
        else Err (E "SignatureError")
  end.

(* SecurityContext.correctly_signed_message(decoded_xml, msgtype, must, origdoc, only_valid_cert) *)
Definition correctly_signed_message (pre fixd : bool) (c : rcfg) (k : kind) (must ovc : bool) (x : xmltext)
  : result reqdoc :=
  match x with
  | NotXml => Err (E "ParseError")
  | Xml d =>
      match root_name (d_tree d) with
      | None => Err (E "TypeError")
      | Some n =>
          if negb (N.eqb n (kind_name k)) then Err (E "TypeError")     (* <msgtype>_from_string returns None *)
          else if negb (root_signed (d_tree d)) then
            if must then Err (E "SignatureError") else Ok d
          else
            match check_sig pre fixd c d n ovc with
            | Err e => Err e
            | Ok _ => Ok d
            end
      end
  end.

(* Request._loads: TypeError propagates, every other exception of the signature check ends in IncorrectlySigned *)
Definition loads (pre fixd : bool) (c : rcfg) (k : kind) (must ovc : bool) (x : xmltext) : result reqdoc :=
  match correctly_signed_message pre fixd c k must ovc x with
  | Err e => if str_eqb e (E "TypeError") then Err e else Err (E "IncorrectlySigned")
  | Ok d => if d_valid d then Ok d else Err (E "NotValid")
  end.

Definition V20 : str := s2l "2.0".
Definition truthy (s : option str) : bool := match s with Some (_ :: _) => true | _ => false end.

(* issue_instant_ok: lower < issued_at < upper on time tuples; the bounds come
   from datetime.timetuple() (tm_isdst = -1), issued_at from time.gmtime
   (tm_isdst = 0): equality with the lower bound compares as inside *)
Definition issue_instant_ok (c : rcfg) (t : Z) : bool :=
  ((c_now c - 86400 - c_slack c <=? t) && (t <? c_now c + 86400 + c_slack c))%Z.

(* Request.verify: AssertionError -> None *)
Definition verify (c : rcfg) (addrs : list addr) (d : reqdoc) : result (option reqdoc) :=
  if negb (match d_version d with Some v => str_eqb v V20 | None => false end) then Ok None
  else if truthy (d_destination d) && negb (nilb addrs) &&
          negb (match d_destination d with Some x => addr_mem x addrs | None => false end)
       then Err (E "OtherError")
  else match d_issue_instant d with
       | None => Err (E "ValueError")
       | Some t => if issue_instant_ok c t then Ok (Some d) else Ok None
       end.

(* Entity._parse_request(enc_request, request_cls, service, binding) *)
Definition parse_request (pre fixd : bool) (c : rcfg) (k : kind) (b : binding) (w : wire)
  : result (option reqdoc) :=
  let addrs := receiver_addrs c (kind_service k) b in
  match unravel k b w with
  | Err e => Err e
  | Ok x =>
      let ovc := c_only_valid_cert c in
      let must := c_want_signed c || ovc in
      match loads pre fixd c k must ovc x with
      | Err e => Err e
      | Ok d => verify c addrs d
      end
  end.

(* ---- where the two want_* options are read ----
   [secs]: per configured section of the entity's configuration, the truthiness of
   (want_authn_requests_signed, want_authn_requests_only_with_valid_cert).  The options are legal in the
   "idp" and in the "aa" section (config.py AA_IDP_ARGS); an SP has neither.
   [own] = _parse_request reads them in the section of the entity's own type (proposed_fix/C10-2);
   before that repair it always read the "idp" section. *)
Definition opt_sections := list (ctx * (bool * bool)).
Fixpoint lookup_opts (x : ctx) (l : opt_sections) : bool * bool :=
  match l with
  | [] => (false, false)                                   (* getattr(..., None) *)
  | (y, v) :: r => if ctx_eqb x y then v else lookup_opts x r
  end.
Definition read_options (own : bool) (etype : ctx) (secs : opt_sections) : bool * bool :=
  lookup_opts (if own then etype else CIdp) secs.

Definition mk_cfg (own : bool) (etype : ctx) (eps : list (ctx * list (str * list epspec))) (secs : opt_sections)
           (slack now : Z) (mdp : bool) (md : mdstore) (only_md : bool) (vc : option (list N)) (dup : bool) : rcfg :=
  Build_rcfg etype eps (fst (read_options own etype secs)) (snd (read_options own etype secs))
             slack now mdp md only_md vc dup.

(* the code state the correspondence runs against *)
Definition OPTIONS_OWN_CONTEXT : bool := true.  (* fix: dace676c *)
Definition mk_cfg_now := mk_cfg OPTIONS_OWN_CONTEXT.
Definition PRECHECK_IN_FORCE : bool := true.    (* the C01 repair (_enveloped_signature_ok, fix: f6d4380b) is in the library *)
Definition F16_FIXED : bool := true.            (* fix: 0b54cc6b *)
Definition parse_request_now := parse_request PRECHECK_IN_FORCE F16_FIXED.

(* ---- observables ---- *)
(* exact: exception class / None / accepted;  coarse: accepted / refused *)
Definition show_exact (r : result (option reqdoc)) : val :=
  match r with Err e => VE e | Ok None => VNone | Ok (Some _) => VB true end.
Definition show_coarse (r : result (option reqdoc)) : val :=
  match r with Ok (Some _) => VB true | _ => VE (E "refused") end.

Definition show_addrs (l : list addr) : val := VL (map (fun a => match a with Some u => VS u | None => VNone end) l).

(* ---- vocabulary of the statements (Props/C10.v) ---- *)
(* every ds:Signature node of the document, in document order *)
Fixpoint doc_sigs (t : tree) : list tree :=
  match t with
  | Sg _ _ _ => [t]
  | El _ _ _ kids => (fix go (l : list tree) : list tree := match l with [] => [] | c :: r => doc_sigs c ++ go r end) kids
  end.

(* the root element carries exactly one Signature child; it is intact, made with the key of [cert], has the single
   reference "#" + the root's ID, and what it digests is exactly the root element without that child *)
Definition signature_covers_root (t : tree) (cert : N) : Prop :=
  exists n v pl kids k,
    t = El n (Some v) pl kids /\ v <> [] /\
    nth_error kids k = Some (Sg [(HASH :: v, El n (Some v) pl (remove_nth k kids))] cert true) /\
    count_sigs kids = 1%nat.

(* [cert] is a certificate the metadata holds for the (stripped) issuer of [d] in a key descriptor usable for signing *)
Definition issuer_signing_cert (c : rcfg) (d : reqdoc) (cert : N) : Prop :=
  c_md_present c = true /\
  exists i e, d_issuer d = Some i /\ find_entity (c_md c) i = Some e /\
    exists r kd, In r e /\ In kd r /\ use_matches SIGNING kd = true /\ In cert (kd_certs kd).

(* the IssueInstant window *)
Definition in_window (c : rcfg) (t : Z) : Prop :=
  (c_now c - 86400 - c_slack c <= t /\ t < c_now c + 86400 + c_slack c)%Z.

(* Destination is absent (or empty), or the receiver has no address for this service and binding, or it is one of them *)
Definition destination_ok (c : rcfg) (k : kind) (b : binding) (d : reqdoc) : Prop :=
  d_destination d = None \/ d_destination d = Some [] \/
  receiver_addrs c (kind_service k) b = [] \/
  exists x, d_destination d = Some x /\ In (Some x) (receiver_addrs c (kind_service k) b).

(* ---- kind-specific optional content, long-lived receivers (Props/C10.v (7), (8)) ---- *)
(* the same document carrying other optional content *)
Definition set_opts (o : list optattr) (d : reqdoc) : reqdoc :=
  Build_reqdoc (d_tree d) (d_version d) (d_destination d) (d_issue_instant d) (d_valid d) (d_issuer d) (d_embedded d) o.
Definition xml_set_opts (o : list optattr) (x : xmltext) : xmltext :=
  match x with NotXml => NotXml | Xml d => Xml (set_opts o d) end.
Definition wire_set_opts (o : list optattr) (w : wire) : wire :=
  match w with
  | WFail => WFail
  | WText x => WText (xml_set_opts o x)
  | WSoap (SoapPart d) => WSoap (SoapPart (set_opts o d))
  | WSoap s => WSoap s
  end.
Definition res_set_opts (o : list optattr) (r : result (option reqdoc)) : result (option reqdoc) :=
  match r with Ok (Some d) => Ok (Some (set_opts o d)) | x => x end.

(* a reason to refuse request document [d] arriving at the entry point of kind [k] over binding [b] *)
Definition must_be_refused (c : rcfg) (k : kind) (b : binding) (d : reqdoc) : Prop :=
  (forall t, d_issue_instant d = Some t -> ~ in_window c t) \/            (* stale, dated ahead, or no instant *)
  (exists x, d_destination d = Some x /\ x <> [] /\ receiver_addrs c (kind_service k) b <> [] /\
             ~ In (Some x) (receiver_addrs c (kind_service k) b)) \/       (* addressed to somebody / something else *)
  ((c_want_signed c = true \/ c_only_valid_cert c = true) /\ root_signed (d_tree d) = false) \/   (* unsigned but wanted *)
  d_version d <> Some V20 \/ d_valid d = false \/ root_name (d_tree d) <> Some (kind_name k).

(* one long-lived receiver (a Server / Saml2Client object keeps its configuration; every _parse_request builds a fresh
   Request object) taking in a sequence of messages: what it has handed over so far, in order *)
Definition op := (kind * binding * wire)%type.
Fixpoint run_history (pre fixd : bool) (c : rcfg) (ops : list op) (handed : list (op * reqdoc)) : list (op * reqdoc) :=
  match ops with
  | [] => handed
  | (k, b, w) :: r =>
      run_history pre fixd c r
        (match parse_request pre fixd c k b w with Ok (Some d) => handed ++ [((k, b, w), d)] | _ => handed end)
  end.

(* the received text is the clean encoding of document [d] for the binding *)
Definition carries (k : kind) (b : binding) (w : wire) (d : reqdoc) : Prop :=
  (w = WText (Xml d) /\ b <> BSoap /\ b <> BUnknown) \/
  (w = WSoap (SoapPart d) /\ b = BSoap /\ kind_soap k = true).
