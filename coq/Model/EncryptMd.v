(* Model/EncryptMd.v — C17: where the identity provider takes the service
   provider's encryption certificates from.
   Entity.has_encrypt_cert_in_metadata (entity.py 525-535), Entity._encrypt_assertion
   (547-552) and the switch-off step of Server._authn_response (server.py 476-482) all
   ask   self.metadata.certs(sp_entity_id, "any", "encryption")   — MetaData.certs
   (mdstore.py 390-430) over MetadataStore.__getitem__: the FIRST source / entity with
   that id, its role descriptors in the order spsso, idpsso, role, authn_authority,
   attribute_authority, pdp, every KeyDescriptor whose use is the requested one OR
   ABSENT (hand-written / third-party metadata: such a key serves signing and
   encryption), every X509Data of it, duplicates dropped per role type.
   That function is Model/CertSelect.v's md_certs (shared with C03/C08/C10: certificates
   are numbers, cert n holds key n); here it is asked for use = encryption and feeds
   Model/Encrypt.v's g_md_certs.  Certificate number 0 stands for a text that is no
   certificate (the tool cannot use it).
   Hypothesis of this layer: the SP's entity id is known to the metadata store (for an
   unknown one certs() raises KeyError at whichever of the three call sites is reached
   first; not a matter of this property).
   Definitions only. *)
From PV Require Import Lib.Base Model.Status Model.Response Model.Encrypt Model.CertSelect.
Open Scope N_scope.

Definition ENCRYPTION : str := s2l "encryption".

Definition cert_pair (n : N) : N * bool := (n, negb (n =? 0)).

(* self.metadata.certs(sp, "any", "encryption") as (key, usable) pairs *)
Definition md_enc_certs (m : mdstore) (sp : str) : list (N * bool) :=
  match md_certs m (Some sp) ENCRYPTION with
  | Some l => map cert_pair l
  | None => []
  end.

Definition with_md_certs (g : idp_args) (l : list (N * bool)) : idp_args :=
  {| g_sign_response := g_sign_response g; g_sign_assertion := g_sign_assertion g;
     g_encrypt_assertion := g_encrypt_assertion g; g_enc_advice := g_enc_advice g;
     g_pefim := g_pefim g; g_self_contained := g_self_contained g;
     g_cert_assertion := g_cert_assertion g; g_cert_advice := g_cert_advice g;
     g_md_certs := l;
     g_verify_assertion := g_verify_assertion g; g_verify_advice := g_verify_advice g;
     g_idp_key := g_idp_key g; g_pub := g_pub g |}.

(* the arguments of create_authn_response as the IdP holding metadata store [m] sees them
   for service provider [sp] (the g_md_certs field of [g] is irrelevant: it is derived) *)
Definition args_md (g : idp_args) (m : mdstore) (sp : str) : idp_args := with_md_certs g (md_enc_certs m sp).

(* Server.create_authn_response on an IdP whose metadata store is [m] *)
Definition idp_build_md (g : idp_args) (m : mdstore) (sp : str) (i : ident) : result xml :=
  idp_build (args_md g m sp) i.
Definition idp_build_md_before_fix (g : idp_args) (m : mdstore) (sp : str) (i : ident) : result xml :=
  idp_build_before_fix (args_md g m sp) i.

(* ---- the property's words ---- *)
(* a key descriptor that may be used for encryption: use="encryption" or no use attribute *)
Definition for_encryption (kd : keydesc) : Prop := kd_use kd = None \/ kd_use kd = Some ENCRYPTION.

(* certificate [k] sits in such a key descriptor of THE entity the store serves for [sp] *)
Definition sp_enc_cert (m : mdstore) (sp : str) (k : N) : Prop :=
  exists e r kd, find_entity m sp = Some e /\ In r e /\ In kd r /\ for_encryption kd /\ In k (kd_certs kd).

(* "the SP's metadata has a key descriptor whose use is encryption or absent" (carrying a certificate) *)
Definition sp_has_enc_key (m : mdstore) (sp : str) : Prop := exists k, sp_enc_cert m sp k.

(* the first certificate the tool can use, in the order certs() returns them *)
Fixpoint first_usable (cs : list (N * bool)) : option N :=
  match cs with
  | [] => None
  | (k, true) :: _ => Some k
  | (_, false) :: rest => first_usable rest
  end.

(* does anything in the emitted message claim to be encrypted: an <EncryptedAssertion> element
   or an EncryptedData node, at any depth *)
Fixpoint claims_encrypted (t : xml) : bool :=
  match t with
  | El n _ _ kids => str_eqb n (E "EncryptedAssertion") || existsb claims_encrypted kids
  | SigN _ _ => false
  | EncN _ _ => true
  end.
