(* Model/SchemaDoc.v — two layers on top of Model/Schema.v (C12):
   1. NAMES.  The engine model keys attributes and child tags by interned full names (N).
      Here the names get their text back (Gen/SchemaNames.v: the intern table, regenerated on
      every run) so that statements can speak about {namespace}local names: a qualified name
      against an unqualified declared one, two names with the same local part.
   2. DOCUMENTS.  An ElementTree element also has a tail (the text between its end tag and the
      next sibling).  The library never reads it (create_class_from_element_tree,
      harvest_element_tree, _extension_element_from_element_tree look at tag / attrib / text /
      children only) and never writes it (_to_element_tree, transfer_to_element_tree).  dtree
      is the document with tails; parse_doc / serialise_doc are the engine on documents.
   Definitions and show_* observables only. *)
From PV Require Import Lib.Base Model.Schema.
Open Scope N_scope.

(* ------------------------------------------------------------------ names *)
(* {ns}local ; 123 = left brace, 125 = right brace *)
Definition qualify (ns local : str) : str := 123 :: ns ++ 125 :: local.
Definition unqualified (s : str) : bool := match s with 123 :: _ => false | _ => true end.
Fixpoint after_brace (s : str) : option str :=
  match s with
  | [] => None
  | c :: s' => if c =? 125 then Some s' else after_brace s'
  end.
(* the part after the namespace: python's name.split(right brace)[-1] for names with at most one brace pair *)
Definition local_of (s : str) : str :=
  match s with
  | 123 :: s' => match after_brace s' with Some l => l | None => s end
  | _ => s
  end.

Definition name_of (tbl : list str) (n : N) : str := nth (N.to_nat n) tbl [].

(* short-circuit comparison (vm_compute is strict: str_eqb walks the whole common length) *)
Fixpoint str_eqb_sc (a b : str) : bool :=
  match a, b with
  | [], [] => true
  | x :: a', y :: b' => if x =? y then str_eqb_sc a' b' else false
  | _, _ => false
  end.
Fixpoint nodup_str (l : list str) : bool :=
  match l with [] => true | x :: l' => negb (existsb (str_eqb_sc x) l') && nodup_str l' end.
(* all texts of the table differ; compared from their ends, where names differ early *)
Definition names_distinct (tbl : list str) : bool := nodup_str (map (@rev N) tbl).

Section Names.
  Variable nm : N -> str.
  Definition same_local (a b : N) : bool := str_eqb (local_of (nm a)) (local_of (nm b)).
  (* no two keys of a table share their local name *)
  Definition lookalike_free (keys : list N) : bool :=
    forallb (fun a => forallb (fun b => (a =? b) || negb (same_local a b)) keys) keys.
  Definition row_lookalike_free (r : class_row) : bool :=
    lookalike_free (map a_xml (k_attrs r)) && lookalike_free (map c_tagkey (k_children r)).
  (* q looks like the key d of a table (same local name) without being it *)
  Definition lookalike (q d : N) : bool := same_local q d && negb (str_eqb (nm q) (nm d)).
End Names.

(* one row of the generated list of look-alike names the harness uses:
   (class id, declared key, look-alike name); is_attr tells which table *)
Definition lookalike_row_ok (nm : N -> str) (S : schema) (is_attr : bool) (p : N * N * N) : bool :=
  let '(c, d, q) := p in
  match find_row S c with
  | None => false
  | Some r =>
      let keys := if is_attr then map a_xml (k_attrs r) else map c_tagkey (k_children r) in
      memN d keys && lookalike nm q d && negb (memN q keys)
  end.

(* -------------------------------------------------------------- documents *)
Inductive dtree := D (tag : N) (attrs : list (N * str)) (text tail : option str) (kids : list dtree).
Definition dtag (d : dtree) : N := match d with D t _ _ _ _ => t end.

Fixpoint forget (d : dtree) : xtree :=
  match d with D t a tx _ k => X t a tx (map forget k) end.
Fixpoint embed (x : xtree) : dtree :=
  match x with X t a tx k => D t a tx None (map embed k) end.
Fixpoint no_tail (d : dtree) : bool :=
  match d with
  | D _ _ _ tl k => match tl with None => forallb no_tail k | Some _ => false end
  end.

(* create_class_from_element_tree on a document: tails are not looked at *)
Definition parse_doc (NIL TYPE XMLNS_XS : N) (S : schema) (c : N) (d : dtree) : result inst :=
  parse NIL TYPE XMLNS_XS S c (forget d).
(* _to_element_tree: fresh elements, tail never assigned *)
Definition serialise_doc (S : schema) (i : inst) : result dtree :=
  match serialise S i with Ok x => Ok (embed x) | Err e => Err e end.

Fixpoint show_dtree (d : dtree) : val :=
  match d with
  | D t a tx tl k => VL [VZ (Z.of_N t); show_pairs a; show_text tx; show_text tl; VL (map show_dtree k)]
  end.
