(* Model/IdentWorkers.v — C18, freshness across processes: a deployment is a list of workers, each
   with its OWN store (starting empty) and its OWN digest stream (the cands arguments of its
   operations, in order).  Definitions and observables only. *)
From PV Require Import Lib.Base Model.Codec Gen.IdentConsts Model.Ident.
Open Scope N_scope.

(* the digests one operation draws from the random source *)
Definition op_cands (o : op) : list str :=
  match o with
  | GetNameid _ _ _ _ cands => cands
  | Transient _ _ _ cands => cands
  | Persistent _ _ _ cands => cands
  | Construct _ _ _ _ _ cands => cands
  | MapReq _ _ _ _ cands => cands
  | _ => []
  end.
(* the digest stream of one process: everything its random source yields over its history *)
Definition stream (ops : list op) : list str := flat_map op_cands ops.

Definition otext (x : out) : list str :=
  match x with ONid n => match n_text n with Some t => [t] | None => [] end | _ => [] end.

(* the identifier text an operation issues NEW: a transient call, or a persistent call that finds nothing *)
Definition issued_now (c : cfg) (d : db) (o : op) : list str :=
  match o with
  | Transient _ _ _ _ => otext (snd (step c d o))
  | Persistent u sp nq _ => match match_local_id d u sp nq with Ok None => otext (snd (step c d o)) | _ => [] end
  | _ => []
  end.
Fixpoint issued_texts (c : cfg) (d : db) (ops : list op) : list str :=
  match ops with [] => [] | o :: r => issued_now c d o ++ issued_texts c (fst (step c d o)) r end.

Definition mem (t : str) (l : list str) : bool := existsb (str_eqb t) l.
Definition disjointb (a b : list str) : bool := forallb (fun t => negb (mem t b)) a.
Fixpoint pairwise_disjointb (ls : list (list str)) : bool :=
  match ls with [] => true | l :: r => forallb (disjointb l) r && pairwise_disjointb r end.

Definition deployment := list (list op).
Definition worker_texts (c : cfg) (ws : deployment) : list (list str) := map (issued_texts c []) ws.

(* observable: every worker's outputs, the texts it issued new, and whether the workers' texts are pairwise different *)
Definition show_workers (x : cfg * deployment) : val :=
  VL [VL (map (fun w => show_history (fst x, w)) (snd x));
      VL (map (fun l => VL (map VS l)) (worker_texts (fst x) (snd x)));
      VB (pairwise_disjointb (worker_texts (fst x) (snd x)))].
