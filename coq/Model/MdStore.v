(* Model/MdStore.v — the metadata store (mdstore.py).

   InMemoryMetaData.do_entity_descriptor 470-519, parse 521-546, service
   548-585, attribute_requirement 587-607 (+ module function 117-128),
   signed / parse_and_check_signature 625-651, MetaData.certs 388-428 (with
   repack_cert 149-155; as repaired by proposed_fix/C03-1), MetadataStore.load 860-914 (inline / local / remote),
   service 976-994, attribute_requirement 1121-1124, keys, __getitem__,
   with_descriptor, entity_categories, entity_attributes 1170-1223; and the
   endpoint / key-descriptor part of metadata.entity_descriptor (do_endpoints
   391-426, do_key_descriptor 169-207).

   A document is what md.entities_descriptor_from_string /
   entity_descriptor_from_string + mdie.to_dict make of the XML text (the XML
   parser itself is C12's subject); time stamps are epoch seconds; the outcome
   of the signature verification CALL (returned b / raised e) is an input
   (Model/MdSig.v derives it from the signature layout of the document).
   Definitions only. *)
From PV Require Import Lib.Base.
Open Scope N_scope.

(* ---------- association lists in python-dict insertion order ---------- *)
Fixpoint aget {A} (k : str) (l : list (str * A)) : option A :=
  match l with
  | [] => None
  | (k', v) :: r => if str_eqb k k' then Some v else aget k r
  end.

(* d[k] = v : an existing key keeps its position *)
Fixpoint aset {A} (k : str) (v : A) (l : list (str * A)) : list (str * A) :=
  match l with
  | [] => [(k, v)]
  | (k', v') :: r => if str_eqb k k' then (k, v) :: r else (k', v') :: aset k v r
  end.

Definition is_nil {A} (l : list A) : bool := match l with [] => true | _ => false end.

(* ---------- small string functions (str.strip, str.split(c)) ---------- *)
Definition is_space (c : N) : bool :=
  ((9 <=? c) && (c <=? 13)) || ((28 <=? c) && (c <=? 32)) || (c =? 133) || (c =? 160) ||
  (c =? 5760) || ((8192 <=? c) && (c <=? 8202)) || (c =? 8232) || (c =? 8233) ||
  (c =? 8239) || (c =? 8287) || (c =? 12288).

Fixpoint lstrip (s : str) : str :=
  match s with
  | c :: r => if is_space c then lstrip r else s
  | [] => []
  end.
Definition strip (s : str) : str := rev (lstrip (rev (lstrip s))).

Fixpoint split_aux (sep : N) (s cur : str) : list str :=
  match s with
  | [] => [rev cur]
  | c :: r => if c =? sep then rev cur :: split_aux sep r [] else split_aux sep r (c :: cur)
  end.
Definition split_on (sep : N) (s : str) : list str := split_aux sep s [].

Fixpoint join_with (sep : N) (l : list str) : str :=
  match l with
  | [] => []
  | [x] => x
  | x :: r => x ++ sep :: join_with sep r
  end.

(* sigver.split_len(seq, n) *)
Fixpoint chunks (fuel : nat) (n : nat) (s : str) : list str :=
  match fuel with
  | O => []
  | S f => match s with [] => [] | _ => firstn n s :: chunks f n (skipn n s) end
  end.

(* mdstore.repack_cert *)
Definition repack_cert (c : str) : str :=
  match split_on 10 c with
  | [one] => let p := strip one in join_with 10 (chunks (List.length p) 64 p)
  | parts => join_with 10 (map strip parts)
  end.

(* ---------- metadata as the store sees it ---------- *)
Record service := { sv_type : str; sv_binding : str; sv_location : str; sv_index : option str }.
(* kd_certs = X509Certificate texts of the X509Data children of KeyInfo *)
Record keydesc := { kd_use : option str; kd_certs : list str }.
Record reqattr := { ra_name : str; ra_required : option str }.
Record acs := { ac_index : str; ac_req : list reqattr }.
Record role := {
  r_type : str;                 (* key in the entity dict: idpsso_descriptor … *)
  r_protocols : option str;     (* protocolSupportEnumeration, None = attribute missing *)
  r_keys : list keydesc;
  r_services : list service;    (* endpoint children in document order *)
  r_acs : list acs              (* AttributeConsumingService children *)
}.
Record eattr := { ea_name : str; ea_values : list str }.
Record entity := {
  e_id : str;
  e_valid_until : option Z;
  e_roles : list role;          (* role descriptors in document order *)
  e_affil : bool;               (* has an AffiliationDescriptor *)
  e_eattrs : list (list eattr)  (* one list per mdattr:EntityAttributes extension element *)
}.
(* what validate.valid_instance does with an EntitiesDescriptor: returns,
   raises NotValid (caught and logged by parse), raises something else
   (MustValueError is a ValueError, not a NotValid: it propagates) *)
Inductive ivalid := IvOk | IvNotValid | IvRaises.
Inductive docbody :=
| Many (valid_until : option Z) (iv : ivalid) (es : list entity)            (* root is EntitiesDescriptor *)
| Single (e : entity)                                                        (* root is EntityDescriptor *)
| NotMetadata.                                                               (* any other root element *)
Record document := { d_signed : bool;   (* the ROOT element has a ds:Signature child *)
                     d_body : docbody }.

Definition SAML2P : str := s2l "urn:oasis:names:tc:SAML:2.0:protocol".
Definition KeyError : str := s2l "KeyError".
Definition ToOld : str := s2l "ToOld".
Definition UnknownSystemEntity : str := s2l "UnknownSystemEntity".
Definition UnsupportedBinding : str := s2l "UnsupportedBinding".

(* time_util.valid = before : now <= point; no validUntil = valid *)
Definition valid (now : Z) (vu : option Z) : bool :=
  match vu with None => true | Some t => (now <=? t)%Z end.

(* one source's entity table (InMemoryMetaData.entity) *)
Definition mdmap := list (str * entity).

(* ---------- do_entity_descriptor ---------- *)
Definition role_saml2 (r : role) : bool :=
  match r_protocols r with
  | Some p => mem_str SAML2P (split_on 32 p)
  | None => false
  end.
Definition lacks_protocols (r : role) : bool :=
  match r_protocols r with None => true | Some _ => false end.

(* a role TYPE stays in the entity iff one of its descriptors supports SAML 2.0;
   then ALL descriptors of that type stay (the list is not replaced by _res) *)
Definition type_kept (roles : list role) (t : str) : bool :=
  existsb (fun r => str_eqb (r_type r) t && role_saml2 r) roles.
Definition filter_roles (roles : list role) : list role :=
  filter (fun r => type_kept roles (r_type r)) roles.

Definition stored_form (e : entity) : entity :=
  {| e_id := e_id e; e_valid_until := e_valid_until e; e_roles := filter_roles (e_roles e);
     e_affil := e_affil e; e_eattrs := e_eattrs e |}.

Definition storable (e : entity) : bool := negb (is_nil (filter_roles (e_roles e))) || e_affil e.

Definition do_entity (now : Z) (check : bool) (m : mdmap) (e : entity) : result mdmap :=
  if check && negb (valid now (e_valid_until e)) then Ok m          (* too old: skipped *)
  else match aget (e_id e) m with
       | Some _ => Ok m                                             (* duplicate: first stored one wins *)
       | None =>
           if existsb lacks_protocols (e_roles e) then Err KeyError
           else if storable e then Ok (m ++ [(e_id e, stored_form e)])
           else Ok m
       end.

Fixpoint fold_ents (now : Z) (check : bool) (m : mdmap) (es : list entity) : result mdmap :=
  match es with
  | [] => Ok m
  | e :: rest => match do_entity now check m e with
                 | Ok m' => fold_ents now check m' rest
                 | Err x => Err x
                 end
  end.

(* InMemoryMetaData.parse *)
Definition parse (now : Z) (check : bool) (b : docbody) : result mdmap :=
  match b with
  | NotMetadata => Ok []
  | Single e => do_entity now check [] e
  | Many vu IvNotValid es => Ok []                                  (* NotValid is logged, nothing loaded *)
  | Many vu IvRaises es => Err (s2l "MustValueError")
  | Many vu IvOk es =>
      if check && negb (valid now vu) then Err ToOld
      else fold_ents now check [] es
  end.

(* ---------- sources and MetadataStore.load ---------- *)
Inductive skind := Inline | LocalFile | Remote.
Record source := {
  s_key : str;               (* key in MetadataStore.metadata: counter / file name / url *)
  s_kind : skind;
  s_cert : bool;             (* a verification certificate is configured (truthy) *)
  s_check : bool;            (* check_validity reaching the source (only remote can switch it off) *)
  s_http_ok : bool;          (* remote: status code 200 *)
  s_verdict : result bool;   (* what security.verify_signature(...) does IF it is called *)
  s_doc : document
}.

(* parse_and_check_signature (mdstore.py 635-658, after the repair "metadata
   whose signature verification returns False is refused"): a verification
   that does not succeed is fatal whichever way the backend reports it - the
   call raises (xmlsec1 backend) or returns False (then SignatureError is
   raised here).  MetadataStore.load / imp only notice an exception. *)
Definition SignatureError : str := s2l "SignatureError".
Definition parse_and_check (now : Z) (check : bool) (s : source) : result mdmap :=
  match parse now check (d_body (s_doc s)) with
  | Err e => Err e
  | Ok m =>
      if s_cert s then
        if negb (d_signed (s_doc s)) then Ok m
        else match s_kind s with
             | Remote => match s_verdict s with
                         | Err e => Err e
                         | Ok true => Ok m
                         | Ok false => Err SignatureError
                         end
             | _ => Err (s2l "AttributeError")    (* MetaDataFile gets security=None *)
             end
      else Ok m
  end.

(* the same BEFORE that repair: parse_and_check_signature returned False and
   MetadataStore.load ignored the value - only an exception kept the source out *)
Definition parse_and_check_before_fix (now : Z) (check : bool) (s : source) : result mdmap :=
  match parse now check (d_body (s_doc s)) with
  | Err e => Err e
  | Ok m =>
      if s_cert s then
        if negb (d_signed (s_doc s)) then Ok m
        else match s_kind s with
             | Remote => match s_verdict s with Err e => Err e | Ok _ => Ok m end
             | _ => Err (s2l "AttributeError")
             end
      else Ok m
  end.

Definition load_source (now : Z) (s : source) : result mdmap :=
  match s_kind s with
  | Inline => parse now true (d_body (s_doc s))     (* no cert, check_validity always on *)
  | LocalFile => parse_and_check now true s
  | Remote => if s_http_ok s then parse_and_check now (s_check s) s else Err (s2l "SourceNotFound")
  end.
Definition load_source_before_fix (now : Z) (s : source) : result mdmap :=
  match s_kind s with
  | Inline => parse now true (d_body (s_doc s))
  | LocalFile => parse_and_check_before_fix now true s
  | Remote => if s_http_ok s then parse_and_check_before_fix now (s_check s) s else Err (s2l "SourceNotFound")
  end.

Definition store := list (str * mdmap).

Definition store_load (now : Z) (st : store) (s : source) : store * option str :=
  match load_source now s with
  | Ok m => (aset (s_key s) m st, None)
  | Err e => (st, Some e)
  end.

(* a long-lived store on which load() is called for each source; a raising
   load leaves the store as it was *)
Fixpoint load_all (now : Z) (st : store) (srcs : list source) : store :=
  match srcs with
  | [] => st
  | s :: rest => load_all now (fst (store_load now st s)) rest
  end.
Fixpoint load_outcomes (now : Z) (st : store) (srcs : list source) : list (option str) :=
  match srcs with
  | [] => []
  | s :: rest => snd (store_load now st s) :: load_outcomes now (fst (store_load now st s)) rest
  end.
(* MetadataStore.imp: the first raising source aborts the configuration *)
Fixpoint imp (now : Z) (st : store) (srcs : list source) : store * option str :=
  match srcs with
  | [] => (st, None)
  | s :: rest => match store_load now st s with
                 | (st', None) => imp now st' rest
                 | (st', Some e) => (st', Some e)
                 end
  end.

(* ---------- lookups ---------- *)
Definition roles_of (e : entity) (typ : str) : list role :=
  filter (fun r => str_eqb (r_type r) typ) (e_roles e).

(* InMemoryMetaData.service with a binding: None = KeyError on entity or role *)
Definition md_service (m : mdmap) (eid typ svc binding : str) : option (list service) :=
  match aget eid m with
  | None => None
  | Some e =>
      match roles_of e typ with
      | [] => None
      | rs =>
          let srvs := flat_map (fun r => filter (fun s => str_eqb (sv_type s) svc) (r_services r)) rs in
          Some (filter (fun s => str_eqb (sv_binding s) binding) srvs)
      end
  end.

(* MetadataStore.service *)
Fixpoint service_loop (st : store) (eid typ svc binding : str) (known : bool) : result (list service) :=
  match st with
  | [] => if known then Err UnsupportedBinding else Err UnknownSystemEntity
  | (_, m) :: rest =>
      match md_service m eid typ svc binding with
      | Some (x :: l) => Ok (x :: l)
      | None => service_loop rest eid typ svc binding known
      | Some [] => service_loop rest eid typ svc binding true
      end
  end.
Definition store_service (st : store) (eid typ svc binding : str) : result (list service) :=
  service_loop st eid typ svc binding false.

(* binding=None: services grouped by binding (dict in first-occurrence order) *)
Fixpoint group_add (b : str) (s : service) (g : list (str * list service)) : list (str * list service) :=
  match g with
  | [] => [(b, [s])]
  | (b', l) :: r => if str_eqb b b' then (b', l ++ [s]) :: r else (b', l) :: group_add b s r
  end.
Definition group_by_binding (srvs : list service) : list (str * list service) :=
  fold_left (fun g s => group_add (sv_binding s) s g) srvs [].
Definition md_service_all (m : mdmap) (eid typ svc : str) : option (list (str * list service)) :=
  match aget eid m with
  | None => None
  | Some e =>
      match roles_of e typ with
      | [] => None
      | rs => Some (group_by_binding (flat_map (fun r => filter (fun s => str_eqb (sv_type s) svc) (r_services r)) rs))
      end
  end.
Fixpoint service_all_loop (st : store) (eid typ svc : str) (known : bool) : result (list (str * list service)) :=
  match st with
  | [] => if known then Err UnsupportedBinding else Err UnknownSystemEntity
  | (_, m) :: rest =>
      match md_service_all m eid typ svc with
      | Some (x :: l) => Ok (x :: l)
      | None => service_all_loop rest eid typ svc known
      | Some [] => service_all_loop rest eid typ svc true
      end
  end.

(* MetadataStore.__getitem__ : the first source that has the entity *)
Fixpoint store_get (st : store) (eid : str) : option entity :=
  match st with
  | [] => None
  | (_, m) :: rest => match aget eid m with Some e => Some e | None => store_get rest eid end
  end.

Definition store_keys (st : store) : list str := flat_map (fun km => map fst (snd km)) st.

(* ---- certs ---- *)
Definition use_ok (use : str) (k : keydesc) : bool :=
  match kd_use k with None => true | Some u => str_eqb u use end.

Definition add_new (res : list str) (c : str) : list str := if mem_str c res then res else res ++ [c].

(* extract_certs (mdstore.py 396-414, after the repair proposed_fix/C03-1: the loops read
   key[key_info].get(x509_data, [])): a matching key descriptor WITHOUT X509Data (KeyName / KeyValue
   only, kd_certs = []) contributes no certificate; extract_certs itself never raises *)
Fixpoint extract_loop (use : str) (ks : list keydesc) (res : list str) : list str :=
  match ks with
  | [] => res
  | k :: rest =>
      if use_ok use k then extract_loop use rest (fold_left add_new (map repack_cert (kd_certs k)) res)
      else extract_loop use rest res
  end.
Definition extract_certs (use : str) (rs : list role) : list str :=
  extract_loop use (flat_map r_keys rs) [].

Definition ANY_ROLES : list str :=
  [s2l "spsso"; s2l "idpsso"; s2l "role"; s2l "authn_authority"; s2l "attribute_authority"; s2l "pdp"].
Definition descr_key (d : str) : str := d ++ s2l "_descriptor".

(* descriptor = any: a missing descriptor type is skipped (KeyError caught) *)
Fixpoint certs_any (use : str) (e : entity) (ds : list str) : list str :=
  match ds with
  | [] => []
  | d :: rest =>
      match roles_of e (descr_key d) with
      | [] => certs_any use e rest
      | rs => extract_certs use rs ++ certs_any use e rest
      end
  end.

(* MetadataStore.certs: KeyError = unknown entity, or (named descriptor) no descriptor of that type *)
Definition store_certs (st : store) (eid descriptor use : str) : result (list str) :=
  match store_get st eid with
  | None => Err KeyError
  | Some e =>
      if str_eqb descriptor (s2l "any") then Ok (certs_any use e ANY_ROLES)
      else match roles_of e (descr_key descriptor) with
           | [] => Err KeyError
           | rs => Ok (extract_certs use rs)
           end
  end.

(* the same BEFORE that repair: key[key_info][x509_data] raised KeyError when a matching key
   descriptor had no X509Data - for the whole entity, whatever the other descriptors declare *)
Fixpoint extract_loop_before_fix (use : str) (ks : list keydesc) (res : list str) : result (list str) :=
  match ks with
  | [] => Ok res
  | k :: rest =>
      if use_ok use k then
        if is_nil (kd_certs k) then Err KeyError
        else extract_loop_before_fix use rest (fold_left add_new (map repack_cert (kd_certs k)) res)
      else extract_loop_before_fix use rest res
  end.
Definition extract_certs_before_fix (use : str) (rs : list role) : result (list str) :=
  extract_loop_before_fix use (flat_map r_keys rs) [].
Fixpoint certs_any_before_fix (use : str) (e : entity) (ds : list str) : result (list str) :=
  match ds with
  | [] => Ok []
  | d :: rest =>
      match roles_of e (descr_key d) with
      | [] => certs_any_before_fix use e rest
      | rs => match extract_certs_before_fix use rs with
              | Err x => Err x
              | Ok l => match certs_any_before_fix use e rest with Err x => Err x | Ok l' => Ok (l ++ l') end
              end
      end
  end.
Definition store_certs_before_fix (st : store) (eid descriptor use : str) : result (list str) :=
  match store_get st eid with
  | None => Err KeyError
  | Some e =>
      if str_eqb descriptor (s2l "any") then certs_any_before_fix use e ANY_ROLES
      else match roles_of e (descr_key descriptor) with
           | [] => Err KeyError
           | rs => extract_certs_before_fix use rs
           end
  end.

(* ---- entity attributes / categories ---- *)
Fixpoint ea_add (res : list (str * list str)) (name : str) (vals : list str) : list (str * list str) :=
  match res with
  | [] => [(name, vals)]
  | (n, v) :: r => if str_eqb n name then (n, v ++ vals) :: r else (n, v) :: ea_add r name vals
  end.

Fixpoint ea_attrs (res : list (str * list str)) (attrs : list eattr) : result (list (str * list str)) :=
  match attrs with
  | [] => Ok res
  | a :: rest => if is_nil (ea_values a) then Err KeyError       (* attr["attribute_value"] *)
                 else ea_attrs (ea_add res (ea_name a) (ea_values a)) rest
  end.
Fixpoint ea_elems (res : list (str * list str)) (elems : list (list eattr)) : result (list (str * list str)) :=
  match elems with
  | [] => Ok res
  | attrs :: rest => if is_nil attrs then Err KeyError            (* elem["attribute"] *)
                     else match ea_attrs res attrs with
                          | Err x => Err x
                          | Ok res' => ea_elems res' rest
                          end
  end.
Definition store_entity_attributes (st : store) (eid : str) : result (list (str * list str)) :=
  match store_get st eid with
  | None => Ok []                           (* KeyError swallowed: unknown entity = no attributes *)
  | Some e => ea_elems [] (e_eattrs e)
  end.
Definition ENTITY_CATEGORY : str := s2l "http://macedir.org/entity-category".
Definition store_entity_categories (st : store) (eid : str) : result (list str) :=
  match store_entity_attributes st eid with
  | Err x => Err x
  | Ok res => Ok (match aget ENTITY_CATEGORY res with Some l => l | None => [] end)
  end.

(* ---- attribute_requirement ---- *)
Definition index_selected (index : option str) (a : acs) : bool :=
  match index with None => true | Some i => str_eqb (ac_index a) i end.
Definition is_required (a : reqattr) : bool :=
  match ra_required a with Some v => str_eqb v (s2l "true") | None => false end.

(* None = a KeyError somewhere: no spsso descriptor, an SP descriptor without
   AttributeConsumingService, a selected service without RequestedAttribute *)
Definition sp_selected (index : option str) (sp : role) : option (list reqattr) :=
  if is_nil (r_acs sp) then None
  else let sel := filter (index_selected index) (r_acs sp) in
       if existsb (fun a => is_nil (ac_req a)) sel then None
       else Some (flat_map ac_req sel).
Fixpoint sps_selected (index : option str) (sps : list role) : option (list reqattr) :=
  match sps with
  | [] => Some []
  | sp :: rest => match sp_selected index sp, sps_selected index rest with
                  | Some a, Some b => Some (a ++ b)
                  | _, _ => None
                  end
  end.
Definition md_attribute_requirement (e : entity) (index : option str) : option (list reqattr * list reqattr) :=
  match roles_of e (s2l "spsso_descriptor") with
  | [] => None
  | sps => match sps_selected index sps with
           | None => None
           | Some l => Some (filter is_required l, filter (fun a => negb (is_required a)) l)
           end
  end.
Definition store_attribute_requirement (st : store) (eid : str) (index : option str)
  : option (list reqattr * list reqattr) :=
  match store_get st eid with
  | None => None
  | Some e => md_attribute_requirement e index
  end.

(* ---- with_descriptor: entity ids having that descriptor, in any source ---- *)
Definition has_descriptor (d : str) (e : entity) : bool :=
  if str_eqb d (s2l "affiliation") then e_affil e else negb (is_nil (roles_of e (descr_key d))).
Definition store_with_descriptor (st : store) (d : str) : list str :=
  flat_map (fun km => map fst (filter (fun ke => has_descriptor d (snd ke)) (snd km))) st.

(* ---------- metadata.entity_descriptor: endpoints and key descriptors ---------- *)
(* one endpoint of the configuration, after the str / tuple / dict normalisation *)
Record cfg_endpoint := { ce_location : str; ce_binding : str; ce_index : option str }.

(* do_endpoints for ONE service: indexed services get "1", "2", … for the
   endpoints that carry no index of their own *)
Fixpoint N_digits (fuel : nat) (n : N) (acc : str) : str :=
  match fuel with
  | O => acc
  | S f => let acc' := (48 + n mod 10) :: acc in
           if n / 10 =? 0 then acc' else N_digits f (n / 10) acc'
  end.
Definition N_to_str (n : N) : str := N_digits 40 n [].

Fixpoint do_endpoints (svc : str) (indexed : bool) (i : N) (eps : list cfg_endpoint) : list service :=
  match eps with
  | [] => []
  | ep :: rest =>
      if indexed then
        match ce_index ep with
        | Some ix => {| sv_type := svc; sv_binding := ce_binding ep; sv_location := ce_location ep; sv_index := Some ix |}
                     :: do_endpoints svc indexed i rest
        | None => {| sv_type := svc; sv_binding := ce_binding ep; sv_location := ce_location ep; sv_index := Some (N_to_str i) |}
                  :: do_endpoints svc indexed (i + 1) rest
        end
      else {| sv_type := svc; sv_binding := ce_binding ep; sv_location := ce_location ep; sv_index := ce_index ep |}
           :: do_endpoints svc indexed i rest
  end.

(* do_key_descriptor(cert list, enc_cert list, use).  When the selected usage
   yields no descriptor although signing certificates exist, the code returns
   ONE KeyDescriptor whose X509Certificate text is the python LIST of
   certificates: serialising the entity descriptor then raises TypeError. *)
Definition do_key_descriptor (certs enc_certs : list str) (usage : str) : result (list keydesc) :=
  let kds :=
    (if mem_str usage [s2l "signing"; s2l "both"]
     then map (fun c => {| kd_use := Some (s2l "signing"); kd_certs := [c] |}) certs else []) ++
    (if mem_str usage [s2l "both"; s2l "encryption"]
     then map (fun c => {| kd_use := Some (s2l "encryption"); kd_certs := [c] |}) enc_certs else []) in
  if is_nil kds && negb (is_nil certs) then Err (s2l "TypeError") else Ok kds.

Record cfg_role := {
  cr_type : str;                                       (* idpsso_descriptor … *)
  cr_endpoints : list (str * bool * list cfg_endpoint) (* service, indexed, endpoints *)
}.
Record config := {
  c_entityid : str;
  c_certs : list str; c_enc_certs : list str; c_key_usage : str;
  c_roles : list cfg_role
}.
Definition role_of_cfg (kds : list keydesc) (cr : cfg_role) : role :=
  {| r_type := cr_type cr; r_protocols := Some SAML2P;
     r_keys := kds;
     r_services := flat_map (fun x => do_endpoints (fst (fst x)) (snd (fst x)) 1 (snd x)) (cr_endpoints cr);
     r_acs := [] |}.
Definition entity_of_cfg (c : config) : result entity :=
  match do_key_descriptor (c_certs c) (c_enc_certs c) (c_key_usage c) with
  | Err x => Err x
  | Ok kds => Ok {| e_id := c_entityid c; e_valid_until := None; e_roles := map (role_of_cfg kds) (c_roles c);
                    e_affil := false; e_eattrs := [] |}
  end.

(* ---------- constants ---------- *)
Definition B_POST : str := s2l "urn:oasis:names:tc:SAML:2.0:bindings:HTTP-POST".
Definition B_REDIRECT : str := s2l "urn:oasis:names:tc:SAML:2.0:bindings:HTTP-Redirect".
Definition B_SOAP : str := s2l "urn:oasis:names:tc:SAML:2.0:bindings:SOAP".
Definition B_SIMPLESIGN : str := s2l "urn:oasis:names:tc:SAML:2.0:bindings:HTTP-POST-SimpleSign".
Definition T_IDP : str := s2l "idpsso_descriptor".
Definition T_SP : str := s2l "spsso_descriptor".
Definition T_AA : str := s2l "attribute_authority_descriptor".
Definition T_PDP : str := s2l "pdp_descriptor".
Definition S_SSO : str := s2l "single_sign_on_service".
Definition S_SLO : str := s2l "single_logout_service".
Definition S_ACS : str := s2l "assertion_consumer_service".
Definition S_ARS : str := s2l "artifact_resolution_service".
Definition S_ATTR : str := s2l "attribute_service".
Definition S_AUTHZ : str := s2l "authz_service".
Definition S_AIDR : str := s2l "assertion_id_request_service".
Definition U_SIGNING : str := s2l "signing".
Definition U_ENCRYPTION : str := s2l "encryption".
Definition U_ANY : str := s2l "any".
Definition EC_SUPPORT : str := s2l "http://macedir.org/entity-category-support".

Definition Q_TYPS := [T_IDP; T_SP; T_AA; T_PDP].
Definition Q_SVCS := [S_SSO; S_SLO; S_ACS; S_ARS; S_ATTR; S_AUTHZ].
Definition Q_BINDINGS := [B_POST; B_REDIRECT; B_SOAP; B_SIMPLESIGN].
Definition Q_DESCS := [s2l "idpsso"; s2l "spsso"; s2l "attribute_authority"; s2l "pdp"; U_ANY].
Definition Q_USES := [U_SIGNING; U_ENCRYPTION; U_ANY].
(* the two category names, two unrelated ones, and two near misses of the category name (one more character, other case) *)
Definition Q_NAMES := [ENTITY_CATEGORY; EC_SUPPORT; s2l "urn:x:other"; s2l "urn:x:absent";
                       s2l "http://macedir.org/entity-category/"; s2l "HTTP://MACEDIR.ORG/ENTITY-CATEGORY"].
Definition Q_INDEXES := [None; Some (s2l "1"); Some (s2l "2")].
Definition Q_WD := [s2l "idpsso"; s2l "spsso"; s2l "attribute_authority"; s2l "pdp"; s2l "affiliation"].

(* ---------- the typed wrappers of MetadataStore (mdstore.py: single_sign_on_service ...
   assertion_consumer_service): role type fixed or "%s_descriptor" % typ, service, default binding ---------- *)
Inductive wrapper := W_SSO | W_ACS | W_SLO | W_ARS | W_ATTR | W_AUTHZ | W_AIDR.
Definition wrapper_service (w : wrapper) : str :=
  match w with
  | W_SSO => S_SSO | W_ACS => S_ACS | W_SLO => S_SLO | W_ARS => S_ARS
  | W_ATTR => S_ATTR | W_AUTHZ => S_AUTHZ | W_AIDR => S_AIDR
  end.
Definition wrapper_default (w : wrapper) : str :=
  match w with
  | W_ACS => B_POST
  | W_AUTHZ | W_AIDR => B_SOAP
  | W_SSO | W_SLO | W_ARS | W_ATTR => B_REDIRECT
  end.
(* typ=None: AttributeError("Missing type specification") for single_logout_service and
   assertion_id_request_service; artifact_resolution_service formats None into the key *)
Definition wrapper_type (w : wrapper) (typ : option str) : result str :=
  match w with
  | W_SSO => Ok T_IDP
  | W_ACS => Ok T_SP
  | W_ATTR => Ok T_AA
  | W_AUTHZ => Ok T_PDP
  | W_SLO | W_AIDR => match typ with None => Err (s2l "AttributeError") | Some t => Ok (descr_key t) end
  | W_ARS => Ok (descr_key (match typ with Some t => t | None => s2l "None" end))
  end.
Definition store_wrapper (st : store) (w : wrapper) (eid : str) (binding typ : option str) : result (list service) :=
  match wrapper_type w typ with
  | Err x => Err x
  | Ok t => store_service st eid t (wrapper_service w) (match binding with Some b => b | None => wrapper_default w end)
  end.
Definition Q_WRAPPERS := [W_SSO; W_ACS; W_SLO; W_ARS; W_ATTR; W_AUTHZ; W_AIDR].
Definition Q_WTYPS := [None; Some (s2l "idpsso"); Some (s2l "spsso")].
Definition Q_WBINDINGS := [None; Some B_POST].

(* MetadataStore.supported_entity_categories *)
Definition store_supported_categories (st : store) (eid : str) : result (list str) :=
  match store_entity_attributes st eid with
  | Err x => Err x
  | Ok res => Ok (match aget EC_SUPPORT res with Some l => l | None => [] end)
  end.

(* ---------- observables ---------- *)
Definition show_service (s : service) : val :=
  VL [VS (sv_binding s); VS (sv_location s); show_option VS (sv_index s)].
Definition show_services (r : result (list service)) : val := show_result (show_list show_service) r.
Definition show_strs (l : list str) : val := VL (map VS l).
Definition show_reqattr (a : reqattr) : val := VS (ra_name a).

Inductive query :=
| QService (eid typ svc binding : str)
| QServiceAll (eid typ svc : str)
| QCerts (eid descriptor use : str)
| QEntityAttrs (eid : str) (names : list str)
| QCategories (eid : str)
| QAttrReq (eid : str) (index : option str)
| QWithDescriptor (d : str) (universe : list str)
| QKeys
| QKnown (eid : str)
| QWrapper (w : wrapper) (eid : str) (binding typ : option str)
| QSupported (eid : str).

Definition run_query (st : store) (q : query) : val :=
  match q with
  | QService e t s b => show_services (store_service st e t s b)
  | QServiceAll e t s =>
      show_result (show_list (fun g => VL [VS (fst g); show_list show_service (snd g)]))
                  (service_all_loop st e t s false)
  | QCerts e d u => show_result show_strs (store_certs st e d u)
  | QEntityAttrs e names =>
      show_result (fun res => VL [VZ (Z.of_nat (List.length res));
                                  VL (map (fun n => show_option show_strs (aget n res)) names)])
                  (store_entity_attributes st e)
  | QCategories e => show_result show_strs (store_entity_categories st e)
  | QAttrReq e i =>
      show_option (fun p => VL [show_list show_reqattr (fst p); show_list show_reqattr (snd p)])
                  (store_attribute_requirement st e i)
  | QWithDescriptor d u =>
      let res := store_with_descriptor st d in
      VL (map (fun e => VB (mem_str e res)) u)
  | QKeys => show_strs (store_keys st)
  | QKnown e => VB (match store_get st e with Some _ => true | None => false end)
  | QWrapper w e b t => show_services (store_wrapper st w e b t)
  | QSupported e => show_result show_strs (store_supported_categories st e)
  end.

(* ---------- the query universe of the correspondence ---------- *)
Definition query_universe (eids : list str) : list query :=
  flat_map (fun e => flat_map (fun t => flat_map (fun s => map (fun b => QService e t s b) Q_BINDINGS) Q_SVCS) Q_TYPS) eids ++
  flat_map (fun e => flat_map (fun t => map (fun s => QServiceAll e t s) Q_SVCS) Q_TYPS) eids ++
  flat_map (fun e => flat_map (fun d => map (fun u => QCerts e d u) Q_USES) Q_DESCS) eids ++
  map (fun e => QEntityAttrs e Q_NAMES) eids ++
  map QCategories eids ++
  flat_map (fun e => map (fun i => QAttrReq e i) Q_INDEXES) eids ++
  map (fun d => QWithDescriptor d eids) Q_WD ++
  [QKeys] ++
  map QKnown eids ++
  flat_map (fun e => flat_map (fun w => flat_map (fun b => map (fun t => QWrapper w e b t) Q_WTYPS) Q_WBINDINGS) Q_WRAPPERS) eids ++
  map QSupported eids.

(* a federation case: load every source into one store (each load may raise),
   then ask every query *)
Definition run_federation (c : Z * list source * list query) : val :=
  let '(now, srcs, qs) := c in
  let st := load_all now [] srcs in
  VL [VL (map (fun o => VB (match o with None => true | Some _ => false end)) (load_outcomes now [] srcs));
      VL (map (run_query st) qs)].

Definition run_imp (c : Z * list source * list query) : val :=
  let '(now, srcs, qs) := c in
  let '(st, o) := imp now [] srcs in
  VL [VB (match o with None => true | Some _ => false end); VL (map (run_query st) qs)].

(* config round trip: the generated descriptor, loaded inline, then queried *)
Definition inline_source (e : entity) : source :=
  {| s_key := s2l "1"; s_kind := Inline; s_cert := false; s_check := true; s_http_ok := true;
     s_verdict := Ok true; s_doc := {| d_signed := false; d_body := Single e |} |}.
Definition run_roundtrip (c : Z * config * list query) : val :=
  let '(now, cfg, qs) := c in
  match entity_of_cfg cfg with
  | Err x => VE x
  | Ok e => VL (map (run_query (load_all now [] [inline_source e])) qs)
  end.

(* the same with the query universe generated from the entity ids *)
Definition run_federation_u (c : Z * list source * list str) : val :=
  let '(now, srcs, eids) := c in run_federation (now, srcs, query_universe eids).
Definition run_imp_u (c : Z * list source * list str) : val :=
  let '(now, srcs, eids) := c in run_imp (now, srcs, query_universe eids).
Definition run_roundtrip_u (c : Z * config * list str) : val :=
  let '(now, cfg, eids) := c in run_roundtrip (now, cfg, query_universe eids).

(* for reports: the per-query answers of a case output *)
Definition answers_of (v : val) : list val :=
  match v with VL [_; VL l] => l | VL l => l | _ => [] end.
