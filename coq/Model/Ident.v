(* Model/Ident.v — saml2_tophat/ident.py: the textual coding of a NameID used as
   storage key (code / decode over urllib quote / unquote) and IdentDB as a state
   machine over ONE string-keyed map, exactly as the Python uses its dict /
   shelve: user id -> space-joined codes, identifier text -> user id.
   Strings are UTF-8 byte lists (all separators are ASCII, so split / join /
   find commute with the encoding).  Definitions only. *)
From PV Require Import Lib.Base Model.Codec Gen.IdentConsts.
Open Scope N_scope.

Definition COMMA : N := 44.
Definition SLASH : N := 47.
Definition AT : N := 64.

(* urllib.parse.quote(val) with its DEFAULT safe="/" (Codec.quote is safe="") *)
Definition quote_byte_s (b : N) : str := if b =? SLASH then [SLASH] else quote_byte false b.
Definition quote_s (bs : str) : str := flat_map quote_byte_s bs.

(* ---------------- NameID: the five attributes of ident.ATTR, in that order ------------- *)
Record nameid := NameId {
  n_nq : option str; n_spnq : option str; n_fmt : option str; n_sppid : option str; n_text : option str }.
Definition empty_nid : nameid := NameId None None None None None.
Definition nid_t (t : str) : nameid := NameId None None None None (Some t).

(* Python truthiness of an attribute value: None and "" are falsy *)
Definition truthy (o : option str) : bool := match o with Some (_ :: _) => true | _ => false end.
Definition tr (o : option str) : option str := if truthy o then o else None.
Definition norm (n : nameid) : nameid :=
  NameId (tr (n_nq n)) (tr (n_spnq n)) (tr (n_fmt n)) (tr (n_sppid n)) (tr (n_text n)).

Definition digit (i : N) : N := 48 + i.
(* "%d=%s" % (i, quote(val))   when val is truthy *)
Definition enc_part (i : N) (o : option str) : list str :=
  match tr o with Some v => [digit i :: EQ :: quote_s v] | None => [] end.
Definition enc_parts (n : nameid) : list str :=
  enc_part 0 (n_nq n) ++ enc_part 1 (n_spnq n) ++ enc_part 2 (n_fmt n) ++ enc_part 3 (n_sppid n) ++ enc_part 4 (n_text n).
Definition code (n : nameid) : str := join_with COMMA (enc_parts n).

(* int(i) for the forms the model covers: optional sign, ASCII digits.  None = ValueError
   (swallowed by the bare except).  Whitespace / underscore / non-ASCII digit forms that
   Python's int() also accepts are outside the model (never compared). *)
Fixpoint digits_val (s : str) (acc : N) : option N :=
  match s with
  | [] => Some acc
  | c :: r => if (48 <=? c) && (c <=? 57) then digits_val r (acc * 10 + (c - 48)) else None
  end.
Definition parse_int (s : str) : option Z :=
  match s with
  | [] => None
  | 45 :: d :: r => option_map (fun v => Z.opp (Z.of_N v)) (digits_val (d :: r) 0)
  | 43 :: d :: r => option_map Z.of_N (digits_val (d :: r) 0)
  | _ => option_map Z.of_N (digits_val s 0)
  end.
(* ATTR[int(i)] : Python list indexing, negative indexes count from the end, else IndexError *)
Definition attr_index (z : Z) : option N :=
  let len := Z.of_nat (List.length ATTR) in
  if (0 <=? z)%Z && (z <? len)%Z then Some (Z.to_N z)
  else if (Z.opp len <=? z)%Z && (z <? 0)%Z then Some (Z.to_N (z + len))
  else None.
Definition set_field (k : N) (v : option str) (n : nameid) : nameid :=
  match k with
  | 0 => NameId v (n_spnq n) (n_fmt n) (n_sppid n) (n_text n)
  | 1 => NameId (n_nq n) v (n_fmt n) (n_sppid n) (n_text n)
  | 2 => NameId (n_nq n) (n_spnq n) v (n_sppid n) (n_text n)
  | 3 => NameId (n_nq n) (n_spnq n) (n_fmt n) v (n_text n)
  | 4 => NameId (n_nq n) (n_spnq n) (n_fmt n) (n_sppid n) v
  | _ => n
  end.
Definition get_field (k : N) (n : nameid) : option str :=
  match k with 0 => n_nq n | 1 => n_spnq n | 2 => n_fmt n | 3 => n_sppid n | 4 => n_text n | _ => None end.

Definition has (c : N) (s : str) : bool := existsb (N.eqb c) s.
Definition ValueError := s2l "ValueError".
Definition KeyError := s2l "KeyError".

(* one iteration of the loop of decode(): part.find("=") != -1 ; i, val = part.split("=")
   (ValueError when there are two or more "=") ; try setattr(...) except: pass *)
Definition decode_part (p : str) (acc : nameid) : result nameid :=
  if has EQ p then
    match split_on EQ p [] with
    | [i; v] =>
        match parse_int i with
        | Some z => match attr_index z with
                    | Some k => Ok (set_field k (Some (unquote v)) acc)
                    | None => Ok acc
                    end
        | None => Ok acc
        end
    | _ => Err ValueError
    end
  else Ok acc.
Fixpoint decode_parts (ps : list str) (acc : nameid) : result nameid :=
  match ps with
  | [] => Ok acc
  | p :: r => match decode_part p acc with Ok acc' => decode_parts r acc' | Err e => Err e end
  end.
Definition decode (txt : str) : result nameid := decode_parts (split_on COMMA txt []) empty_nid.

(* the identifier text a stored code stands for (None: no text / undecodable) *)
Definition ctext (c : str) : option str := match decode c with Ok n => n_text n | Err _ => None end.

(* ---------------- the store: one association list, Python dict semantics ---------------- *)
Definition db := list (str * str).
Fixpoint lookup (k : str) (d : db) : option str :=
  match d with [] => None | (k', v) :: r => if str_eqb k k' then Some v else lookup k r end.
Fixpoint insert (k v : str) (d : db) : db :=
  match d with
  | [] => [(k, v)]
  | (k', v') :: r => if str_eqb k k' then (k, v) :: r else (k', v') :: insert k v r
  end.
(* del d[k]: keys of a dict are unique, so dropping every binding of k is the same thing
   on every state built by insert / remove *)
Fixpoint remove (k : str) (d : db) : db :=
  match d with [] => [] | (k', v') :: r => if str_eqb k k' then remove k r else (k', v') :: remove k r end.

Record cfg := Cfg { domain : str; own_nq : str }.       (* IdentDB.domain, IdentDB.name_qualifier *)

Definition entries_of (e : str) : list str := split_on SPACE e [].
Definition entries (d : db) (u : str) : list str :=
  match lookup u d with Some e => entries_of e | None => [] end.

(* store(ident, name_id).  A NameID without text would become the key None of a dict
   (and an exception in shelve): outside the model, marked, never generated. *)
Definition do_store (d : db) (u : str) (n : nameid) : result db :=
  match n_text n with
  | None => Err (s2l "Unmodelled-None-key")
  | Some t => Ok (insert t u (insert u (join_with SPACE (entries d u ++ [code n])) d))
  end.

(* list.remove(x): first occurrence; None = ValueError *)
Fixpoint remove_first (x : str) (l : list str) : option (list str) :=
  match l with
  | [] => None
  | y :: r => if str_eqb x y then Some r
              else match remove_first x r with Some r' => Some (y :: r') | None => None end
  end.

(* remove_remote(name_id): KeyError when the text is unknown (state untouched);
   ValueError (not caught: only KeyError is) when the code is not in the user's list.
   [rewrite id vals d] is what happens to the user's entry once the code is taken out. *)
Definition remove_remote_with (rewrite : str -> list str -> db -> db) (d : db) (n : nameid) : result db :=
  match n_text n with
  | None => Err KeyError
  | Some t =>
      match lookup t d with
      | None => Err KeyError
      | Some id =>
          match lookup id d with
          | None => Ok (remove t d)
          | Some e =>
              match remove_first (code n) (entries_of e) with
              | None => Err ValueError
              | Some vals => Ok (remove t (rewrite id vals d))
              end
          end
      end
  end.
(* the code as it is (after fix C18-1): "if vals: db[_id] = join(vals) else: del db[_id]".
   (del db[_id] followed by del db[text] could only raise when _id = text, i.e. when the entry
   read under the text is the one-element list [code n]: impossible, code n is longer than its text.) *)
Definition rewrite_entry (id : str) (vals : list str) (d : db) : db :=
  match vals with [] => remove id d | _ :: _ => insert id (join_with SPACE vals) d end.
Definition do_remove_remote : db -> nameid -> result db := remove_remote_with rewrite_entry.
(* before fix C18-1: db[_id] = join(vals) always; the last removal leaves the empty string,
   which every reader splits into ONE empty code *)
Definition rewrite_entry_before_fix (id : str) (vals : list str) (d : db) : db := insert id (join_with SPACE vals) d.
Definition do_remove_remote_before_fix : db -> nameid -> result db := remove_remote_with rewrite_entry_before_fix.

(* remove_local(sid) (after fix C18-2; on Python 3 the id is used as it is):
     try: for val in db[sid].split(" "): try: del db[decode(val).text] except KeyError: pass
          del db[sid]
     except KeyError: pass
   decode may raise ValueError in the middle of the loop: the deletions done so far stay.
   A decoded identifier without text is the key None: KeyError in a dict (swallowed); shelve
   raises AttributeError instead: outside the model, not reachable through the operations. *)
Fixpoint remove_local_vals (vals : list str) (d : db) : db * option str :=
  match vals with
  | [] => (d, None)
  | v :: r => match decode v with
              | Err e => (d, Some e)
              | Ok nid => remove_local_vals r (match n_text nid with Some t => remove t d | None => d end)
              end
  end.

(* create_id: draw digests until one is not a key.  The digest / random source is the
   argument [cands] (the values the source yields during this call, in order); running
   out of them stands for a loop that does not terminate. *)
Fixpoint create_id (d : db) (cands : list str) : result str :=
  match cands with
  | [] => Err (s2l "Diverges")
  | c :: r => match lookup c d with None => Ok c | Some _ => create_id d r end
  end.

Inductive out :=
| ONone
| ONid (n : nameid)
| OStr (s : str)
| ONids (l : list nameid)
| OErr (e : str).

Definition do_remove_local (d : db) (u : str) : db * out :=
  match lookup u d with
  | None => (d, ONone)
  | Some e => match remove_local_vals (entries_of e) d with
              | (d1, Some er) => (d1, OErr er)
              | (d1, None) => (remove u d1, ONone)
              end
  end.

Definition get_nameid (c : cfg) (d : db) (u fmt : str) (sp nq : option str) (cands : list str) : db * out :=
  match create_id d cands with
  | Err e => (d, OErr e)
  | Ok id =>
      if str_eqb fmt NAMEID_FORMAT_EMAILADDRESS && is_nil (domain c) then (d, OErr (s2l "SAMLError"))
      else
        let t := if str_eqb fmt NAMEID_FORMAT_EMAILADDRESS then id ++ AT :: domain c else id in
        let n := NameId nq sp (Some fmt) None (Some t) in
        match do_store d u n with Ok d' => (d', ONid n) | Err e => (d, OErr e) end
  end.

Definition opt_eqb (a b : option str) : bool :=
  match a, b with Some x, Some y => str_eqb x y | None, None => true | _, _ => false end.
(* "snq and snq == arg"  or  "not snq and not arg" *)
Definition qual_match (stored arg : option str) : bool :=
  if truthy stored then opt_eqb stored arg else negb (truthy arg).

Fixpoint match_vals (vals : list str) (sp nq : option str) : result (option nameid) :=
  match vals with
  | [] => Ok None
  | v :: r =>
      match decode v with
      | Err e => Err e
      | Ok nid =>
          if opt_eqb (n_fmt nid) (Some NAMEID_FORMAT_TRANSIENT) then match_vals r sp nq
          else if qual_match (n_spnq nid) sp && qual_match (n_nq nid) nq then Ok (Some nid)
          else match_vals r sp nq
      end
  end.
Definition match_local_id (d : db) (u : str) (sp nq : option str) : result (option nameid) :=
  match lookup u d with None => Ok None | Some e => match_vals (entries_of e) sp nq end.

Definition persistent_nameid (c : cfg) (d : db) (u : str) (sp nq : option str) (cands : list str) : db * out :=
  match match_local_id d u sp nq with
  | Err e => (d, OErr e)
  | Ok (Some n) => (d, ONid n)
  | Ok None => get_nameid c d u NAMEID_FORMAT_PERSISTENT sp nq cands
  end.

Definition find_local_id (d : db) (n : nameid) : option str :=
  match n_text n with Some t => lookup t d | None => None end.

(* find_nameid(userid, **kwargs): kwargs over the five attributes *)
Definition filt := list (N * option str).
Definition filt_ok (f : filt) (n : nameid) : bool := forallb (fun kv => opt_eqb (get_field (fst kv) n) (snd kv)) f.
Fixpoint find_vals (vals : list str) (f : filt) : result (list nameid) :=
  match vals with
  | [] => Ok []
  | v :: r => match decode v with
              | Err e => Err e
              | Ok nid => match find_vals r f with
                          | Err e => Err e
                          | Ok l => Ok (if filt_ok f nid then nid :: l else l)
                          end
              end
  end.
Definition find_nameid (d : db) (u : str) (f : filt) : result (list nameid) :=
  match lookup u d with None => Ok [] | Some e => find_vals (entries_of e) f end.

(* construct_nameid(userid, local_policy, sp_name_qualifier, name_id_policy, name_qualifier)
   lp = what local_policy.get_nameid_format returns (None: no local policy);
   pol = (format, sp_name_qualifier) of the NameIDPolicy (None: no policy) *)
Definition construct_args (c : cfg) (lp sp : option str) (pol : option (option str * option str)) (nq : option str)
  : option (str * option str * option str) :=
  let sp' := match pol with Some (_, psp) => if truthy psp then psp else sp | None => sp end in
  let fmt := match pol with
             | Some (Some (x :: f), _) => Some (x :: f)
             | _ => lp
             end in
  match fmt with
  | None => None                                                   (* SAMLError("Unknown NameID format") *)
  | Some f => Some (f, sp', if truthy nq then nq else Some (own_nq c))
  end.
Definition construct_nameid (c : cfg) (d : db) (u : str) (lp : option str) (sp : option str)
           (pol : option (option str * option str)) (nq : option str) (cands : list str) : db * out :=
  match construct_args c lp sp pol nq with
  | None => (d, OErr (s2l "SAMLError"))
  | Some (f, sp', nq') => get_nameid c d u f sp' nq' cands
  end.

Fixpoint map_vals (vals : list str) (pfmt psp : option str) : result (option nameid) :=
  match vals with
  | [] => Ok None
  | v :: r => match decode v with
              | Err e => Err e
              | Ok nid => if opt_eqb (n_fmt nid) pfmt && opt_eqb (n_spnq nid) psp then Ok (Some nid)
                          else map_vals r pfmt psp
              end
  end.
(* handle_name_id_mapping_request(name_id, name_id_policy(format, sp_name_qualifier, allow_create)) *)
Definition map_req (c : cfg) (d : db) (n : nameid) (pfmt psp allow : option str) (cands : list str) : db * out :=
  match find_local_id d n with
  | None | Some [] => (d, OErr (s2l "Unknown"))
  | Some id =>
      match lookup id d with
      | None => (d, OErr KeyError)
      | Some e =>
          match map_vals (entries_of e) pfmt psp with
          | Err er => (d, OErr er)
          | Ok (Some nid) => (d, ONid nid)
          | Ok None =>
              if opt_eqb allow (Some (s2l "false")) then (d, OErr (s2l "PolicyError"))
              else construct_nameid c d id None None (Some (pfmt, psp)) None cands
          end
      end
  end.

Inductive action := ANew (sp_provided : option str) | AEncrypted | ATerminate | ANoop.
(* handle_manage_name_id_request(name_id, new_id, new_encrypted_id, terminate) *)
Definition manage_with (rr : db -> nameid -> result db) (d : db) (n : nameid) (a : action) : db * out :=
  let go (n' : nameid) :=
    match rr d n with
    | Err e => (d, OErr e)
    | Ok d1 => match find_local_id d n with
               | None => (d, OErr KeyError)        (* not reachable: remove_remote raised *)
               | Some id => match do_store d1 id n' with Ok d2 => (d2, ONid n') | Err e => (d, OErr e) end
               end
    end in
  match a with
  | ANew v => go (set_field 3 v n)
  | AEncrypted => go n
  | ATerminate => go (set_field 3 None n)
  | ANoop => (d, ONid n)
  end.
Definition manage : db -> nameid -> action -> db * out := manage_with do_remove_remote.
Definition manage_before_fix : db -> nameid -> action -> db * out := manage_with do_remove_remote_before_fix.

Inductive op :=
| Store (u : str) (n : nameid)
| RemoveRemote (n : nameid)
| RemoveLocal (u : str)
| GetNameid (u fmt : str) (sp nq : option str) (cands : list str)
| Transient (u : str) (sp nq : option str) (cands : list str)
| Persistent (u : str) (sp nq : option str) (cands : list str)
| Construct (u : str) (lp sp : option str) (pol : option (option str * option str)) (nq : option str) (cands : list str)
| MapReq (n : nameid) (pfmt psp allow : option str) (cands : list str)
| Manage (n : nameid) (a : action)
| FindNameid (u : str) (f : filt)
| FindLocalId (n : nameid)
| MatchLocalId (u : str) (sp nq : option str).

Definition of_res {A} (d : db) (f : A -> out) (r : result A) : db * out :=
  match r with Ok a => (d, f a) | Err e => (d, OErr e) end.

Definition step (c : cfg) (d : db) (o : op) : db * out :=
  match o with
  | Store u n => match do_store d u n with Ok d' => (d', ONone) | Err e => (d, OErr e) end
  | RemoveRemote n => match do_remove_remote d n with Ok d' => (d', ONone) | Err e => (d, OErr e) end
  | RemoveLocal u => do_remove_local d u
  | GetNameid u fmt sp nq cands => get_nameid c d u fmt sp nq cands
  | Transient u sp nq cands => get_nameid c d u NAMEID_FORMAT_TRANSIENT sp nq cands
  | Persistent u sp nq cands => persistent_nameid c d u sp nq cands
  | Construct u lp sp pol nq cands => construct_nameid c d u lp sp pol nq cands
  | MapReq n pfmt psp allow cands => map_req c d n pfmt psp allow cands
  | Manage n a => manage d n a
  | FindNameid u f => of_res d ONids (find_nameid d u f)
  | FindLocalId n => (d, match find_local_id d n with Some u => OStr u | None => ONone end)
  | MatchLocalId u sp nq => of_res d (fun o => match o with Some n => ONid n | None => ONone end) (match_local_id d u sp nq)
  end.

Fixpoint run (c : cfg) (d : db) (ops : list op) : db :=
  match ops with [] => d | o :: r => run c (fst (step c d o)) r end.
Fixpoint run_outs (c : cfg) (d : db) (ops : list op) : list out :=
  match ops with [] => [] | o :: r => let '(d', x) := step c d o in x :: run_outs c d' r end.

(* ---------------- the code BEFORE fixes C18-1 / C18-2 (kept for the refutation witnesses) ---------------- *)
Definition step_before_fix (c : cfg) (d : db) (o : op) : db * out :=
  match o with
  | RemoveRemote n => match do_remove_remote_before_fix d n with Ok d' => (d', ONone) | Err e => (d, OErr e) end
  | RemoveLocal _ => (d, OErr (s2l "NameError"))          (* isinstance(sid, unicode) on Python 3 *)
  | Manage n a => manage_before_fix d n a
  | _ => step c d o
  end.
Fixpoint run_before_fix (c : cfg) (d : db) (ops : list op) : db :=
  match ops with [] => d | o :: r => run_before_fix c (fst (step_before_fix c d o)) r end.
Fixpoint run_outs_before_fix (c : cfg) (d : db) (ops : list op) : list out :=
  match ops with [] => [] | o :: r => let '(d', x) := step_before_fix c d o in x :: run_outs_before_fix c d' r end.

(* ---------------- observables ---------------- *)
Definition show_ostr (o : option str) : val := show_option VS o.
Definition show_nid (n : nameid) : val :=
  VL [show_ostr (n_nq n); show_ostr (n_spnq n); show_ostr (n_fmt n); show_ostr (n_sppid n); show_ostr (n_text n)].
Definition show_out (o : out) : val :=
  match o with
  | ONone => VNone
  | ONid n => show_nid n
  | OStr s => VS s
  | ONids l => VL (map show_nid l)
  | OErr e => VE e
  end.
Definition show_decode (s : str) : val := show_result show_nid (decode s).
Definition show_history (x : cfg * list op) : val := VL (map show_out (run_outs (fst x) [] (snd x))).
Definition show_history_before_fix (x : cfg * list op) : val := VL (map show_out (run_outs_before_fix (fst x) [] (snd x))).
