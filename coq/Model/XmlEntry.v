(* Model/XmlEntry.v — C11.
   Part A: the row types of the regenerated inventory (Gen/XmlSites.v) and the
           decision procedures the inventory must pass.
   Part B: an event-level model of one XML parse.  The tokenizer (expat) is
           OUTSIDE the model: a document is the list of events expat reports.
           A reader is a machine over that list, parameterised by what it does
           with an entity declaration and with an external reference; three
           instances: defused (defusedxml.ElementTree.fromstring defaults),
           stdlib_et (xml.etree.ElementTree on expat), fetching (a resolver
           that loads external entities; what the property forbids).
   Part C: the pysaml2 entry points on top of a reader
           (__init__.py 80-130, 277-296, 312-318, 473-503; soap.py 129-230;
           pack.py 258-293).
   Definitions and show_* observables only. *)
From PV Require Import Lib.Base.
Open Scope N_scope.

(* ------------------------------------------------------------------ *)
(* Part A : inventory                                                   *)
(* ------------------------------------------------------------------ *)
Inductive site_kind := KCall | KRebind | KDynImport.
Inductive site_tag := Core | OptionalBackend.
Inductive kwv := KwTrue | KwFalse | KwOther.

Record site := mk_site {
  s_file : str; s_line : N; s_scope : str; s_callee : str;
  s_module : option str;              (* None = callee could not be resolved *)
  s_kind : site_kind; s_tag : site_tag;
  s_kws : list (str * kwv); s_npos : N; s_star : bool }.

Record et_use := mk_use {
  u_file : str; u_line : N; u_scope : str; u_module : str; u_attr : str }.

Fixpoint is_prefix (p s : str) : bool :=
  match p, s with
  | [], _ => true
  | x :: p', y :: s' => N.eqb x y && is_prefix p' s'
  | _ :: _, [] => false
  end.

(* m is the dotted module [root] or lies below it *)
Definition in_family (root m : str) : bool :=
  str_eqb m root || is_prefix (root ++ [46]) m.

Definition is_defused_module (m : str) : bool := in_family (s2l "defusedxml") m.
Definition is_optional_module (m : str) : bool :=
  in_family (s2l "xmlsec") m || in_family (s2l "lxml") m.

(* keyword arguments a defusedxml reader may be given without losing its
   protection: forbid_dtd in either polarity (False is the default),
   forbid_entities / forbid_external only as the constant True.  Anything
   else (parser=..., **kw, a variable) is counted as weakening. *)
Definition kw_ok (kw : str * kwv) : bool :=
  let (k, v) := kw in
  if str_eqb k (s2l "forbid_dtd") then match v with KwOther => false | _ => true end
  else if str_eqb k (s2l "forbid_entities") || str_eqb k (s2l "forbid_external")
       then match v with KwTrue => true | _ => false end
  else false.

Definition weakened (s : site) : bool :=
  s_star s || (1 <? s_npos s) || negb (forallb kw_ok (s_kws s)).

Definition site_ok (s : site) : bool :=
  match s_kind s, s_module s with
  | KCall, Some m =>
      match s_tag s with
      | OptionalBackend => is_optional_module m
      | Core => is_defused_module m && negb (weakened s)
      end
  | _, _ => false
  end.

(* stdlib-ElementTree names that only build or serialise trees (ParseError is
   the exception class: naming it in an except clause reads nothing) *)
Definition et_building_names : list str :=
  [ s2l "Element"; s2l "SubElement"; s2l "tostring"; s2l "tostringlist";
    s2l "register_namespace"; s2l "iselement"; s2l "_namespace_map"; s2l "QName";
    s2l "VERSION"; s2l "Comment"; s2l "ProcessingInstruction"; s2l "PI";
    s2l "dump"; s2l "indent"; s2l "ParseError" ].

Definition use_ok (u : et_use) : bool := mem_str (u_attr u) et_building_names.

Definition inventory_ok (sites : list site) (uses : list et_use) : bool :=
  forallb site_ok sites && forallb use_ok uses.

Definition failing_sites (sites : list site) : list site := filter (fun s => negb (site_ok s)) sites.
Definition failing_uses (uses : list et_use) : list et_use := filter (fun u => negb (use_ok u)) uses.

Definition is_core_defused (s : site) : bool :=
  match s_tag s, s_module s with Core, Some m => is_defused_module m | _, _ => false end.

Definition show_site (s : site) : val :=
  VL [VS (s_file s); VN (s_line s); VS (s_scope s); VS (s_callee s);
      match s_module s with Some m => VS m | None => VNone end].
Definition show_use (u : et_use) : val :=
  VL [VS (u_file u); VN (u_line u); VS (u_scope u); VS (u_module u); VS (u_attr u)].

(* ------------------------------------------------------------------ *)
(* Part B : events and readers                                          *)
(* ------------------------------------------------------------------ *)
Inductive ent_kind :=
| GenInternal (value : str)        (* <!ENTITY e "v">            *)
| GenExternal (sysid : str)        (* <!ENTITY e SYSTEM "u">     *)
| ParInternal (value : str)        (* <!ENTITY % p "v">          *)
| ParExternal (sysid : str)        (* <!ENTITY % p SYSTEM "u">   *)
| Unparsed (sysid : str).          (* <!ENTITY u SYSTEM "u" NDATA n> *)

Inductive ev :=
| Doctype (external_id : option str)   (* <!DOCTYPE r [SYSTEM "u"]> ; the external subset is never loaded by expat on its own *)
| EntityDecl (name : str) (k : ent_kind)
| ExternalRef (sysid : str)            (* the parser is about to load an external entity (ExternalEntityRefHandler) *)
| PI                                   (* processing instruction, e.g. xml-stylesheet *)
| StartElem (tag : str) (attrs : list (str * str))   (* expanded {ns}local names, as expat/ET report them; DTD attribute defaults included *)
| EndElem
| Text (s : str)                       (* character data, predefined and character references already resolved *)
| EntityRef (name : str)               (* reference to a general entity that is not predefined *)
| Malformed.                           (* the tokenizer reports a well-formedness error here (truncation, junk, bad encoding) *)

Inductive xtree := Node (tag : str) (attrs : list (str * str)) (text : option str) (kids : list xtree).
Definition xtag (t : xtree) : str := match t with Node g _ _ _ => g end.
Definition xkids (t : xtree) : list xtree := match t with Node _ _ _ k => k end.

Inductive io := IoOpen (sysid : str).     (* file / URL access caused by document content *)

Inductive ent_policy := EntForbid | EntDefine.
Inductive ext_policy := ExtForbid | ExtSkip | ExtFetch.
Record reader := { on_entity : ent_policy; on_external : ext_policy }.

Definition defused   : reader := {| on_entity := EntForbid; on_external := ExtForbid |}.
Definition stdlib_et : reader := {| on_entity := EntDefine; on_external := ExtSkip |}.
Definition fetching  : reader := {| on_entity := EntDefine; on_external := ExtFetch |}.

Definition ParseError : str := s2l "ParseError".
Definition EntitiesForbidden : str := s2l "EntitiesForbidden".
Definition ExternalReferenceForbidden : str := s2l "ExternalReferenceForbidden".

(* open element: tag, attrs, text so far, whether a child was seen, finished children (reversed) *)
Record frame := { f_tag : str; f_attrs : list (str * str); f_text : option str; f_kids : list xtree }.
Definition close_frame (f : frame) : xtree := Node (f_tag f) (f_attrs f) (f_text f) (rev (f_kids f)).

Record pstate := {
  stack : list frame;
  root_done : option xtree;
  ents : list (str * str);          (* declared internal general entities (EntDefine readers only) *)
  trace : list io;                  (* reversed *)
  expanded : bool                   (* some entity reference was replaced by declared text *)
}.
Definition st0 : pstate := {| stack := []; root_done := None; ents := []; trace := []; expanded := false |}.

Fixpoint lookup (k : str) (l : list (str * str)) : option str :=
  match l with
  | [] => None
  | (k', v) :: r => if str_eqb k k' then Some v else lookup k r
  end.

Definition is_ws (c : N) : bool := match c with 9 | 10 | 13 | 32 => true | _ => false end.

(* ElementTree: character data before the first child is .text, after a child
   it is that child's .tail - which pysaml2 never reads *)
Definition add_text (f : frame) (s : str) : frame :=
  match f_kids f with
  | [] => {| f_tag := f_tag f; f_attrs := f_attrs f;
             f_text := Some (match f_text f with Some t => t ++ s | None => s end); f_kids := [] |}
  | _ => f
  end.

Definition text_event (st : pstate) (s : str) : result pstate :=
  match stack st with
  | [] => if forallb is_ws s then Ok st else Err ParseError
  | f :: rest => Ok {| stack := add_text f s :: rest; root_done := root_done st; ents := ents st;
                       trace := trace st; expanded := expanded st |}
  end.

Definition step (r : reader) (st : pstate) (e : ev) : result pstate :=
  match e with
  | Malformed => Err ParseError
  | Doctype _ => Ok st
  | PI => Ok st
  | EntityDecl n k =>
      match on_entity r with
      | EntForbid => Err EntitiesForbidden
      | EntDefine =>
          match k with
          | GenInternal v => Ok {| stack := stack st; root_done := root_done st; ents := ents st ++ [(n, v)];
                                   trace := trace st; expanded := expanded st |}
          | _ => Ok st
          end
      end
  | ExternalRef u =>
      match on_external r with
      | ExtForbid => Err ExternalReferenceForbidden
      | ExtSkip => Ok st
      | ExtFetch => Ok {| stack := stack st; root_done := root_done st; ents := ents st;
                          trace := IoOpen u :: trace st; expanded := expanded st |}
      end
  | StartElem g a =>
      match root_done st with
      | Some _ => Err ParseError                        (* junk after document element *)
      | None => Ok {| stack := {| f_tag := g; f_attrs := a; f_text := None; f_kids := [] |} :: stack st;
                      root_done := None; ents := ents st; trace := trace st; expanded := expanded st |}
      end
  | EndElem =>
      match stack st with
      | [] => Err ParseError
      | f :: [] => Ok {| stack := []; root_done := Some (close_frame f); ents := ents st;
                         trace := trace st; expanded := expanded st |}
      | f :: p :: rest =>
          Ok {| stack := {| f_tag := f_tag p; f_attrs := f_attrs p; f_text := f_text p;
                            f_kids := close_frame f :: f_kids p |} :: rest;
                root_done := None; ents := ents st; trace := trace st; expanded := expanded st |}
      end
  | Text s => text_event st s
  | EntityRef n =>
      match lookup n (ents st) with
      | None => Err ParseError                          (* undefined entity *)
      | Some v =>
          match text_event st v with
          | Err e => Err e
          | Ok st' => Ok {| stack := stack st'; root_done := root_done st'; ents := ents st';
                            trace := trace st'; expanded := true |}
          end
      end
  end.

(* the run keeps the IO trace even when it ends in an error: IO that happened, happened *)
Fixpoint run_from (r : reader) (st : pstate) (evs : list ev) : result pstate * list io :=
  match evs with
  | [] => (Ok st, trace st)
  | e :: rest =>
      match step r st e with
      | Err x => (Err x, trace st)
      | Ok st' => run_from r st' rest
      end
  end.

Definition finish (x : result pstate) : result xtree :=
  match x with
  | Err e => Err e
  | Ok st => match root_done st with Some t => Ok t | None => Err ParseError end   (* no element found *)
  end.

Definition parse_io (r : reader) (evs : list ev) : result xtree * list io :=
  let (x, tr) := run_from r st0 evs in (finish x, rev tr).
Definition parse (r : reader) (evs : list ev) : result xtree := fst (parse_io r evs).
Definition io_of (r : reader) (evs : list ev) : list io := snd (parse_io r evs).
Definition expands (r : reader) (evs : list ev) : bool :=
  match fst (run_from r st0 evs) with Ok st => expanded st | Err _ => false end.

(* element depth after a list of events, starting at depth d *)
Fixpoint depth_after (d : nat) (evs : list ev) : option nat :=
  match evs with
  | [] => Some d
  | StartElem _ _ :: r => depth_after (S d) r
  | EndElem :: r => match d with O => None | S d' => depth_after d' r end
  | _ :: r => depth_after d r
  end.

Definition is_entity_decl (e : ev) : bool := match e with EntityDecl _ _ => true | _ => false end.
Definition is_external_ref (e : ev) : bool := match e with ExternalRef _ => true | _ => false end.
Definition is_entity_ref (e : ev) : bool := match e with EntityRef _ => true | _ => false end.
Definition is_malformed (e : ev) : bool := match e with Malformed => true | _ => false end.
Definition hostile (e : ev) : bool :=
  is_entity_decl e || is_external_ref e || is_entity_ref e || is_malformed e.

(* ------------------------------------------------------------------ *)
(* Part C : pysaml2 entry points                                        *)
(* ------------------------------------------------------------------ *)
(* class tables: only what harvest_element_tree consults *)
Record class_row := {
  c_qname : str;                                   (* {c_namespace}c_tag *)
  c_attributes : list str;                         (* xml attribute names that are members *)
  c_children : list (str * (str * bool))           (* child qname -> (child class id, member is a list) *)
}.
Definition schema := list (str * class_row).       (* class id -> row *)

Fixpoint find_class (sch : schema) (cid : str) : option class_row :=
  match sch with
  | [] => None
  | (k, r) :: rest => if str_eqb k cid then Some r else find_class rest cid
  end.
Fixpoint find_child (l : list (str * (str * bool))) (q : str) : option (str * bool) :=
  match l with
  | [] => None
  | (k, v) :: rest => if str_eqb k q then Some v else find_child rest q
  end.

(* a harvested object.  [members]: (child qname, object) in assignment order,
   a single-valued member holds only its LAST assignment (setattr overwrites);
   [ext_elems]: children turned into ExtensionElements (lossless: tag, attrs,
   text, children);  attributes are split into members / extension attributes *)
Inductive obj :=
  Obj (cid : str) (attr_members ext_attrs : list (str * str)) (text : option str)
      (members : list (str * obj)) (ext_elems : list xtree).

Definition set_member (q : str) (is_list : bool) (o : obj) (ms : list (str * obj)) : list (str * obj) :=
  if is_list then ms ++ [(q, o)]
  else filter (fun m => negb (str_eqb (fst m) q)) ms ++ [(q, o)].

(* table key and the child class's own qname disagree: create_class_from_element_tree
   gives None; a single-valued member is SET TO None, a list member gets a None
   appended (invisible to the observables, left out here) *)
Definition unset_member (q : str) (is_list : bool) (ms : list (str * obj)) : list (str * obj) :=
  if is_list then ms else filter (fun m => negb (str_eqb (fst m) q)) ms.
Definition class_matches (sch : list (str * class_row)) (cid q : str) : bool :=
  (fix f (l : list (str * class_row)) : bool :=
     match l with
     | [] => false
     | (k, r) :: rest => if str_eqb k cid then str_eqb (c_qname r) q else f rest
     end) sch.

Definition empty_row (q : str) : class_row := {| c_qname := q; c_attributes := []; c_children := [] |}.

(* SamlBase.harvest_element_tree for class [cid]: every child, then every
   attribute, then the text.  The child class named by the table is
   instantiated only when the child's tag equals that class's own qname
   (create_class_from_element_tree returns None otherwise: the member is SET
   TO None / None is appended - modelled by [None] in the option). *)
Fixpoint harvest (sch : schema) (cid : str) (t : xtree) {struct t} : obj :=
  let row := match find_class sch cid with Some r => r | None => empty_row (xtag t) end in
  match t with
  | Node _ attrs text kids =>
      let fix go (ks : list xtree) (ms : list (str * obj)) (xs : list xtree) {struct ks} : list (str * obj) * list xtree :=
        match ks with
        | [] => (ms, xs)
        | k :: ks' =>
            match find_child (c_children row) (xtag k) with
            | Some (ccid, is_list) =>
                if class_matches sch ccid (xtag k)
                then go ks' (set_member (xtag k) is_list (harvest sch ccid k) ms) xs
                else go ks' (unset_member (xtag k) is_list ms) xs
            | None => go ks' ms (xs ++ [k])
            end
        end in
      let (ms, xs) := go kids [] [] in
      Obj cid (filter (fun a => mem_str (fst a) (c_attributes row)) attrs)
              (filter (fun a => negb (mem_str (fst a) (c_attributes row))) attrs)
              text ms xs
  end.

Definition create_class_from_element_tree (sch : schema) (cid : str) (t : xtree) : option obj :=
  match find_class sch cid with
  | None => None
  | Some row => if str_eqb (xtag t) (c_qname row) then Some (harvest sch cid t) else None
  end.

(* create_class_from_xml_string: parse-or-raise, root tag test => None, then full harvest *)
Definition create_class_from_xml_string (r : reader) (sch : schema) (cid : str) (evs : list ev)
  : result (option obj) :=
  match parse r evs with
  | Err e => Err e
  | Ok t => Ok (create_class_from_element_tree sch cid t)
  end.

(* extension_element_from_string: parse-or-raise, then the whole tree *)
Definition extension_element_from_string (r : reader) (evs : list ev) : result xtree := parse r evs.

(* ---- SOAP ---- *)
Definition soap_ns : str := s2l "http://schemas.xmlsoap.org/soap/envelope/".
Definition q (ns local : str) : str := [123] ++ ns ++ [125] ++ local.
Definition EnvelopeQ := q soap_ns (s2l "Envelope").
Definition BodyQ := q soap_ns (s2l "Body").
Definition HeaderQ := q soap_ns (s2l "Header").
Definition AssertionError : str := s2l "AssertionError".

Fixpoint first_body (parts : list xtree) : option xtree :=
  match parts with
  | [] => None
  | p :: rest => if str_eqb (xtag p) BodyQ then Some p else first_body rest
  end.

Inductive thingy := NoBody | Part (t : xtree).     (* "" | the serialised SAML element *)

(* soap.parse_soap_enveloped_saml_thingy *)
Definition parse_soap_enveloped_saml_thingy (r : reader) (expected : list str) (evs : list ev) : result thingy :=
  match parse r evs with
  | Err e => Err e
  | Ok envl =>
      if negb (str_eqb (xtag envl) EnvelopeQ) then Err AssertionError
      else match xkids envl with
           | [] => Err AssertionError
           | parts =>
               match first_body parts with
               | None => Ok NoBody
               | Some b =>
                   match xkids b with
                   | [s] => if mem_str (xtag s) expected then Ok (Part s) else Err (s2l "WrongMessageType")
                   | _ => Err AssertionError
                   end
               end
           end
  end.

(* soap.open_soap_envelope: body = LAST Body part (each Body overwrites), headers = all Header items *)
Fixpoint open_parts (parts : list xtree) (body : option xtree) (hdr : list xtree)
  : result (option xtree * list xtree) :=
  match parts with
  | [] => Ok (body, hdr)
  | p :: rest =>
      if str_eqb (xtag p) BodyQ then
        match xkids p with
        | [s] => open_parts rest (Some s) hdr
        | _ => Err AssertionError
        end
      else if str_eqb (xtag p) HeaderQ then open_parts rest body (hdr ++ xkids p)
      else open_parts rest body hdr
  end.

Definition open_soap_envelope (r : reader) (evs : list ev) : result (option xtree * list xtree) :=
  match parse r evs with
  | Err _ => Err (s2l "XmlParseError")
  | Ok envl =>
      if negb (str_eqb (xtag envl) EnvelopeQ) then Err AssertionError
      else match xkids envl with
           | [] => Err AssertionError
           | parts => open_parts parts None []
           end
  end.

(* ---- observables ---- *)
Fixpoint count_tree (t : xtree) : N :=
  match t with Node _ _ _ kids => 1 + fold_right (fun k n => count_tree k + n) 0 kids end.
Fixpoint count_attrs_tree (t : xtree) : N :=
  match t with Node _ a _ kids => N.of_nat (List.length a) + fold_right (fun k n => count_attrs_tree k + n) 0 kids end.
Definition sum_trees (f : xtree -> N) (l : list xtree) : N := fold_right (fun k n => f k + n) 0 l.

Fixpoint count_obj (o : obj) : N :=
  match o with
  | Obj _ _ _ _ ms xs => 1 + fold_right (fun m n => count_obj (snd m) + n) 0 ms + sum_trees count_tree xs
  end.
Fixpoint count_attrs_obj (o : obj) : N :=
  match o with
  | Obj _ am ea _ ms xs => N.of_nat (List.length am) + N.of_nat (List.length ea)
                           + fold_right (fun m n => count_attrs_obj (snd m) + n) 0 ms + sum_trees count_attrs_tree xs
  end.
Definition obj_text (o : obj) : option str := match o with Obj _ _ _ t _ _ => t end.

Definition show_text (t : option str) : val := show_option VS t.
Definition show_obj (o : obj) : val := VL [VN (count_obj o); VN (count_attrs_obj o); show_text (obj_text o)].
Definition show_tree (t : xtree) : val :=
  VL [VS (xtag t); VN (count_tree t); VN (count_attrs_tree t); show_text (match t with Node _ _ x _ => x end)].

Definition show_create (x : result (option obj)) : val := show_result (show_option show_obj) x.
Definition show_ext (x : result xtree) : val := show_result show_tree x.
Definition show_thingy (x : result thingy) : val :=
  show_result (fun t => match t with NoBody => VS [] | Part s => show_tree s end) x.
Definition show_open (x : result (option xtree * list xtree)) : val :=
  show_result (fun p => VL [show_option show_tree (fst p); show_list show_tree (snd p)]) x.

(* refusal granularity of the correspondence: the statement does not fix the
   exception class, and a None result is a refusal too *)
Definition coarse (v : val) : val :=
  match v with VE _ | VNone => VE (s2l "refused") | x => x end.
