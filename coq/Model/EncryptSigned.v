(* Model/EncryptSigned.v — C17, decrypted assertions in a SIGNED response.

   AuthnResponse.parse_assertion hands a `verified` flag to decrypt_assertions at three call sites:
     first  : after the first decrypt loop       decrypt_assertions(resp.encrypted_assertion, decr_text)           -> False
     second : inside the second decrypt loop     decrypt_assertions(..., verified=True)                            -> True
     advice : the advice pass                    decrypt_assertions(advice.encrypted_assertion, decr_text, issuer) -> False
   A valid signature of the <Response> covers the CIPHERTEXT, not what is inside it after decryption.  So the
   first and the advice flag must not depend on whether the response is signed.  Here the flags are made an
   explicit parameter: a function of [signed] = bool(self.response.signature).  [code_flags] is the code as it is
   (constant False); [parse_t_v code_flags signed] IS Model.Encrypt.parse_t (Proofs/EncryptSigned_lemmas.v), and the
   variant that trusts the response signature ([trusting_flags]) is refuted in Props/C17.v. *)
From PV Require Import Lib.Base Model.Status Model.Response Model.Encrypt.
Open Scope Z_scope.

Record vflags := { vf_first : bool -> bool; vf_advice : bool -> bool }.
Definition code_flags : vflags := {| vf_first := fun _ => false; vf_advice := fun _ => false |}.
Definition trusting_flags : vflags := {| vf_first := fun signed => signed; vf_advice := fun _ => false |}.
Definition trusting_advice_flags : vflags := {| vf_first := fun _ => false; vf_advice := fun signed => signed |}.

(* bool(self.response.signature): a Signature element is present *)
Definition response_signed (r : response) : bool := match r_sig r with Some _ => true | None => false end.

(* decrypt_assertions(..., verified=b): `if assertion.signature and not verified: check_signature(...)` *)
Definition verify_views_v (verified : bool) (l : list asrt_view) : result unit :=
  if verified then Ok tt else verify_views l.
(* the advice pass with that flag: nothing is verified when it is True *)
Definition advice_pass_v (verified : bool) (l : list asrt_view) : result unit :=
  if verified then Ok tt else advice_pass l.

(* Model.Encrypt.parse_t with the two flags explicit *)
Definition parse_t_v (fl : vflags) (signed : bool) (tc : tcfg) (c : cfg) (irt : option str) (req : bool) (s : st)
           (root0 : list dtree) (again : bool) (fs : list bool) : stage_out :=
  let fail e again' fs' := {| so_res := Err e; so_residue := s; so_root := root0; so_again := again'; so_faults := fs' |} in
  let plain0 := asrts root0 in
  if negb ((List.length plain0 =? 1)%nat || (List.length (eas root0) =? 1)%nat || again) then fail (E "Exception") again fs else
  match check_assertions c irt req false false s (map as_checked plain0) with
  | Err e => fail e again fs
  | Ok s1 =>
      let again1 := again || negb (is_nil plain0) in
      if negb (find_encrypt_data root0) then
        {| so_res := Ok (push_all s1 (map v_a plain0)); so_residue := s; so_root := root0; so_again := again1; so_faults := fs |}
      else
      let text := reserialize root0 in
      match dec_loop (fuel_for text fs) find_encrypt_data (t_keys tc) (t_pol tc) fs text with
      | None => fail (E "OutOfFuel") again1 fs
      | Some (t1, fs1) =>
          let V := ea_asrts t1 in
          match verify_views_v (vf_first fl signed) V with
          | Err e => fail e again1 fs1
          | Ok _ =>
              match dec_loop (fuel_for t1 fs1) cond2 (t_keys tc) (t_pol tc) fs1 t1 with
              | None => fail (E "OutOfFuel") again1 fs1
              | Some (t2, fs2) =>
                  let W := ea_asrts t2 in
                  let plain2 := asrts t2 in
                  if t_fixed tc && negb (nlist_eqb (ids_of W) (ids_of V) && nlist_eqb (ids_of plain2) (ids_of plain0))
                  then fail SignatureError again1 fs2 else
                  match advice_pass_v (vf_advice fl signed) (W ++ plain2) with
                  | Err e => fail e again1 fs2
                  | Ok _ =>
                      let wa := map v_a W in
                      let root_left := map (processed_plain (ids_of plain0)) (filter is_asrt t2) ++ filter (fun x => negb (is_asrt x)) root0 in
                      match check_assertions c irt req true true s1 wa with
                      | Err e =>
                          let sf := acc_after_failure c irt req true s1 wa in
                          {| so_res := Err e;
                             so_residue := {| came_from := came_from s; not_on_or_after := not_on_or_after s; session_nooa := session_nooa s;
                                              nid := nid s; acc := acc sf |};
                             so_root := root_left;
                             so_again := again1 || negb (Nat.eqb (List.length (acc sf)) (List.length (acc s1)));
                             so_faults := fs2 |}
                      | Ok s2 => {| so_res := Ok (push_all s2 (map v_a plain2)); so_residue := s; so_root := root_left; so_again := true;
                                    so_faults := fs2 |}
                      end
                  end
              end
          end
      end
  end.

Definition stage_t_v (fl : vflags) (signed : bool) (tc : tcfg) (c : cfg) (irt : option str) (req : bool) (s : st) (x : tstate) : result st * tstate :=
  match x with (fs, root, again) =>
    let o := parse_t_v fl signed tc c irt req s root again fs in (so_res o, (so_faults o, so_root o, so_again o)) end.
Definition residue_t_v (fl : vflags) (signed : bool) (tc : tcfg) (c : cfg) (irt : option str) (req : bool) (s : st) (x : tstate) : st :=
  match x with (fs, root, again) => so_residue (parse_t_v fl signed tc c irt req s root again fs) end.
(* the whole SP run; [signed] is read off the envelope *)
Definition parse_response_t_v (fl : vflags) (tc : tcfg) (c : cfg) (r : response) (root : list dtree) (fs : list bool) : result outcome :=
  parse_response_x (stage_t_v fl (response_signed r) tc c (r_irt r)) (residue_t_v fl (response_signed r) tc c (r_irt r)) c (env_of r root) (fs, root, false).
