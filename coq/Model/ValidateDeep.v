(* Model/ValidateDeep.v - deep instance trees built from a DEPTH NUMBER (C13, depth class).
   A chain through a recursive construct of the schemas (StatusCode in StatusCode,
   Assertion > Advice > Assertion, EntitiesDescriptor in EntitiesDescriptor, ...) is given by one
   function per child edge of the cycle - the parent instance with a hole for what hangs below -
   and the number n of child edges between the root and the innermost instance.  The harness
   hands `deep steps n leaf` to coqc, so a tree of depth 64 costs a term of constant size. *)
From PV Require Import Lib.Base Model.Schema Model.Validate.
Open Scope N_scope.

(* the steps are applied cyclically: level j of the chain uses step (j mod length) *)
Fixpoint deep_from (fs all : list (inst -> inst)) (n : nat) (leaf : inst) : inst :=
  match n with
  | O => leaf
  | Datatypes.S n' =>
      match fs with
      | f :: r => f (deep_from r all n' leaf)
      | [] => match all with
              | f :: r => f (deep_from r all n' leaf)
              | [] => leaf
              end
      end
  end.
Definition deep (steps : list (inst -> inst)) (n : nat) (leaf : inst) : inst := deep_from steps steps n leaf.

(* the shape of a step: a parent of class c whose child list holds the hole under member m *)
Definition step_of (c : N) (a : list (N * str)) (t : option str) (before : list (N * inst)) (m : N)
           (after : list (N * inst)) (xa : list (N * str)) (xe : list xtree) : inst -> inst :=
  fun x => I c a t (before ++ (m, x) :: after) xa xe.

(* a list member repeated: w - 1 equal siblings, then x *)
Definition wide (m : N) (sib : inst) (w : nat) (x : inst) : list (N * inst) :=
  map (fun k => (m, k)) (repeat sib (Nat.pred w) ++ [x]).
