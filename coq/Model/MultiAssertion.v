(* C01, round 4 (b): several plain assertions in one response.  AuthnResponse.parse_assertion loops over
   response.assertion and runs _assertion(a, verified=False) on EACH: an assertion without a Signature child is an
   error when require_signature (= want_assertions_signed); one WITH a Signature child is verified whatever the
   setting; then conditions and subject are checked (name_id := that assertion's).  Afterwards every plain assertion
   is appended to .assertions and get_identity merges their attribute statements (dict.update: later wins). *)
From PV Require Import Lib.Base.
Import ListNotations.
Open Scope N_scope.

Record assn := { a_signed : bool;      (* has a ds:Signature child (item.signature) *)
                 a_sig_ok : bool;      (* verdict of check_signature on it *)
                 a_cond_ok : bool;     (* authn statement, conditions, subject checks pass *)
                 a_name : str;         (* its name id *)
                 a_ident : list (str * list str) }.   (* its attributes *)

Definition assertion_checked (req : bool) (a : assn) : bool :=
  (if a_signed a then a_sig_ok a else negb req) && a_cond_ok a.

(* the loop; None = an exception left it *)
Fixpoint parse_plain (req : bool) (l : list assn) (nm : option str) : option (option str) :=
  match l with
  | [] => Some nm
  | a :: r => if assertion_checked req a then parse_plain req r (Some (a_name a)) else None
  end.

Fixpoint upd (d : list (str * list str)) (k : str) (v : list str) : list (str * list str) :=
  match d with
  | [] => [(k, v)]
  | (k', v') :: r => if str_eqb k' k then (k, v) :: r else (k', v') :: upd r k v
  end.
Definition update (d e : list (str * list str)) : list (str * list str) :=
  fold_left (fun d kv => upd d (fst kv) (snd kv)) e d.
Definition get_identity (l : list assn) : list (str * list str) :=
  fold_left (fun d a => update d (a_ident a)) l [].

(* what the application gets: .assertions, .ava, .name_id *)
Definition parse_assertions (req : bool) (l : list assn) : option (list assn * list (str * list str) * option str) :=
  match parse_plain req l None with
  | Some nm => Some (l, get_identity l, nm)
  | None => None
  end.

(* NOT the code: a loop that stops after the first plain assertion *)
Definition parse_first_only (req : bool) (l : list assn) : option (list assn * list (str * list str) * option str) :=
  match parse_plain req (firstn 1 l) None with
  | Some nm => Some (l, get_identity l, nm)
  | None => None
  end.

(* observable for the correspondence unit: is the response accepted (per assertion: signed, signature verdict) *)
Definition mk (sv : bool * bool) : assn :=
  {| a_signed := fst sv; a_sig_ok := snd sv; a_cond_ok := true; a_name := []; a_ident := [] |}.
Definition show_parse_plain (c : list (bool * list (bool * bool))) : val :=
  VL (map (fun q => VB (match parse_plain (fst q) (map mk (snd q)) None with Some _ => true | None => false end)) c).
