(* Model/Status.v — StatusResponse.status_ok, StatusResponse._verify and the
   verify() wrappers of response.py (356-376, 409-442, 1029-1056), and
   Request._verify's version assertion (request.py:82-102).
   Definitions only. *)
From PV Require Import Lib.Base Gen.StatusTable.
Open Scope N_scope.

(* <StatusCode Value=…> possibly nested *)
Inductive code_view := Code (value : option str) (sub : option code_view).
Record status_view := {
  st_code : option code_view;         (* Status without StatusCode: None *)
  st_msg  : bool                      (* StatusMessage present *)
}.

Fixpoint lookup (k : str) (t : list (str * str)) : option str :=
  match t with
  | [] => None
  | (k', v) :: t' => if str_eqb k k' then Some v else lookup k t'
  end.

Definition is_success (v : option str) : bool :=
  match v with Some s => str_eqb s STATUS_SUCCESS | None => false end.

(* response.py status_ok.  [table] is STATUSCODE2EXCEPTION (regenerated). *)
Definition status_ok_gen (fixd : bool) (table : list (str * str)) (st : option status_view) : result unit :=
  match st with
  | None => if fixd then Err (s2l "StatusError")   (* repair in /repo: no <Status> at all is refused *)
            else Ok tt                             (* before: `if self.response.status:` was false and True was returned *)
  | Some s =>
      match st_code s with
      | None => Err (s2l "AttributeError")        (* status.status_code is None *)
      | Some (Code v sub) =>
          if is_success v then Ok tt
          else match sub with
               | None => Err (s2l "StatusError")
               | Some (Code sv _) =>
                   match sv with
                   | None => Err (s2l "KeyError")          (* table[None] *)
                   | Some k => match lookup k table with
                               | Some cls => Err cls
                               | None => Err (s2l "KeyError")
                               end
                   end
               end
      end
  end.
Definition status_ok_with := status_ok_gen true.
Definition status_ok := status_ok_with status_table.
(* the library before the repair: a response without <Status> passed *)
Definition status_ok_before_fix := status_ok_gen false status_table.

Record verify_in := {
  id_mismatch : bool;          (* request_id and in_response_to set and different *)
  version : option str;
  ver_lt2 : option bool;       (* float(version) < 2.0; None = float() raises *)
  asynchop : bool;
  dest_ok : bool;              (* _validate_destination() *)
  issue_ok : result bool;      (* issue_instant_ok(); str_to_time may raise *)
  status : option status_view
}.

Definition V20 : str := s2l "2.0".
Definition version_is_20 (v : option str) : bool :=
  match v with Some s => str_eqb s V20 | None => false end.

(* StatusResponse._verify : Ok None = "return None" *)
Definition verify_core (i : verify_in) : result (option unit) :=
  if id_mismatch i then Ok None else
  if negb (version_is_20 (version i)) then
    match version i with
    | None => Err (s2l "TypeError")               (* float(None) *)
    | Some _ => match ver_lt2 i with
                | None => Err (s2l "ValueError")
                | Some true => Err (s2l "RequestVersionTooLow")
                | Some false => Err (s2l "RequestVersionTooHigh")
                end
    end
  else if asynchop i && negb (dest_ok i) then Ok None
  else match issue_ok i with
       | Err e => Err e
       | Ok false => Err (s2l "AssertionError")
       | Ok true =>
           match status_ok (status i) with
           | Err e => Err e
           | Ok _ => Ok (Some tt)
           end
       end.

(* AuthnResponse.verify: AssertionError re-raised; None stays None; then the
   assertion stage [rest] (parse_assertion) runs *)
Definition authn_verify {A} (i : verify_in) (rest : result (option A)) : result (option A) :=
  match verify_core i with
  | Err e => Err e
  | Ok None => Ok None
  | Ok (Some _) => rest
  end.

(* StatusResponse.verify (logout etc.): AssertionError is swallowed -> None *)
Definition status_verify (i : verify_in) : result (option unit) :=
  match verify_core i with
  | Err e => if str_eqb e (s2l "AssertionError") then Ok None else Err e
  | r => r
  end.

(* Entity._parse_response tail: `response = response.verify(keys)` followed by
   `finally: response.require_signature = …` — a None result raises
   AttributeError there; a non-signature exception propagates. *)
Definition parse_tail {A} (r : result (option A)) : result A :=
  match r with
  | Err e => Err e
  | Ok None => Err (s2l "AttributeError")
  | Ok (Some a) => Ok a
  end.

(* Request._verify / Request.verify (request.py:82-102) *)
Record req_verify_in := {
  r_version : option str;
  r_dest_present : bool; r_have_addrs : bool; r_dest_in_addrs : bool;
  r_issue_ok : result bool
}.
Definition request_verify (i : req_verify_in) : result (option unit) :=
  if negb (version_is_20 (r_version i)) then Ok None    (* AssertionError -> None *)
  else if r_dest_present i && r_have_addrs i && negb (r_dest_in_addrs i) then Err (s2l "OtherError")
  else match r_issue_ok i with
       | Err e => Err e
       | Ok false => Ok None
       | Ok true => Ok (Some tt)
       end.

(* ---- observables for the correspondence harness ---- *)
Definition show_unit_opt (r : result (option unit)) : val :=
  match r with Err e => VE e | Ok None => VNone | Ok (Some _) => VB true end.
