(* Model/MdSpell.v — validUntil AS IT IS WRITTEN, and histories of store operations.

   Model/MdStore.v starts from documents whose validUntil is already a number.
   The library starts from the attribute TEXT:
     time_util.str_to_time 232-251 (strptime with %Y-%m-%dT%H:%M:%SZ, else the
       pattern TIME_FORMAT_WITH_FRAGMENT = 19 characters dddd-dd-ddTdd:dd:dd, then
       optionally a dot and any number of digits, then optionally Z, then the end; else
       elem.groups() on None: AttributeError), time_util.before / valid 269-303,
     validate.valid_date_time 73-78 (ANY exception of str_to_time = NotValid),
       reached by valid_instance for the validUntil of an EntitiesDescriptor and
       of each of its EntityDescriptor children (a stand-alone EntityDescriptor
       is never passed to valid_instance),
     mdstore.do_entity_descriptor 470-480 and parse 536-544:
       try: valid(x.valid_until) ... except AttributeError: pass.
   This file models that text layer (rentity / rdocbody / rsource: the documents
   of MdStore with the validUntil spelling and the per-element outcome of
   valid_instance), follows do_entity_descriptor / parse / load / imp on it, and
   adds operation HISTORIES on one long-lived MetadataStore (loads interleaved
   with lookups).  Proofs/MdSpell_lemmas.v shows that this layer is the old
   model on an elaborated document, so every theorem about MdStore carries over.

   [lenient] = what do_entity_descriptor does with the AttributeError of an
   uninterpretable validUntil:  true  = the library as it is (swallowed: the
   entity counts as valid);  false = after proposed_fix/C16-4 (counts as too
   old).  Definitions only. *)
From PV Require Import Lib.Base Model.MdStore.
Open Scope N_scope.

Definition AttributeError : str := s2l "AttributeError".
Definition ValueError : str := s2l "ValueError".
Definition MustValueError : str := s2l "MustValueError".
Definition SourceNotFound : str := s2l "SourceNotFound".

(* ---------- the text of a dateTime attribute ---------- *)
(* the first 19 characters; the conversion of a well-formed date-time to epoch
   seconds (time.strptime + calendar.timegm) is not modelled: t is given *)
Inductive vucore :=
| CoreDate (t : Z)  (* YYYY-MM-DDTHH:MM:SS naming a calendar date-time; t = calendar.timegm of it *)
| CoreShape         (* has the shape dddd-dd-ddTdd:dd:dd (d = digit) but strptime rejects it (month 13, 30 February, hour 25) *)
| CoreOther.        (* anything else: neither strptime nor the pattern accept the text, whatever follows *)
Record vutext := { vt_core : vucore; vt_suffix : str }.   (* suffix = everything after the 19th character *)

Definition is_digit (c : N) : bool := (48 <=? c) && (c <=? 57).
Fixpoint drop_digits (s : str) : str :=
  match s with
  | c :: r => if is_digit c then drop_digits r else s
  | [] => []
  end.
(* the rest of the pattern after group 1: optional dot + digits, optional Z, end
   (the end anchor also matches before a final line feed) *)
Definition after_fraction (s : str) : str :=
  match s with
  | c :: r => if c =? 46 then drop_digits r else s
  | [] => []
  end.
Definition end_ok (s : str) : bool :=
  match s with
  | [] => true
  | [c] => (c =? 90) || (c =? 10)
  | [c; d] => (c =? 90) && (d =? 10)
  | _ => false
  end.
Definition fragment_suffix (s : str) : bool := end_ok (after_fraction s).
(* time.strptime(text, "%Y-%m-%dT%H:%M:%SZ"): the literal Z is matched ignoring case *)
Definition strptime_suffix (s : str) : bool :=
  match s with [c] => (c =? 90) || (c =? 122) | _ => false end.

Definition str_to_time (v : vutext) : result Z :=
  match vt_core v with
  | CoreDate t => if strptime_suffix (vt_suffix v) || fragment_suffix (vt_suffix v) then Ok t else Err AttributeError
  | CoreShape => if fragment_suffix (vt_suffix v) then Err ValueError    (* the second strptime raises *)
                 else Err AttributeError
  | CoreOther => Err AttributeError
  end.

(* None = attribute absent or empty (before(point): "if not point: return True") *)
Definition vuspell := option vutext.

(* time_util.valid = before: time.gmtime() <= str_to_time(point); the fraction is dropped *)
Definition vu_valid (now : Z) (v : vuspell) : result bool :=
  match v with
  | None => Ok true
  | Some x => match str_to_time x with Ok t => Ok (now <=? t)%Z | Err e => Err e end
  end.
Definition vu_parsed (v : vuspell) : option Z :=
  match v with
  | None => None
  | Some x => match str_to_time x with Ok t => Some t | Err _ => None end
  end.
(* validate.valid_date_time raises NotValid *)
Definition vu_bad (v : vuspell) : bool :=
  match v with None => false | Some x => negb (is_ok (str_to_time x)) end.

(* ---------- documents with their validUntil texts ---------- *)
Record rentity := {
  re_vu : vuspell;     (* validUntil of the EntityDescriptor as written *)
  re_iv : ivalid;      (* what valid_instance does with this EntityDescriptor apart from validUntil *)
  re_ent : entity      (* the rest (its e_valid_until is not looked at) *)
}.
Inductive rdocbody :=
| RMany (vu : vuspell) (iv : ivalid) (es : list rentity)   (* iv: the root's own checks apart from validUntil *)
| RSingle (e : rentity)
| RNotMetadata.

Definition ent_of (re : rentity) : entity :=
  {| e_id := e_id (re_ent re); e_valid_until := vu_parsed (re_vu re); e_roles := e_roles (re_ent re);
     e_affil := e_affil (re_ent re); e_eattrs := e_eattrs (re_ent re) |}.

(* valid_instance(EntitiesDescriptor): attributes first (validUntil is the first one), then the children in
   document order, each child: its attributes (validUntil), then its own children *)
Fixpoint ents_ivalid (es : list rentity) : ivalid :=
  match es with
  | [] => IvOk
  | e :: r => if vu_bad (re_vu e) then IvNotValid
              else match re_iv e with IvOk => ents_ivalid r | x => x end
  end.
Definition doc_ivalid (vu : vuspell) (iv : ivalid) (es : list rentity) : ivalid :=
  if vu_bad vu then IvNotValid
  else match iv with IvOk => ents_ivalid es | x => x end.

(* try: if not valid(x.valid_until): <too old> except AttributeError: pass
   -> Ok true = go on, Ok false = too old, Err = the exception leaves *)
Definition validity_gate (lenient : bool) (now : Z) (v : vuspell) : result bool :=
  match vu_valid now v with
  | Ok b => Ok b
  | Err e => if str_eqb e AttributeError then Ok lenient else Err e
  end.

(* InMemoryMetaData.do_entity_descriptor *)
Definition rdo_entity (lenient : bool) (now : Z) (check : bool) (m : mdmap) (re : rentity) : result mdmap :=
  if check then
    match validity_gate lenient now (re_vu re) with
    | Ok true => do_entity now false m (ent_of re)      (* duplicate / protocol filter / store *)
    | Ok false => Ok m                                  (* logged, to_old, skipped *)
    | Err e => Err e
    end
  else do_entity now false m (ent_of re).

Fixpoint rfold_ents (lenient : bool) (now : Z) (check : bool) (m : mdmap) (es : list rentity) : result mdmap :=
  match es with
  | [] => Ok m
  | e :: rest => match rdo_entity lenient now check m e with
                 | Ok m' => rfold_ents lenient now check m' rest
                 | Err x => Err x
                 end
  end.

(* InMemoryMetaData.parse; the EntitiesDescriptor's own except AttributeError: pass is the
   library's (lenient there whatever the repair does: the repair touches do_entity_descriptor only) *)
Definition rparse (lenient : bool) (now : Z) (check : bool) (b : rdocbody) : result mdmap :=
  match b with
  | RNotMetadata => Ok []
  | RSingle e => rdo_entity lenient now check [] e
  | RMany vu iv es =>
      match doc_ivalid vu iv es with
      | IvNotValid => Ok []
      | IvRaises => Err MustValueError
      | IvOk =>
          if check then
            match validity_gate true now vu with
            | Ok true => rfold_ents lenient now check [] es
            | Ok false => Err ToOld
            | Err e => Err e
            end
          else rfold_ents lenient now check [] es
      end
  end.

(* ---------- sources ---------- *)
(* rs_src: key, kind, certificate, check_validity, http status, verification outcome, d_signed of its
   document; the d_body of rs_src is not looked at - the body is rs_body *)
Record rsource := { rs_src : source; rs_body : rdocbody }.

(* the part of parse_and_check_signature after parse *)
Definition sig_gate (s : source) (m : mdmap) : result mdmap :=
  if s_cert s then
    if negb (d_signed (s_doc s)) then Ok m
    else match s_kind s with
         | Remote => match s_verdict s with
                     | Err e => Err e
                     | Ok true => Ok m
                     | Ok false => Err SignatureError
                     end
         | _ => Err AttributeError
         end
  else Ok m.

Definition rparse_and_check (lenient : bool) (now : Z) (check : bool) (rs : rsource) : result mdmap :=
  match rparse lenient now check (rs_body rs) with
  | Err e => Err e
  | Ok m => sig_gate (rs_src rs) m
  end.

Definition rload_source (lenient : bool) (now : Z) (rs : rsource) : result mdmap :=
  match s_kind (rs_src rs) with
  | Inline => rparse lenient now true (rs_body rs)
  | LocalFile => rparse_and_check lenient now true rs
  | Remote => if s_http_ok (rs_src rs) then rparse_and_check lenient now (s_check (rs_src rs)) rs
              else Err SourceNotFound
  end.

Definition rstore_load (lenient : bool) (now : Z) (st : store) (rs : rsource) : store * option str :=
  match rload_source lenient now rs with
  | Ok m => (aset (s_key (rs_src rs)) m st, None)
  | Err e => (st, Some e)
  end.

Fixpoint rload_all (lenient : bool) (now : Z) (st : store) (srcs : list rsource) : store :=
  match srcs with
  | [] => st
  | s :: rest => rload_all lenient now (fst (rstore_load lenient now st s)) rest
  end.
Fixpoint rload_outcomes (lenient : bool) (now : Z) (st : store) (srcs : list rsource) : list (option str) :=
  match srcs with
  | [] => []
  | s :: rest => snd (rstore_load lenient now st s) :: rload_outcomes lenient now (fst (rstore_load lenient now st s)) rest
  end.
Fixpoint rimp (lenient : bool) (now : Z) (st : store) (srcs : list rsource) : store * option str :=
  match srcs with
  | [] => (st, None)
  | s :: rest => match rstore_load lenient now st s with
                 | (st', None) => rimp lenient now st' rest
                 | (st', Some e) => (st', Some e)
                 end
  end.

(* ---------- histories: one long-lived MetadataStore, loads interleaved with lookups ---------- *)
Inductive rop :=
| OpLoad (rs : rsource)          (* mds.load(...) / mds.imp(one source); a raising load leaves the store as it was *)
| OpAsk (qs : list query)        (* lookups: they do not change the store *)
| OpAskAll (eids : list str).    (* the whole query universe *)

Definition none_b (o : option str) : bool := match o with None => true | Some _ => false end.

(* the flat list of observations: one bool per load (no exception?), one answer per query *)
Fixpoint run_ops (lenient : bool) (now : Z) (st : store) (ops : list rop) : list val :=
  match ops with
  | [] => []
  | OpLoad rs :: rest =>
      VB (none_b (snd (rstore_load lenient now st rs))) :: run_ops lenient now (fst (rstore_load lenient now st rs)) rest
  | OpAsk qs :: rest => map (run_query st) qs ++ run_ops lenient now st rest
  | OpAskAll eids :: rest => map (run_query st) (query_universe eids) ++ run_ops lenient now st rest
  end.

(* the store a history leaves behind *)
Fixpoint ops_store (lenient : bool) (now : Z) (st : store) (ops : list rop) : store :=
  match ops with
  | [] => st
  | OpLoad rs :: rest => ops_store lenient now (fst (rstore_load lenient now st rs)) rest
  | _ :: rest => ops_store lenient now st rest
  end.
Definition loads_of (ops : list rop) : list rsource :=
  flat_map (fun o => match o with OpLoad rs => [rs] | _ => [] end) ops.

(* ---------- observables ---------- *)
Definition run_history (c : bool * Z * list rop) : val :=
  let '(lenient, now, ops) := c in VL (run_ops lenient now [] ops).

Definition run_rfederation (c : bool * Z * list rsource * list query) : val :=
  let '(lenient, now, srcs, qs) := c in
  let st := rload_all lenient now [] srcs in
  VL [VL (map (fun o => VB (none_b o)) (rload_outcomes lenient now [] srcs)); VL (map (run_query st) qs)].
Definition run_rfederation_u (c : bool * Z * list rsource * list str) : val :=
  let '(lenient, now, srcs, eids) := c in run_rfederation (lenient, now, srcs, query_universe eids).

Definition run_rimp_u (c : bool * Z * list rsource * list str) : val :=
  let '(lenient, now, srcs, eids) := c in
  let '(st, o) := rimp lenient now [] srcs in
  VL [VB (none_b o); VL (map (run_query st) (query_universe eids))].

(* str_to_time on its own: the epoch value / the exception class *)
Definition run_str_to_time (v : vutext) : val := show_result VZ (str_to_time v).
