(* GENERATED from /repo by harness/c10_empty.py on every run - do not edit *)
From PV Require Import Lib.Base Model.Schema.
Open Scope N_scope.

Definition ri_good : inst := (I 813 [(177,(s2l "rq-1"));(1055,(s2l "2.0"));(1057,(s2l "2026-09-21T14:13:20Z"));(928,(s2l "https://sp.example.org/acs/alice"))] None [(915,(I 716 [] (Some (s2l "https://sp.example.org/sp")) [] [] []));(1127,(I 811 [] None [(917,(I 807 [] None [(1108,(I 791 [(1069,(s2l "https://idp2.example.org/idp"))] None [] [] []))] [] []))] [] []))] [] []).
Definition ri_empty_root : inst := (I 813 [(177,([]:str));(1055,(s2l "2.0"));(1057,(s2l "2026-09-21T14:13:20Z"));(928,(s2l "https://sp.example.org/acs/alice"))] None [(915,(I 716 [] (Some (s2l "https://sp.example.org/sp")) [] [] []))] [] []).
Definition ri_empty_deep : inst := (I 813 [(177,(s2l "rq-1"));(1055,(s2l "2.0"));(1057,(s2l "2026-09-21T14:13:20Z"));(928,(s2l "https://sp.example.org/acs/alice"))] None [(915,(I 716 [] (Some (s2l "https://sp.example.org/sp")) [] [] []));(1127,(I 811 [] None [(917,(I 807 [] None [(1108,(I 791 [(1069,([]:str))] None [] [] []))] [] []))] [] []))] [] []).
Definition ri_absent_deep : inst := (I 813 [(177,(s2l "rq-1"));(1055,(s2l "2.0"));(1057,(s2l "2026-09-21T14:13:20Z"));(928,(s2l "https://sp.example.org/acs/alice"))] None [(915,(I 716 [] (Some (s2l "https://sp.example.org/sp")) [] [] []));(1127,(I 811 [] None [(917,(I 807 [] None [(1108,(I 791 [] None [] [] []))] [] []))] [] []))] [] []).
