(* GENERATED from /repo by harness/translate.py on every run - do not edit *)
From PV Require Import Lib.Base.
Open Scope N_scope.

Definition STATUS_AUTHN_FAILED : str := (s2l "urn:oasis:names:tc:SAML:2.0:status:AuthnFailed").
Definition STATUS_INVALID_ATTR_NAME_OR_VALUE : str := (s2l "urn:oasis:names:tc:SAML:2.0:status:InvalidAttrNameOrValue").
Definition STATUS_INVALID_NAMEID_POLICY : str := (s2l "urn:oasis:names:tc:SAML:2.0:status:InvalidNameIDPolicy").
Definition STATUS_NO_AUTHN_CONTEXT : str := (s2l "urn:oasis:names:tc:SAML:2.0:status:NoAuthnContext").
Definition STATUS_NO_AVAILABLE_IDP : str := (s2l "urn:oasis:names:tc:SAML:2.0:status:NoAvailableIDP").
Definition STATUS_NO_PASSIVE : str := (s2l "urn:oasis:names:tc:SAML:2.0:status:NoPassive").
Definition STATUS_NO_SUPPORTED_IDP : str := (s2l "urn:oasis:names:tc:SAML:2.0:status:NoSupportedIDP").
Definition STATUS_PARTIAL_LOGOUT : str := (s2l "urn:oasis:names:tc:SAML:2.0:status:PartialLogout").
Definition STATUS_PROXY_COUNT_EXCEEDED : str := (s2l "urn:oasis:names:tc:SAML:2.0:status:ProxyCountExceeded").
Definition STATUS_REQUESTER : str := (s2l "urn:oasis:names:tc:SAML:2.0:status:Requester").
Definition STATUS_REQUEST_DENIED : str := (s2l "urn:oasis:names:tc:SAML:2.0:status:RequestDenied").
Definition STATUS_REQUEST_UNSUPPORTED : str := (s2l "urn:oasis:names:tc:SAML:2.0:status:RequestUnsupported").
Definition STATUS_REQUEST_VERSION_DEPRECATED : str := (s2l "urn:oasis:names:tc:SAML:2.0:status:RequestVersionDeprecated").
Definition STATUS_REQUEST_VERSION_TOO_HIGH : str := (s2l "urn:oasis:names:tc:SAML:2.0:status:RequestVersionTooHigh").
Definition STATUS_REQUEST_VERSION_TOO_LOW : str := (s2l "urn:oasis:names:tc:SAML:2.0:status:RequestVersionTooLow").
Definition STATUS_RESOURCE_NOT_RECOGNIZED : str := (s2l "urn:oasis:names:tc:SAML:2.0:status:ResourceNotRecognized").
Definition STATUS_RESPONDER : str := (s2l "urn:oasis:names:tc:SAML:2.0:status:Responder").
Definition STATUS_SUCCESS : str := (s2l "urn:oasis:names:tc:SAML:2.0:status:Success").
Definition STATUS_TOO_MANY_RESPONSES : str := (s2l "urn:oasis:names:tc:SAML:2.0:status:TooManyResponses").
Definition STATUS_UNKNOWN_ATTR_PROFILE : str := (s2l "urn:oasis:names:tc:SAML:2.0:status:UnknownAttrProfile").
Definition STATUS_UNKNOWN_PRINCIPAL : str := (s2l "urn:oasis:names:tc:SAML:2.0:status:UnknownPrincipal").
Definition STATUS_UNSUPPORTED_BINDING : str := (s2l "urn:oasis:names:tc:SAML:2.0:status:UnsupportedBinding").
Definition STATUS_VERSION_MISMATCH : str := (s2l "urn:oasis:names:tc:SAML:2.0:status:VersionMismatch").

Definition status_table : list (str * str) := [
  ((s2l "urn:oasis:names:tc:SAML:2.0:status:VersionMismatch"), s2l "StatusVersionMismatch");
  ((s2l "urn:oasis:names:tc:SAML:2.0:status:AuthnFailed"), s2l "StatusAuthnFailed");
  ((s2l "urn:oasis:names:tc:SAML:2.0:status:InvalidAttrNameOrValue"), s2l "StatusInvalidAttrNameOrValue");
  ((s2l "urn:oasis:names:tc:SAML:2.0:status:InvalidNameIDPolicy"), s2l "StatusInvalidNameidPolicy");
  ((s2l "urn:oasis:names:tc:SAML:2.0:status:NoAuthnContext"), s2l "StatusNoAuthnContext");
  ((s2l "urn:oasis:names:tc:SAML:2.0:status:NoAvailableIDP"), s2l "StatusNoAvailableIdp");
  ((s2l "urn:oasis:names:tc:SAML:2.0:status:NoPassive"), s2l "StatusNoPassive");
  ((s2l "urn:oasis:names:tc:SAML:2.0:status:NoSupportedIDP"), s2l "StatusNoSupportedIdp");
  ((s2l "urn:oasis:names:tc:SAML:2.0:status:PartialLogout"), s2l "StatusPartialLogout");
  ((s2l "urn:oasis:names:tc:SAML:2.0:status:ProxyCountExceeded"), s2l "StatusProxyCountExceeded");
  ((s2l "urn:oasis:names:tc:SAML:2.0:status:RequestDenied"), s2l "StatusRequestDenied");
  ((s2l "urn:oasis:names:tc:SAML:2.0:status:RequestUnsupported"), s2l "StatusRequestUnsupported");
  ((s2l "urn:oasis:names:tc:SAML:2.0:status:RequestVersionDeprecated"), s2l "StatusRequestVersionDeprecated");
  ((s2l "urn:oasis:names:tc:SAML:2.0:status:RequestVersionTooHigh"), s2l "StatusRequestVersionTooHigh");
  ((s2l "urn:oasis:names:tc:SAML:2.0:status:RequestVersionTooLow"), s2l "StatusRequestVersionTooLow");
  ((s2l "urn:oasis:names:tc:SAML:2.0:status:ResourceNotRecognized"), s2l "StatusResourceNotRecognized");
  ((s2l "urn:oasis:names:tc:SAML:2.0:status:TooManyResponses"), s2l "StatusTooManyResponses");
  ((s2l "urn:oasis:names:tc:SAML:2.0:status:UnknownAttrProfile"), s2l "StatusUnknownAttrProfile");
  ((s2l "urn:oasis:names:tc:SAML:2.0:status:UnknownPrincipal"), s2l "StatusUnknownPrincipal");
  ((s2l "urn:oasis:names:tc:SAML:2.0:status:UnsupportedBinding"), s2l "StatusUnsupportedBinding");
  ((s2l "urn:oasis:names:tc:SAML:2.0:status:Responder"), s2l "StatusResponder")
].

Definition status_error_subclasses : list str := [s2l "StatusAuthnFailed"; s2l "StatusInvalidAttrNameOrValue"; s2l "StatusInvalidNameidPolicy"; s2l "StatusNoAuthnContext"; s2l "StatusNoAvailableIdp"; s2l "StatusNoPassive"; s2l "StatusNoSupportedIdp"; s2l "StatusPartialLogout"; s2l "StatusProxyCountExceeded"; s2l "StatusRequestDenied"; s2l "StatusRequestUnsupported"; s2l "StatusRequestVersionDeprecated"; s2l "StatusRequestVersionTooHigh"; s2l "StatusRequestVersionTooLow"; s2l "StatusResourceNotRecognized"; s2l "StatusResponder"; s2l "StatusTooManyResponses"; s2l "StatusUnknownAttrProfile"; s2l "StatusUnknownPrincipal"; s2l "StatusUnsupportedBinding"; s2l "StatusVersionMismatch"].
